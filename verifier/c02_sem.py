"""C02 helper -- whole-path evaluation of the frequency-domain entry points on symbols.

`PathEval` is `e2_eval.AutoEvaluator` grown into a small interprocedural interpreter for one *configuration* of a solver
(m None / given, uncoupled / coupled, which letters are in `incrb`, ...):

  * every test is decided on its **value** (`Config.truth`): `"v" in incrb`, a flag precomputed from it, `not ("v" not in incrb)`,
    `any(x in incrb for x in "dv")`, `m is None` after `m = self.m` are the same question; a test the configuration cannot decide and
    that guards more than a `raise` is recorded in `trace.undecided` (the rule then reports an analysis error, never a verdict);
  * calls to methods of the class (looked up along the base classes, possibly in another module) and to functions of the callee's
    own module are evaluated on the argument values; arrays filled through subscript stores are *buffers* with one identity across
    callers and callees (a helper that fills `a[pv]` of the array it was handed stores into the caller's array), every store is a
    cell `(identity, index value, stored value, node, clock)` of one shared trace;
  * module-level constants are folded per module; `np.matmul`, `np.negative`, `np.outer`, `.T` / `np.transpose`, `.dot`, `.sum`,
    `slice(i, i + 1)`, `getattr / setattr(x, name)` with a computed literal name, an alias of a library function (`solve = la.solve`), a computed
    callee (`(self.f if c else self.g)(...)`), np.not_equal & co., fields of a SimpleNamespace built here, `**{literal dict}` are understood;
    np.zeros & co. create an array identity wherever they are evaluated (comprehension, tuple, return), `.copy()` / np.zeros_like a new one;
    membership tests are decided on the value of the container (`set("dva") - set(incrb)`, `.difference`, `|`, `&`, literal tuples, `.count`,
    `.find`), order comparisons from the comparisons between the same two quantities the configuration already fixes;
  * private helpers imported from a sibling module and static methods called through the class are followed like methods;
  * subscripts that only reshape (`[:, None]`, `[None, :]`, `[np.newaxis, :]`, `[...]`) are the array itself, `X[:, I]` is `idx(X, I)`;
    with `erase_loop_index` the counter of a generic loop over the frequency axis is dropped as well (everything is element-wise there);
  * `for x in <literal tuple / string / range(const) / zip / enumerate / reversed / dict.items() of such>` is unrolled, other loops are
    evaluated once for a generic iteration, `continue` / `break` end it; comprehensions over such an iterable give a tuple (filters decided
    by the configuration), others the generic element; `x.append(v)` extends a list held item by item; `with` blocks are evaluated;
  * `explore` evaluates a function once per combination of the atomic tests the configuration leaves open (`_ForkConfig`).
  * (pass 3) a `raise` ends the evaluated path (`trace.raised`: such a combination returns nothing and is dropped by the rules); functions
    defined inside a function and lambdas are closures that read the enclosing scope when called; `*seq` / `**{...}` arguments are expanded;
    functools.partial, generator functions that only compute, `match` on literals, `try` (the path on which nothing raises), class-level
    constants, np.s_[...] index objects, itertools.count() / range(n) columns of a zip, solve(a=..., b=...), dict.pop / get / del / `in` on a
    dict held item by item, in-place updates of a whole array (`x *= f` is a store on the whole array) are understood; the option string a
    configuration stands for can be iterated letter by letter (`Config.items_of`), `isdisjoint / issuperset / issubset / len` on it are decided;
  * (pass 3) **nothing the evaluator does not follow may look like "nothing happened"**: a store through a value it does not know, a call
    of a function of the package / a local function that is not followed, a call that may write into an array of the trace it is handed (every
    callee that is not a known pure library function), a function handed to code that is not followed, `exec` & co., a computed callee, a
    statement kind that is not lowered, a method that changes a held container in a way that is not modelled: each is recorded in
    `trace.lost` / `trace.escaped` / `trace.undecided`; the rules then report an analysis error and never conclude that an array stayed zero.

  * (pass 4) counted `while` loops in any form (`while k + 1 < n`, `while True: ...; if k >= n: break`, `while k: k -= 1`, the increment first, last
    or in between; `k = k + 1`), `for` / `else` without a break, `enumerate(zip(...))` and other nestings of enumerate / zip / range / count (one
    counter), iterating over `X.T` and `X.T[k]` (columns of X), `reversed(...)` of a lone iterable; `dict(zip(...))`, `dict(k=v)`, `**dict`,
    `d.values() / keys() / items()`, `vars(namespace)`, list.pop, `a, *rest = seq`, x.__setitem__; `a and f()` / `a or f()` with Python's short
    circuit (an operand behind a deciding one is not evaluated); properties, class methods, `super().m()`, `type(self).m()`, `Cls.m(self, ...)`,
    *args / **kwargs parameters of followed functions, module-level namedtuples (`Record`), module-level lambdas and tables of lambdas,
    functools.partial of a library function; `math.tau`, a float literal that is exactly the double of q pi^n, `complex(a, b)`, np.reciprocal,
    ufunc.outer, np.full, np.take / .take, np.flatnonzero(x) (= the selection `x != 0`), `X[:, [k]]`, `X[..., S]` (a selector on the last axis:
    `axL`); sizes compared with 1.

Nothing of pyyeti is imported or run.  `rewrite` maps the atoms of a value (used to erase partition indices for the formula rules)."""
from __future__ import annotations

import ast

from . import e2_formula as F
from .core import Unsupported
from .e1_srcmodel import dotted
from .e2_eval import AutoEvaluator, DictValue, Unknown, is_unknown, need
from .sem import unfn, module_consts, and_binop, split_call

NONE = F.sym("None")


# ------------------------------------------------------------------------------------------------ values
def sym_name(v):
    """name of a value that is exactly one symbol, else None"""
    if v is None or is_unknown(v) or isinstance(v, (tuple, DictValue)):
        return None
    try:
        if not v.d.is_const() or v.d.const_value() != 1 or len(v.n.t) != 1:
            return None
        (m, c), = v.n.t.items()
        if c != 1 or len(m) != 1 or m[0][1] != 1:
            return None
        d = F.atom_desc(m[0][0])
    except Exception:  # noqa
        return None
    return d[1] if d[0] == "s" else None


def vkey(v):
    return (v.n.key(), v.d.key())


def _rw_poly(p, fn, memo):
    res = F.const(0)
    for m, c in p.t.items():
        term = F.const(c)
        for a, e in m:
            term = term * (_rw_atom(a, fn, memo) ** e)
        res = res + term
    return res


def _rw_atom(a, fn, memo):
    if a in memo:
        return memo[a]
    d = F.atom_desc(a)
    if d[0] == "s":
        r = fn("s", d[1], None)
        if r is NotImplemented:
            r = F.Rat(F.Poly.atom(a))
    elif d[0] in ("exp", "sin", "cos", "sqrt"):
        arg = _rw_poly(F._poly_from_key(d[1]), fn, memo)
        r = {"exp": F.exp, "sin": F.sin, "cos": F.cos, "sqrt": F.sqrt}[d[0]](arg)
    elif d[0] == "fn":
        args = []
        for k in d[2]:
            if isinstance(k, str):
                args.append(k)
            else:
                args.append(_rw_poly(F._poly_from_key(k[1]), fn, memo) / _rw_poly(F._poly_from_key(k[2]), fn, memo))
        r = fn("fn", d[1], args)
        if r is NotImplemented:
            r = F.fn(d[1], *args)
    else:
        raise Unsupported(f"rewrite atom {d}")
    memo[a] = r
    return r


def rewrite(v, fn):
    """rebuild a value bottom-up; fn(kind, name, args) -> Rat or NotImplemented with kind 's' (symbol) / 'fn' (opaque application, args rewritten)"""
    if isinstance(v, tuple):
        return tuple(rewrite(x, fn) for x in v)
    v = need(v)
    memo = {}
    return _rw_poly(v.n, fn, memo) / _rw_poly(v.d, fn, memo)


def erase_idx(v):
    """the value with every subscript dropped (X[I] -> X): the formula rules compare per-equation scalar formulas, which partition is
    selected is the typing rule's business"""
    def f(kind, name, args):
        if kind == "fn" and name == "idx":
            return args[0]
        return NotImplemented
    return rewrite(v, f)


def _symbols_of(v):
    out = set()

    def f(kind, name, args):
        if kind == "s":
            out.add(name)
        return NotImplemented
    try:
        rewrite(v, f)
    except Unsupported:
        out.add("<a term the algebra cannot walk>")
    return out


def atoms_of(v, name):
    """argument lists of all opaque applications `name` occurring (at any depth) in the value"""
    out = []

    def f(kind, nm, args):
        if kind == "fn" and nm == name:
            out.append(list(args))
        return NotImplemented
    rewrite(v, f)
    return out


# ------------------------------------------------------------------------------------------------ trace
class Trace:
    def __init__(self):
        self.cells = []       # (identity, index value | None (whole array), value, node, clock)
        self.calls = []       # (name, [positional values], {keyword: value}, node, clock)
        self.init = {}        # identity -> value the buffer was created from
        self.idents = set()
        self.loop_syms = set()
        self.undecided = []   # (test node, function name)
        self.seq = 0
        self.returns = {}     # function name -> [value]
        self.ret_nodes = {}   # function name -> [return statement]
        self.call_values = {} # id(call node) -> value of the (last evaluation of the) call
        self.notes = []
        self.created = set()  # identities of arrays made by a constructor call (np.zeros, ...)
        self.opaque = set()   # identities of stored-through locals bound to a value that may be a view of another array of the trace
        self.forked = []      # (test node, function name, key of the test value): tests the configuration left open, taken one way on this path
        self.raised = None    # (raise statement, function name): the evaluated path ends in an exception (nothing is returned on it)
        self.lost = []        # (node, function name, why): a store / a mutation the evaluator could not attribute to an array of the trace
        self.escaped = []     # (node, function name, callee, identities): an array of the trace handed to code that was not followed
        self.closures = {}    # symbol name -> (FunctionDef | Lambda, defining evaluator)
        self.sobj = {}        # key of an index object np.s_[...] -> the subscript it was written with
        self.unbound = []     # (node, function name, name): a name read on the evaluated path that nothing binds (NameError there)

    def tick(self):
        self.seq += 1
        return self.seq

    def fresh(self, name):
        k, nm = 1, name
        while nm in self.idents:
            k += 1
            nm = f"{name}@{k}"
        self.idents.add(nm)
        return nm

    def cells_of(self, ident):
        return [c for c in self.cells if c[0] == ident]


# ------------------------------------------------------------------------------------------------ configuration = truth of the tests
_NEG = {"Is": "IsNot", "IsNot": "Is", "Eq": "NotEq", "NotEq": "Eq", "In": "NotIn", "NotIn": "In", "Lt": "GtE", "GtE": "Lt", "Gt": "LtE", "LtE": "Gt"}
_SWAP = {"Eq": "Eq", "NotEq": "NotEq", "Lt": "Gt", "Gt": "Lt", "LtE": "GtE", "GtE": "LtE", "Is": "Is", "IsNot": "IsNot"}


_SAT = {"Lt": {"<"}, "LtE": {"<", "="}, "Eq": {"="}, "NotEq": {"<", ">"}, "GtE": {"=", ">"}, "Gt": {">"}}
_SETLIKE_CALLS = {"call:set", "call:frozenset", "call:list", "call:tuple", "call:sorted"}


def _literal_like(v):
    """a value that is a literal: a number, None, a quoted string, a builtin type name"""
    if v.is_const():
        return ("c", v.const_value())
    s = sym_name(v)
    if s is not None and (s == "None" or s[:1] in "'\"" or s in ("float", "complex", "int", "str", "bool")):
        return ("s", s)
    return None


class Config:
    """truth of tests, given as {python expression text: bool}; the texts are evaluated to values once, a test is decided by its value"""

    none_oracle = None      # callable(attribute name) -> True (self.<attr> is None) | False | None (not known)

    def __init__(self, table, label=""):
        self.label = label
        self.tab = {}
        self.strings = {}     # key of a container symbol -> [(literal item value, member?)]: the concrete string the configuration stands for
        ev = AutoEvaluator(None)
        ev.erase_T = True
        for text, val in table.items():
            v = ev.expr(text)
            if is_unknown(v) or isinstance(v, tuple):
                raise Unsupported(f"configuration key {text!r}")
            self._put(v, val)

    def _put(self, v, val):
        self.tab[vkey(v)] = val
        u = unfn(v)
        if u is not None and u[0] == "cmp:In" and len(u[1]) == 2 and not isinstance(u[1][0], str) and not isinstance(u[1][1], str) \
                and sym_name(u[1][1]) is not None and _literal_like(u[1][0]) is not None:
            lst = self.strings.setdefault(vkey(u[1][1]), [])
            lst[:] = [(x, b) for x, b in lst if not x.equals(u[1][0])] + [(u[1][0], val)]
        if u is not None and u[0].startswith("cmp:") and len(u[1]) == 2 and not isinstance(u[1][0], str) and not isinstance(u[1][1], str):
            op = u[0][4:]
            a, b = u[1]
            if op in _NEG:
                self.tab[vkey(F.fn("cmp:" + _NEG[op], a, b))] = not val
            if op in _SWAP:
                self.tab[vkey(F.fn("cmp:" + _SWAP[op], b, a))] = val
                if _SWAP[op] in _NEG:
                    self.tab[vkey(F.fn("cmp:" + _NEG[_SWAP[op]], b, a))] = not val

    def items_of(self, v, depth=0):
        """the items of a container value, when they can be listed: a literal string / tuple, set(...) & co. of one, or a symbol the
        configuration fixes the membership of (the configuration then stands for the concrete input made of exactly those items)"""
        if v is None or is_unknown(v) or isinstance(v, DictValue) or depth > 4:
            return None
        if isinstance(v, tuple):
            return list(v) if not any(is_unknown(x) or isinstance(x, (tuple, DictValue)) for x in v) else None
        s = sym_name(v)
        if s is not None:
            if len(s) >= 2 and s[0] in "'\"" and s[-1] == s[0]:
                try:
                    return [F.sym(repr(ch)) for ch in ast.literal_eval(s)]
                except Exception:  # noqa
                    return None
            lst = self.strings.get(vkey(v))
            return [x for x, b in lst if b] if lst else None
        u = unfn(v)
        if u is not None:
            vals = [a for a in u[1] if not isinstance(a, str)]
            if u[0] in _SETLIKE_CALLS and len(vals) == 1:
                return self.items_of(vals[0], depth + 1)
            if u[0] == "tuple":
                return vals
        return None

    def truth(self, v):
        if v is None or is_unknown(v) or isinstance(v, (tuple, DictValue)):
            return None
        if v.is_const():
            return v.const_value() != 0
        r = self.tab.get(vkey(v))
        if r is not None:
            return r
        s = sym_name(v)
        if s is not None:
            if s == "None":
                return False
            return None
        u = unfn(v)
        if u is None:
            return None
        name, args = u
        if any(isinstance(a, str) for a in args):
            return None
        if name in ("not", "invert"):
            r = self.truth(args[0])
            return None if r is None else (not r)
        if name in ("bool:And", "bool:Or"):
            # left to right, as Python evaluates it: an operand behind a deciding one is never looked at (nor taken both ways)
            stop = name == "bool:Or"
            rs = []
            for a in args:
                r = self.truth(a)
                if r is stop:
                    return stop
                rs.append(r)
            return (not stop) if all(r is (not stop) for r in rs) else None
        if name.startswith("cmp:") and len(args) == 2:
            op = name[4:]
            a, b = args
            if op in ("Is", "Eq", "IsNot", "NotEq"):
                pos = op in ("Is", "Eq")
                if a.equals(b):
                    return pos
                if op in ("Is", "IsNot") and self.none_oracle is not None:
                    # `self.X is None` for precomputed solver state: decided by what the code assigns to self.X
                    for x, y in ((a, b), (b, a)):
                        sx = sym_name(x)
                        if sym_name(y) == "None" and sx is not None and sx.startswith("self.") and sx.count(".") == 1:
                            r = self.none_oracle(sx[5:])
                            if r is not None:
                                return r if pos else (not r)
                la, lb = _literal_like(a), _literal_like(b)
                if la is not None and lb is not None and la != lb:
                    return not pos
                if op in ("Eq", "NotEq"):
                    r = self._ordered(op, a, b)
                    if r is not None:
                        return r
                r = self._find_test(op, a, b)
                if r is not None:
                    return r
                # x == 0 / x != 0 for a quantity whose truthiness is configured (sizes)
                for x, y in ((a, b), (b, a)):
                    if y.is_const() and y.const_value() == 0 and op in ("Eq", "NotEq"):
                        r = self.truth(x)
                        if r is not None:
                            return (not r) if pos else r
            if op in ("Gt", "Lt", "GtE", "LtE"):
                # size > 0 / 0 < size for a non-negative size whose truthiness is configured
                if op == "Gt" and b.is_const() and b.const_value() == 0 and not a.is_const():
                    return self.truth(a)
                if op == "Lt" and a.is_const() and a.const_value() == 0 and not b.is_const():
                    return self.truth(b)
                if op == "LtE" and b.is_const() and b.const_value() == 0 and not a.is_const():
                    r = self.truth(a)
                    return None if r is None else (not r)
                if op == "GtE" and a.is_const() and a.const_value() == 0 and not b.is_const():
                    r = self.truth(b)
                    return None if r is None else (not r)
                # the same against 1, for a count / a flag (a non-negative integer): x >= 1, 1 <= x are `x`; x < 1, 1 > x are `not x`
                for x, y, o in ((a, b, op), (b, a, _SWAP[op])):
                    if y.is_const() and y.const_value() == 1 and not x.is_const() and o in ("GtE", "Lt"):
                        r = self.truth(x)
                        if r is not None:
                            return r if o == "GtE" else (not r)
                r = self._ordered(op, a, b)
                if r is not None:
                    return r
                r = self._find_test(op, a, b)
                if r is not None:
                    return r
            if op in ("In", "NotIn"):
                r = self._member(a, b)
                if r is not None:
                    return r if op == "In" else (not r)
        if name in ("call:bool", "call:len") and len(args) == 1:
            return self.truth(args[0])          # (len(x) as a test: x is not empty)
        if name in ("call:.isdisjoint", "call:.issuperset", "call:.issubset") and len(args) == 2:
            a, b = args
            if name == "call:.isdisjoint":
                for x, y in ((a, b), (b, a)):
                    its = self.items_of(x)
                    if its is not None:
                        rs = [self._member(it, y) for it in its]
                        if any(r is True for r in rs):
                            return False
                        return True if all(r is False for r in rs) else None
                return None
            sub, sup = (b, a) if name == "call:.issuperset" else (a, b)
            its = self.items_of(sub)
            if its is None:
                return None
            rs = [self._member(it, sup) for it in its]
            if any(r is False for r in rs):
                return False
            return True if all(r is True for r in rs) else None
        if name == "call:.count" and len(args) == 2:
            return self._member(args[1], args[0])          # s.count(x) as a test: x in s
        if name in _SETLIKE_CALLS and len(args) == 1:
            return self.truth(args[0])
        return None

    def _ordered(self, op, a, b):
        """a comparison between two quantities, from the comparisons between the same two the configuration already fixes: the relations
        (<, =, >) they leave possible either all satisfy `op`, or none does, or it stays open"""
        poss = {"<", "=", ">"}
        known = False
        for x, y, flip in ((a, b, False), (b, a, True)):
            for o, sat in _SAT.items():
                t = self.tab.get(vkey(F.fn("cmp:" + o, x, y)))
                if t is None:
                    continue
                known = True
                rel = sat if t else ({"<", "=", ">"} - sat)
                if flip:
                    rel = {{"<": ">", ">": "<", "=": "="}[z] for z in rel}
                poss &= rel
        if not known or op not in _SAT:
            return None
        if poss <= _SAT[op]:
            return True
        if not (poss & _SAT[op]):
            return False
        return None

    def _find_test(self, op, a, b):
        """s.find(x) >= 0, s.find(x) != -1, s.find(x) > -1  (and their negations == -1, < 0): x in s"""
        ua = unfn(a)
        if ua is None or ua[0] != "call:.find" or len(ua[1]) != 2 or any(isinstance(z, str) for z in ua[1]) or not b.is_const():
            return None
        c = b.const_value()
        pos = {("GtE", 0): True, ("Gt", -1): True, ("NotEq", -1): True, ("IsNot", -1): True, ("Lt", 0): False, ("Eq", -1): False, ("LtE", -1): False}.get((op, c))
        if pos is None:
            return None
        r = self._member(ua[1][1], ua[1][0])
        return None if r is None else (r if pos else not r)

    # ---- membership: `x in S` by the structure of the *value* S
    def _member(self, x, s, depth=0):
        """x in s, for s built from configured containers by set algebra: set(c), c1 - c2, c1 | c2, c1 & c2, .difference / .union /
        .intersection, a literal string / tuple; decided from the memberships `x in c` the configuration knows (None: not decided)"""
        if depth > 6 or is_unknown(s) or isinstance(s, (tuple, DictValue)):
            return None
        r = self.tab.get(vkey(F.fn("cmp:In", x, s)))
        if r is not None:
            return r
        ls, lx = _literal_like(s), _literal_like(x)
        if ls is not None and ls[0] == "s" and ls[1][:1] in "'\"" and lx is not None and lx[0] == "s" and lx[1][:1] in "'\"":
            try:
                return ast.literal_eval(lx[1]) in ast.literal_eval(ls[1])
            except Exception:  # noqa
                return None
        u = unfn(s)
        if u is not None:
            nm, args = u
            vals = [a for a in args if not isinstance(a, str)]
            if nm in _SETLIKE_CALLS and len(vals) == 1:
                return self._member(x, vals[0], depth + 1)
            if nm == "tuple":
                rs = [self.truth(F.fn("cmp:Eq", x, it)) for it in vals]
                if any(r is True for r in rs):
                    return True
                return False if all(r is False for r in rs) else None
            if nm in ("mask:BitOr", "call:.union") and len(vals) >= 2:
                rs = [self._member(x, v, depth + 1) for v in vals]
                if any(r is True for r in rs):
                    return True
                return False if all(r is False for r in rs) else None
            if nm in ("mask:BitAnd", "call:.intersection") and len(vals) >= 2:
                rs = [self._member(x, v, depth + 1) for v in vals]
                if any(r is False for r in rs):
                    return False
                return True if all(r is True for r in rs) else None
            if nm == "call:.difference" and len(vals) >= 2:
                r0 = self._member(x, vals[0], depth + 1)
                rs = [self._member(x, v, depth + 1) for v in vals[1:]]
                if r0 is False or any(r is True for r in rs):
                    return False
                return True if r0 is True and all(r is False for r in rs) else None
            return None
        # a difference of sets A - B - ...: a sum of container atoms, one with coefficient +1, the others -1
        try:
            if not s.d.is_const() or s.d.const_value() != 1 or len(s.n.t) < 2:
                return None
            pos, neg = [], []
            for m, c in s.n.t.items():
                if len(m) != 1 or m[0][1] != 1 or c not in (1, -1):
                    return None
                (pos if c == 1 else neg).append(F.Rat(F.Poly.atom(m[0][0])))
        except Exception:  # noqa
            return None
        if len(pos) != 1:
            return None
        r0 = self._member(x, pos[0], depth + 1)
        rs = [self._member(x, v, depth + 1) for v in neg]
        if r0 is False or any(r is True for r in rs):
            return False
        return True if r0 is True and all(r is False for r in rs) else None


# ------------------------------------------------------------------------------------------------ the evaluator
class Record(tuple):
    """an instance of a namedtuple class: a sequence held item by item whose items also go by field name"""
    fields = ()

    @classmethod
    def make(cls, fields, values):
        r = cls(values)
        r.fields = tuple(fields)
        return r


def _namedtuples(ctx, rel):
    """{name: (field names, {field: default node})} for the module-level names of `rel` bound once to `namedtuple("X", fields)` with literal fields"""
    cache = ctx.__dict__.setdefault("_c02_namedtuples", {})
    if rel in cache:
        return cache[rel]
    out, count = {}, {}
    try:
        tree = ctx.src.mod(rel).tree
    except Exception:  # noqa
        cache[rel] = {}
        return cache[rel]
    for st in tree.body:
        for t in (st.targets if isinstance(st, ast.Assign) else []):
            for x in ast.walk(t):
                if isinstance(x, ast.Name):
                    count[x.id] = count.get(x.id, 0) + 1
        if isinstance(st, ast.Assign) and len(st.targets) == 1 and isinstance(st.targets[0], ast.Name) and isinstance(st.value, ast.Call) \
                and dotted(st.value.func) in ("namedtuple", "collections.namedtuple") and len(st.value.args) == 2:
            fa = st.value.args[1]
            fields = None
            if isinstance(fa, ast.Constant) and isinstance(fa.value, str):
                fields = fa.value.replace(",", " ").split()
            elif isinstance(fa, (ast.Tuple, ast.List)) and all(isinstance(e, ast.Constant) and isinstance(e.value, str) for e in fa.elts):
                fields = [e.value for e in fa.elts]
            dflt = {}
            ok = fields is not None and all(f.isidentifier() for f in fields) and len(set(fields)) == len(fields)
            for k in st.value.keywords:
                if k.arg == "defaults" and isinstance(k.value, (ast.Tuple, ast.List)) and ok and len(k.value.elts) <= len(fields):
                    dflt = dict(zip(fields[len(fields) - len(k.value.elts):], k.value.elts))
                elif k.arg not in ("module",):
                    ok = False
            if ok:
                out[st.targets[0].id] = (fields, dflt)
    cache[rel] = {k: v for k, v in out.items() if count.get(k) == 1}
    return cache[rel]


def _module_lambdas(ctx, rel):
    """{name: value node} for module-level names of `rel` bound once to a lambda or to a display (dict / tuple / list) that contains lambdas:
    function tables a clean-up moved to module level"""
    cache = ctx.__dict__.setdefault("_c02_modlambdas", {})
    if rel in cache:
        return cache[rel]
    out, count = {}, {}
    try:
        tree = ctx.src.mod(rel).tree
    except Exception:  # noqa
        cache[rel] = {}
        return cache[rel]
    for st in tree.body:
        tg = st.targets if isinstance(st, ast.Assign) else ([st.target] if isinstance(st, (ast.AnnAssign, ast.AugAssign)) else [])
        for t in tg:
            for x in ast.walk(t):
                if isinstance(x, ast.Name):
                    count[x.id] = count.get(x.id, 0) + 1
        v = getattr(st, "value", None)
        if isinstance(st, (ast.Assign, ast.AnnAssign)) and len(tg) == 1 and isinstance(tg[0], ast.Name) and v is not None \
                and isinstance(v, (ast.Lambda, ast.Dict, ast.Tuple, ast.List)) and any(isinstance(x, ast.Lambda) for x in ast.walk(v)):
            inner = v.values if isinstance(v, ast.Dict) else (v.elts if isinstance(v, (ast.Tuple, ast.List)) else [v])
            if all(isinstance(x, (ast.Lambda, ast.Constant, ast.Name, ast.Attribute)) for x in inner) \
                    and (not isinstance(v, ast.Dict) or all(isinstance(k, ast.Constant) for k in v.keys)):
                out[tg[0].id] = v
    cache[rel] = {k: v for k, v in out.items() if count.get(k) == 1}
    return cache[rel]


def _imported_from(ctx, mod, name):
    """(rel, original name) when the module imports `name` from a sibling module of its package, else None"""
    import os
    for st in mod.tree.body:
        if not isinstance(st, ast.ImportFrom) or not st.module:
            continue
        for al in st.names:
            if (al.asname or al.name) != name:
                continue
            if st.level == 1:
                return os.path.join(os.path.dirname(mod.rel), *st.module.split(".")) + ".py", al.name
            if st.level == 0 and st.module.startswith("pyyeti."):
                return os.path.join(*st.module.split(".")) + ".py", al.name
    return None


class Opts:
    def __init__(self, classes=(), exclude=(), erase_loop_index=False, models=None, max_depth=8, elem_hook=None, load_hook=None, erase_T=True, vectors=False):
        # vectors: a local bound to a vector held entry by entry (a finite symbolic grid) stays a value; a store into it updates the entries
        # (`w[[0, -1]] /= 2`, `w[:-1] += s`).  Whatever could write the vector in a way that is not followed makes it Unknown.
        self.vectors = vectors
        self.vector_readers = set()          # last name components of callees that only read the arrays they are handed (the solvers' fsolve)
        self.classes = list(classes)        # [(file, class name)] in method resolution order
        self.exclude = set(exclude)         # call names that stay opaque
        self.erase_loop_index = erase_loop_index
        self.models = dict(models or {})    # call name -> callable(ev, node) -> value | NotImplemented
        self.max_depth = max_depth
        self.elem_hook = elem_hook          # (iterable value) -> generic element value | NotImplemented
        self.load_hook = load_hook          # (ev, base value, index value | None) -> value | NotImplemented
        self.erase_T = erase_T


_PI_NAMES = {"math.tau": 2, "cmath.tau": 2, "cmath.pi": 1, "numpy.pi": 1, "scipy.pi": 1, "scipy.constants.pi": 1}


def _pi_multiple(x):
    """a float literal that is exactly the double `q * pi ** n` evaluates to (q a small power of two, n = 1, 2): that product, else None"""
    import math
    from fractions import Fraction
    if not (x == x) or x in (float("inf"), float("-inf")) or x == 0:
        return None
    for n in (1, 2):
        for q in (Fraction(1), Fraction(2), Fraction(4), Fraction(8), Fraction(1, 2), Fraction(1, 4)):
            for sgn in (1, -1):
                if x == sgn * float(q) * math.pi ** n:
                    return F.const(sgn * q) * F.sym("pi") ** n
    return None


_TRIVIAL_INDEX = {"None", "np.newaxis", "numpy.newaxis", "Ellipsis"}
_SOLVES = {"la.solve": "solve", "np.linalg.solve": "solve", "scipy.linalg.solve": "solve", "linalg.solve": "solve", "numpy.linalg.solve": "solve",
           "la.lu_solve": "lu_solve", "scipy.linalg.lu_solve": "lu_solve", "linalg.lu_solve": "lu_solve"}
_SOLVE_PARAMS = {"solve": ("a", "b"), "lu_solve": ("lu_and_piv", "b")}
_PRODUCTS = {"np.matmul", "np.dot", "np.multiply", "np.outer", "numpy.matmul", "numpy.dot", "np.inner"}
_UFUNC_OUTER = {"np.subtract.outer": ast.Sub, "np.add.outer": ast.Add, "np.multiply.outer": ast.Mult, "np.divide.outer": ast.Div,
                "numpy.subtract.outer": ast.Sub, "numpy.add.outer": ast.Add, "numpy.multiply.outer": ast.Mult}
_ARRAY_CTORS = {"np.zeros", "np.empty", "np.zeros_like", "np.empty_like", "numpy.zeros", "numpy.empty"}
_ONE = {"np.eye", "np.identity", "np.ones", "np.ones_like"}
_CMP_UFUNCS = {"np.not_equal": ast.NotEq, "np.equal": ast.Eq, "np.greater": ast.Gt, "np.less": ast.Lt, "np.greater_equal": ast.GtE,
               "np.less_equal": ast.LtE, "numpy.not_equal": ast.NotEq, "numpy.equal": ast.Eq, "operator.ne": ast.NotEq, "operator.eq": ast.Eq}
_STACKS = {"np.column_stack", "np.stack", "np.hstack", "np.vstack", "np.array", "np.asarray", "np.concatenate", "numpy.column_stack"}
_NAMESPACES = ("SimpleNamespace", "types.SimpleNamespace", "Namespace", "argparse.Namespace")
_PURE_PREFIX = ("np.", "numpy.", "la.", "scipy.", "linalg.", "math.", "cmath.", "warnings.", "itertools.", "operator.", "functools.")
_INPLACE = {"np.copyto", "np.put", "np.place", "np.putmask", "np.fill_diagonal", "np.put_along_axis", "numpy.copyto", "numpy.put", "numpy.place",
            "numpy.putmask", "numpy.fill_diagonal", "np.add.at", "np.subtract.at", "np.multiply.at", "np.random.shuffle"}
_PURE_BUILTINS = {"len", "abs", "isinstance", "issubclass", "min", "max", "sum", "float", "complex", "int", "bool", "range", "zip", "enumerate", "tuple",
                  "list", "set", "frozenset", "sorted", "reversed", "type", "print", "id", "str", "repr", "getattr", "hasattr", "any", "all", "iter",
                  "dict", "slice", "divmod", "round", "pow", "callable"}
_PURE_METHODS = {"sum", "dot", "reshape", "astype", "conj", "conjugate", "copy", "transpose", "mean", "max", "min", "any", "all", "ravel", "flatten",
                 "tolist", "item", "nonzero", "squeeze", "std", "var", "cumsum", "prod", "argmax", "argmin", "round", "clip", "take", "repeat",
                 "diagonal", "trace", "swapaxes", "items", "values", "keys", "get", "index", "count", "format", "join", "split", "startswith",
                 "endswith", "lower", "upper", "strip", "difference", "union", "intersection", "symmetric_difference", "isdisjoint", "issuperset",
                 "issubset", "find", "warn", "debug", "info", "warning"}
_REFLECTIVE = {"exec", "eval", "locals", "globals", "vars", "compile", "__import__"}
_INDEX_MAKERS = ("np.s_", "np.index_exp", "numpy.s_", "numpy.index_exp")


def _consts_of(ctx, rel):
    cache = ctx.__dict__.setdefault("_c02_consts", {})
    if rel not in cache:
        cache[rel] = module_consts(ctx, rel)
    return cache[rel]


def _class_consts(ctx, classes):
    """{name: value node} for names bound exactly once, to a literal, in the body of one of the classes (method resolution order) and never
    assigned through `self.` / `cls.` / the class name in the modules of those classes: constants and tables a clean-up moved to class level"""
    cache = ctx.__dict__.setdefault("_c02_class_consts", {})
    key = tuple(classes)
    if key in cache:
        return cache[key]
    out, count = {}, {}
    written = set()
    lit = (ast.Constant, ast.Tuple, ast.List, ast.Dict, ast.Name, ast.UnaryOp, ast.USub, ast.UAdd, ast.Load, ast.BinOp, ast.operator, ast.Attribute)
    for rel, cls in classes:
        try:
            m = ctx.src.mod(rel)
        except Exception:  # noqa
            continue
        for x in ast.walk(m.tree):
            if isinstance(x, (ast.Attribute,)) and isinstance(x.ctx, (ast.Store, ast.Del)) and isinstance(x.value, ast.Name):
                written.add(x.attr)
            if isinstance(x, ast.Call) and dotted(x.func) == "setattr":
                written.add("*")
        for c in m.tree.body:
            if isinstance(c, ast.ClassDef) and c.name == cls:
                for st in c.body:
                    tg = st.targets if isinstance(st, ast.Assign) else ([st.target] if isinstance(st, (ast.AnnAssign, ast.AugAssign)) else [])
                    for t in tg:
                        for y in ast.walk(t):
                            if isinstance(y, ast.Name):
                                count[y.id] = count.get(y.id, 0) + 1
                    if isinstance(st, ast.Assign) and len(st.targets) == 1 and isinstance(st.targets[0], ast.Name) and all(isinstance(y, lit) for y in ast.walk(st.value)) \
                            and all(y.id in ("np", "numpy", "math") for y in ast.walk(st.value) if isinstance(y, ast.Name)):
                        out.setdefault(st.targets[0].id, st.value)
    res = {} if "*" in written else {k: v for k, v in out.items() if count.get(k) == 1 and k not in written}
    cache[key] = res
    return res


class PathEval(AutoEvaluator):
    def __init__(self, fn, ctx, config, opts, trace=None, depth=0, env=None, stack=()):
        super().__init__(fn, src=ctx.src, cond=self._cond, env=env)
        self.fn = fn
        self.ctx = ctx
        self.config = config
        self.opts = opts
        self.trace = trace if trace is not None else Trace()
        self.depth = depth
        self.stack = tuple(stack) + (fn,)
        self.alias = {}
        self.views = {}       # local name -> value, for a name that is stored through but bound to a field of another object (`resp = sol.a`)
        self.vecnames = set() # (opts.vectors) buffers that hold a vector entry by entry: env[name] is the tuple of their entries
        self.vecviews = {}    # (opts.vectors) name -> vector name it may be a view of (bound to the vector or to a slice of it)
        self.vecdead = {}     # (opts.vectors) name -> Unknown: a vector that was written in a way that is not followed, until the name is rebound
        if opts.vectors and depth == 0:
            self.vecnames.update(k for k, v in self.env.items() if isinstance(v, tuple) and not isinstance(v, Record) and v
                                 and not any(x is None or is_unknown(x) or isinstance(x, (tuple, DictValue)) for x in v))
        self.erase_T = opts.erase_T
        self.binop_hook = self._binop
        self._cont = False
        self._brk = False
        mod = getattr(fn, "_vmod", None)
        self.rel = mod.rel if mod is not None else None
        self.module_consts = _consts_of(ctx, self.rel) if self.rel else None
        if depth == 0 and fn is not None:
            # buffers that are parameters of the entry function are their own identity
            for a in fn.args.posonlyargs + fn.args.args + fn.args.kwonlyargs:
                if a.arg in self.buffers:
                    self.trace.idents.add(a.arg)
                    self.alias[a.arg] = a.arg

    # ---- identities
    def _ident(self, name):
        i = self.alias.get(name)
        if i is None:
            i = self.alias[name] = self.trace.fresh(name)
        return i

    # ---- tests
    def _cond(self, test, ev):
        if isinstance(test, ast.Call) and dotted(test.func) in ("any", "all") and len(test.args) == 1 and not test.keywords \
                and isinstance(test.args[0], (ast.GeneratorExp, ast.ListComp)) and len(test.args[0].generators) == 1 and not test.args[0].generators[0].ifs:
            g = test.args[0].generators[0]
            items = self._literal_items(g.iter)
            if items is not None and isinstance(g.target, ast.Name):
                saved = self.env.get(g.target.id, NotImplemented)
                rs = []
                for it in items:
                    self.env[g.target.id] = it
                    rs.append(self.decide(test.args[0].elt))
                if saved is NotImplemented:
                    self.env.pop(g.target.id, None)
                else:
                    self.env[g.target.id] = saved
                if dotted(test.func) == "any":
                    if any(r is True for r in rs):
                        return True
                    return False if all(r is False for r in rs) else None
                if any(r is False for r in rs):
                    return False
                return True if all(r is True for r in rs) else None
        return self.config.truth(self.ev(test))

    def _literal_items(self, node):
        """values of the items of a literal string / tuple / list (directly, through a local or a module constant)"""
        if isinstance(node, ast.Name) and node.id not in self.env and self.module_consts and node.id in self.module_consts:
            node = self.module_consts[node.id]
        if isinstance(node, ast.Constant) and isinstance(node.value, str):
            return [F.sym(repr(ch)) for ch in node.value]
        if isinstance(node, (ast.Tuple, ast.List)):
            return [self.ev(e) for e in node.elts]
        if isinstance(node, ast.Subscript) and isinstance(node.slice, ast.Slice) and node.slice.step is None and node.slice.upper is not None:
            # the first items of an opaque sequence: `entry[:3]` -> entry[0], entry[1], entry[2]
            bv = self.ev(node.value)
            lo = self.ev(node.slice.lower) if node.slice.lower is not None else F.const(0)
            hi = self.ev(node.slice.upper)
            if not isinstance(bv, (tuple, DictValue)) and not is_unknown(bv) and all(
                    not is_unknown(b) and not isinstance(b, (tuple, DictValue)) and b.is_const() and b.const_value().denominator == 1 and b.const_value() >= 0
                    for b in (lo, hi)) and 0 <= int(hi.const_value()) - int(lo.const_value()) <= 8:
                return [F.fn("idx", need(bv), F.const(k)) for k in range(int(lo.const_value()), int(hi.const_value()))]
        if isinstance(node, ast.Call) and dotted(node.func) == "zip" and node.args and not node.keywords:
            starts = [self._count_start(a) for a in node.args]          # itertools.count(k): an unbounded counter column
            cols = [None if st is not None else self._literal_items(a) for a, st in zip(node.args, starts)]
            if any(c is None and st is None for c, st in zip(cols, starts)) or all(c is None for c in cols):
                return None
            n = min(len(c) for c in cols if c is not None)
            return [tuple(c[k] if c is not None else st + F.const(k) for c, st in zip(cols, starts)) for k in range(n)]
        if isinstance(node, ast.Call) and dotted(node.func) == "enumerate" and 1 <= len(node.args) <= 2 and not node.keywords:
            its = self._literal_items(node.args[0])
            st0 = self.ev(node.args[1]) if len(node.args) == 2 else F.const(0)
            if its is None or is_unknown(st0) or isinstance(st0, (tuple, DictValue)) or not st0.is_const():
                return None
            return [(F.const(st0.const_value() + k), x) for k, x in enumerate(its)]
        if isinstance(node, ast.Call) and dotted(node.func) in ("reversed", "list", "tuple", "sorted") and len(node.args) == 1 and not node.keywords:
            its = self._literal_items(node.args[0])
            if its is None or dotted(node.func) == "sorted":
                return None
            return its[::-1] if dotted(node.func) == "reversed" else its
        if isinstance(node, ast.Call) and isinstance(node.func, ast.Attribute) and node.func.attr in ("items", "values", "keys") and not node.args:
            dv = self.ev(node.func.value)
            if isinstance(dv, DictValue) and all(isinstance(k, (str, int)) for k in dv.d):
                ks = [F.sym(repr(k)) if isinstance(k, str) else F.const(k) for k in dv.d]
                vs = list(dv.d.values())
                return {"items": [(k, v) for k, v in zip(ks, vs)], "values": vs, "keys": ks}[node.func.attr]
            return None
        if isinstance(node, ast.Call) and dotted(node.func) == "range" and 1 <= len(node.args) <= 2 and not node.keywords:
            # a counted loop with constant bounds: its iterations one by one
            bs = [self.ev(a) for a in node.args]
            if all(not is_unknown(b) and not isinstance(b, (tuple, DictValue)) and b.is_const() and b.const_value().denominator == 1 for b in bs):
                ks = [int(b.const_value()) for b in bs]
                lo, hi = (0, ks[0]) if len(ks) == 1 else ks
                if 0 <= hi - lo <= 8:
                    return [F.const(k) for k in range(lo, hi)]
            return None
        v = self.ev(node)
        if isinstance(v, tuple):
            return list(v)
        if isinstance(v, DictValue) and all(isinstance(k, (str, int)) for k in v.d):
            return [F.sym(repr(k)) if isinstance(k, str) else F.const(k) for k in v.d]      # iterating a dict: its keys
        # a literal string, set(...) of one, or the option string the configuration stands for (its letters, one by one)
        return self.config.items_of(v) if not is_unknown(v) else None

    def _count_start(self, node):
        """itertools.count() / count(k) with a constant start: the start value, else None"""
        if isinstance(node, ast.Call) and dotted(node.func) in ("itertools.count", "count") and len(node.args) <= 1 and not node.keywords:
            st0 = self.ev(node.args[0]) if node.args else F.const(0)
            if not is_unknown(st0) and not isinstance(st0, (tuple, DictValue)) and st0.is_const():
                return st0
        return None

    # ---- arithmetic
    def _fresh_value(self, v):
        """an operand that is exactly an array created by np.zeros & co. and not stored into so far is the value it was created with"""
        s = sym_name(v) if not isinstance(v, tuple) else None
        if s is not None and s in self.trace.init and s in self.trace.created and not self.trace.cells_of(s):
            i = self.trace.init[s]
            if i is not None and not is_unknown(i) and not isinstance(i, (tuple, DictValue)):
                return i
        return v

    def _binop(self, node, a, b, ev):
        if isinstance(node.op, (ast.BitAnd, ast.BitOr)):
            return and_binop(node, a, b, ev)          # masks / sets: commutative opaque applications
        a2, b2 = self._fresh_value(a), self._fresh_value(b)
        if a2 is a and b2 is b:
            return NotImplemented
        a2, b2 = need(a2), need(b2)
        op = node.op
        if isinstance(op, ast.Add):
            return a2 + b2
        if isinstance(op, ast.Sub):
            return a2 - b2
        if isinstance(op, (ast.Mult, ast.MatMult)):
            return a2 * b2
        if isinstance(op, ast.Div) and not b2.is_zero():
            return a2 / b2
        return NotImplemented

    # ---- indices
    def _index_value(self, sl):
        """value of a subscript: axes that are inserted (None / np.newaxis / ...) are dropped, full slices keep their axis position, the counter
        of a generic loop over the frequency axis is dropped with its axis when `erase_loop_index` is set.  What remains:
            nothing                          -> None   (the whole array)
            one selector on axis 0           -> the selector                       X[I], X[I, :]
            one selector on axis k > 0       -> ax<k>(selector)                    X[:, M]
            several                          -> tuple(per axis: selector or ':')   X[I, J]"""
        elts = sl.elts if isinstance(sl, ast.Tuple) else [sl]
        if any(isinstance(e, ast.Constant) and e.value is Ellipsis for e in elts):
            # (inserted axes select nothing)
            elts = [e for e in elts if not ((isinstance(e, ast.Constant) and e.value is None) or dotted(e) in ("np.newaxis", "numpy.newaxis"))] or elts
        if len(elts) == 2 and isinstance(elts[0], ast.Constant) and elts[0].value is Ellipsis and not (isinstance(elts[1], ast.Constant) and elts[1].value in (None, Ellipsis)):
            # X[..., S]: a selector on the LAST axis, whatever the number of axes (axis 0 of a vector, the column axis of a rows x columns array)
            r = self._index_value(elts[1])
            if r is None:
                return None
            ur = unfn(r)
            if ur is not None and (ur[0].startswith("ax") or ur[0] == "tuple"):
                raise Unsupported("an index object behind an ellipsis")
            return F.fn("axL", r)
        if any(isinstance(e, ast.Constant) and e.value is Ellipsis for e in elts[:-1]) and len(elts) > 1:
            raise Unsupported("an ellipsis in front of / between several selectors")
        axes = []          # per remaining axis: a value, or None for a full slice
        for e in elts:
            if isinstance(e, ast.Slice):
                if e.lower is None and e.upper is None and e.step is None:
                    axes.append(None)
                    continue
                parts = []
                for p in (e.lower, e.upper, e.step):
                    if p is None:
                        parts.append(NONE)
                    else:
                        v = self._ev(p)
                        if is_unknown(v) or isinstance(v, tuple):
                            raise Unsupported("slice bound")
                        parts.append(need(v))
                axes.append(_mk_slice(*parts))
                continue
            v = self._ev(e)
            if is_unknown(v):
                raise Unsupported(v.why)
            if isinstance(v, tuple) and len(v) == 1 and isinstance(e, ast.List) and len(elts) > 1 and not is_unknown(v[0]) and not isinstance(v[0], (tuple, DictValue)) \
                    and (sym_name(v[0]) in self.trace.loop_syms or v[0].is_const()):
                v = v[0]          # X[:, [k]] keeps the axis like X[:, k:k+1]: the same selection as the position k for the element-wise formulas
            if isinstance(v, tuple):
                if any(is_unknown(x) or isinstance(x, tuple) for x in v):
                    raise Unsupported("nested tuple index")
                v = F.fn("tuple", *[need(x) for x in v])
            s = sym_name(v)
            if s in _TRIVIAL_INDEX:
                continue
            if self.opts.erase_loop_index and s in self.trace.loop_syms:
                self._erased += 1
                continue
            uo = unfn(v)
            if uo is not None and uo[0] == "s_" and len(uo[1]) == 1 and not isinstance(uo[1][0], str):
                # an index object built with np.s_[...]: the subscript it was built from
                if len(elts) != 1:
                    raise Unsupported("an index object next to other subscript elements")
                return None if sym_name(uo[1][0]) == ":" else uo[1][0]
            axes.append(need(v))
        while axes and axes[-1] is None:
            axes.pop()
        sel = [(k, v) for k, v in enumerate(axes) if v is not None]
        if not sel:
            return None
        if len(sel) == 1:
            k, v = sel[0]
            return v if k == 0 else F.fn(f"ax{k}", v)
        return F.fn("tuple", *[v if v is not None else F.sym(":") for v in axes])

    # ---- expressions
    # ---- vectors held entry by entry (opts.vectors)
    def _vec_poison(self, name, why):
        """the vector `name` (and every name that holds the same entries) is written in a way that is not followed: its entries are not known"""
        cur = self.env.get(name)
        for k in list(self.env):
            if k == name or (isinstance(cur, tuple) and self.env[k] is cur):
                self.env[k] = self.vecdead[k] = Unknown(f"the vector `{k}` is {why}")
                self.vecnames.discard(k)
        self.vecnames.discard(name)
        self._vec_up(cur, why)

    def _vec_up(self, cur, why):
        """a vector object that is written here is the one a caller holds under its own names (it was handed down as an argument)"""
        p = getattr(self, "_vec_parent", None)
        while p is not None and isinstance(cur, tuple):
            for k in list(p.env):
                if p.env[k] is cur:
                    p.env[k] = p.vecdead[k] = Unknown(f"the vector `{k}` is {why} (in a function it was handed to)")
                    p.vecnames.discard(k)
            p = getattr(p, "_vec_parent", None)

    def _vec_positions(self, sl, n):
        """positions of a vector of length n a subscript selects (in order), or None: integer constants, slices with constant bounds, lists
        of integer constants; leading `:` / `...` (the row axis of a rows x entries array held row-alike) select nothing"""
        if isinstance(sl, ast.Tuple):
            elts = list(sl.elts)
            while len(elts) > 1 and ((isinstance(elts[0], ast.Constant) and elts[0].value is Ellipsis)
                                      or (isinstance(elts[0], ast.Slice) and elts[0].lower is None and elts[0].upper is None and elts[0].step is None)):
                elts = elts[1:]
            if len(elts) != 1:
                return None
            sl = elts[0]

        def cint(x):
            if x is None:
                return None
            v = self.ev(x)
            if v is None or is_unknown(v) or isinstance(v, (tuple, DictValue)) or not v.is_const() or v.const_value().denominator != 1:
                raise Unsupported("not an integer constant")
            return int(v.const_value())
        try:
            if isinstance(sl, ast.Slice):
                return list(range(n))[slice(cint(sl.lower), cint(sl.upper), cint(sl.step))]
            if isinstance(sl, (ast.List, ast.Tuple)):
                return [list(range(n))[cint(e)] for e in sl.elts]
            if isinstance(sl, ast.Constant) and sl.value is Ellipsis:
                return list(range(n))
            return [list(range(n))[cint(sl)]]
        except (Unsupported, IndexError, ValueError, TypeError):
            return None

    def _vec_store(self, name, sl, v, st):
        cur = self.env.get(name)
        pos = self._vec_positions(sl, len(cur)) if isinstance(cur, tuple) else None
        if pos is None or len(set(pos)) != len(pos):
            return self._vec_poison(name, f"stored into under the subscript `{ast.unparse(sl)}`, which is not a selection by constants")
        if isinstance(v, tuple):
            if len(v) != len(pos) or any(x is None or is_unknown(x) or isinstance(x, (tuple, DictValue)) for x in v):
                return self._vec_poison(name, "stored into with values that are not known entry by entry")
            vals = list(v)
        elif v is None or is_unknown(v) or isinstance(v, DictValue) or (_symbols_of(v) & self.trace.idents):
            return self._vec_poison(name, "stored into with a value that is not a known scalar")
        else:
            vals = [v] * len(pos)
        new = list(cur)
        for k, q in zip(pos, vals):
            new[k] = q
        for k in list(self.env):                      # (another name bound to the same array sees the store)
            if k != name and self.env[k] is cur:
                self.env[k] = self.vecdead[k] = Unknown(f"`{k}` is bound to the vector `{name}`, which is stored into afterwards")
                self.vecnames.discard(k)
        self._vec_up(cur, f"stored into through `{name}`")
        self.env[name] = tuple(new)

    def _vec_effects(self, st):
        """(opts.vectors) what a statement may do to a vector behind the evaluator's back: a call that is handed the vector (or a possible view
        of it) and is neither a pure library function nor a function the evaluator follows, an `out=` argument, a method of the vector that is
        not a pure one, an in-place update of a name that may be a view of it"""
        if not self.vecnames:
            return

        def root(x):
            """the vector a `name`, `name[...]`, `name.attr` expression may give access to"""
            while isinstance(x, (ast.Subscript, ast.Attribute, ast.Starred)):
                x = x.value
            if isinstance(x, ast.Name):
                r = self.vecviews.get(x.id, x.id)
                return r if r in self.vecnames else None
            return None
        for x in ast.walk(st):
            if not isinstance(x, ast.Call):
                continue
            d = dotted(x.func) or ""
            for k in x.keywords:
                if k.arg == "out" or k.arg is None:
                    for n in ast.walk(k.value):
                        if isinstance(n, ast.Name) and self.vecviews.get(n.id, n.id) in self.vecnames:
                            self._vec_poison(self.vecviews.get(n.id, n.id), f"handed to `{ast.unparse(x.func)}` as `{k.arg or '**'}=`")
            direct = [r for r in (root(a) for a in list(x.args) + [k.value for k in x.keywords]) if r is not None]
            if isinstance(x.func, ast.Attribute):
                r = root(x.func.value)
                if r is not None and x.func.attr not in _PURE_METHODS:
                    self._vec_poison(r, f"the receiver of `.{x.func.attr}(...)`, which may write it")
            if not direct:
                continue
            pure = (d.startswith(_PURE_PREFIX) and d not in _INPLACE and not d.endswith(".at")) or d in _PURE_BUILTINS \
                or (isinstance(x.func, ast.Attribute) and x.func.attr in _PURE_METHODS and not d.startswith(_PURE_PREFIX))
            if d in self.env or d.split(".")[0] in self.env and not d.startswith("self."):
                pure = False          # a local name shadows it
            if pure or (d and self._resolve(d) is not None) or d in self.trace.closures or d.split(".")[-1] in self.opts.vector_readers:
                continue              # (a function that is followed: a store through its parameter is seen where it happens)
            for r in direct:
                if r in self.vecnames:
                    self._vec_poison(r, f"handed to `{ast.unparse(x.func)}`, which is not followed")
        if isinstance(st, ast.AugAssign):
            t = st.target
            base = t.value if isinstance(t, ast.Subscript) else t
            if isinstance(base, ast.Name) and base.id in self.vecviews and base.id not in self.vecnames:
                r = self.vecviews[base.id]
                if r in self.vecnames:
                    self._vec_poison(r, f"updated in place through `{base.id}`, which may be a view of it")
        if isinstance(st, (ast.Assign, ast.AnnAssign)):
            for t in (st.targets if isinstance(st, ast.Assign) else [st.target]):
                if isinstance(t, ast.Subscript) and isinstance(t.value, ast.Name) and t.value.id in self.vecviews and t.value.id not in self.vecnames:
                    r = self.vecviews[t.value.id]
                    if r in self.vecnames:
                        self._vec_poison(r, f"stored into through `{t.value.id}`, which may be a view of it")

    def _ev(self, node):
        if isinstance(node, ast.Name) and node.id in self.vecnames:
            return self.env.get(node.id, Unknown(f"vector {node.id}"))
        if isinstance(node, ast.Name) and node.id in self.vecdead:
            return self.vecdead[node.id]
        if self.opts.vectors and isinstance(node, ast.Subscript) and dotted(node.value) in ("np.r_", "numpy.r_") and "np" not in self.env:
            out = []
            for e in (node.slice.elts if isinstance(node.slice, ast.Tuple) else [node.slice]):
                if isinstance(e, (ast.Slice, ast.Constant)) and not (isinstance(e, ast.Constant) and isinstance(e.value, (int, float)) and not isinstance(e.value, bool)):
                    return Unknown("np.r_ with a range or a directive")
                v = self.ev(e)
                if isinstance(v, tuple):
                    out.extend(v)
                else:
                    out.append(v)
            if any(x is None or is_unknown(x) or isinstance(x, (tuple, DictValue)) for x in out):
                return Unknown("np.r_ of values that are not known entry by entry")
            return tuple(out)
        if self.opts.vectors and isinstance(node, ast.Attribute) and node.attr in ("size", "shape") and dotted(node) not in self.env:
            bv = self.ev(node.value)
            if isinstance(bv, tuple) and not isinstance(bv, Record) and not any(isinstance(x, (tuple, DictValue)) for x in bv):
                return F.const(len(bv)) if node.attr == "size" else Unknown("shape of a rows x entries array held by its generic row")
        if self.opts.vectors and isinstance(node, ast.Subscript) and isinstance(node.slice, ast.List):
            bv = self.ev(node.value)
            if isinstance(bv, tuple) and not isinstance(bv, Record):
                pos = self._vec_positions(node.slice, len(bv))
                if pos is not None:
                    return tuple(bv[k] for k in pos)
        if isinstance(node, ast.Name) and node.id in self.views:
            return self.views[node.id]
        if isinstance(node, ast.Name) and node.id in self.buffers:
            return F.sym(self._ident(node.id))
        if isinstance(node, ast.Name) and isinstance(node.ctx, ast.Load) and node.id not in self.env and hasattr(node, "lineno") and self._never_bound(node.id):
            self.trace.unbound.append((node, getattr(self.fn, "name", "<lambda>"), node.id))
        if isinstance(node, ast.Name) and isinstance(node.ctx, ast.Load) and self.rel and node.id not in self.env and node.id not in self.buffers \
                and node.id not in self.views and node.id in _module_lambdas(self.ctx, self.rel):
            return self._module_scope().ev(_module_lambdas(self.ctx, self.rel)[node.id])          # a function (table) defined at module level
        if isinstance(node, ast.Constant) and isinstance(node.value, float):
            r = _pi_multiple(node.value)
            if r is not None:
                return r          # the double nearest to q pi^n, written out: what `q * np.pi ** n` evaluates to
        if isinstance(node, ast.Attribute) and dotted(node) in _PI_NAMES and dotted(node) not in self.env and dotted(node).split(".")[0] not in self.env:
            return F.const(_PI_NAMES[dotted(node)]) * F.sym("pi")
        if isinstance(node, ast.Attribute) and node.attr == "T" and not self.erase_T and dotted(node) not in self.env:
            tv = self._ev(node.value)
            if tv is None or is_unknown(tv) or isinstance(tv, (tuple, DictValue)):
                return tv if is_unknown(tv) else Unknown("transpose of a sequence")
            return F.fn("attr:T", need(tv))
        if isinstance(node, ast.BoolOp) and any(isinstance(x, (ast.Call, ast.NamedExpr, ast.Yield, ast.YieldFrom, ast.Await)) for v_ in node.values[1:] for x in ast.walk(v_)):
            # `a and f(...)` / `a or f(...)`: an operand behind a deciding one is not evaluated (what it would store does not happen)
            stop = isinstance(node.op, ast.Or)
            vals = []
            for k, operand in enumerate(node.values):
                x = self.ev(operand)
                if x is None or is_unknown(x) or isinstance(x, (tuple, DictValue)):
                    if k < len(node.values) - 1:
                        self.trace.undecided.append((operand, getattr(self.fn, "name", "<lambda>")))
                    return x if is_unknown(x) else Unknown("a sequence as an operand of and / or")
                vals.append(need(x))
                if k == len(node.values) - 1:
                    break
                t = self.config.truth(x)
                if t is None:
                    self.trace.undecided.append((operand, getattr(self.fn, "name", "<lambda>")))
                    return Unknown(f"undecided operand {ast.unparse(operand)} in front of a call")
                if t is stop:
                    break
            return vals[0] if len(vals) == 1 else F.fn("bool:" + type(node.op).__name__, *vals)
        if isinstance(node, ast.Lambda):
            return self._closure(node)
        if isinstance(node, (ast.Yield, ast.YieldFrom)):
            return self._yield(node)
        if isinstance(node, ast.Attribute) and isinstance(node.value, ast.Name) and node.value.id in ("self", "cls") and node.value.id not in self.buffers \
                and f"{node.value.id}.{node.attr}" not in self.env and self.opts.classes:
            cc = _class_consts(self.ctx, self.opts.classes)
            if node.attr in cc and ("self." + node.attr) not in self.config_keys():
                return self._ev(cc[node.attr])          # a constant of the class
            pf = self._resolve(f"self.{node.attr}") if node.value.id == "self" and isinstance(node.ctx, ast.Load) else None
            if pf is not None and any(dotted(d) in ("property", "functools.cached_property", "cached_property") for d in pf.decorator_list) \
                    and self.depth < self.opts.max_depth and pf not in self.stack:
                # a property of the class: the value its getter returns
                call = ast.fix_missing_locations(ast.copy_location(ast.Call(func=node, args=[], keywords=[]), node))
                r = self._inline(pf, call, f"self.{node.attr}")
                if r is not NotImplemented:
                    return r
        if isinstance(node, ast.Subscript) and dotted(node.value) in _INDEX_MAKERS and dotted(node.value).split(".")[0] not in self.env:
            try:
                ix = self._index_value(node.slice)
            except Unsupported as e:
                return Unknown(str(e))
            r = F.fn("s_", ix if ix is not None else F.sym(":"))
            self.trace.sobj[vkey(r)] = node.slice
            return r
        if isinstance(node, ast.Subscript):
            if isinstance(node.slice, ast.Constant) and isinstance(node.slice.value, str):
                return super()._ev(node)
            base = self._ev(node.value)
            if is_unknown(base):
                return base
            if isinstance(base, tuple) and not isinstance(node.slice, (ast.Slice, ast.Tuple, ast.Constant)):
                sv = self.ev(node.slice)
                so = self.trace.sobj.get(vkey(sv)) if not is_unknown(sv) and not isinstance(sv, (tuple, DictValue)) and sv is not None else None
                if so is not None and all(isinstance(x, (ast.Slice, ast.Tuple, ast.Constant, ast.UnaryOp, ast.USub, ast.Load)) for x in ast.walk(so)):
                    # a sequence held item by item, indexed with an index object whose bounds are literal: the subscript it was built from
                    return self._ev(ast.copy_location(ast.Subscript(value=node.value, slice=so, ctx=ast.Load()), node))
            if isinstance(base, DictValue):
                kv = self.ev(node.slice)
                ks = sym_name(kv)
                key = None
                if ks is not None and len(ks) >= 2 and ks[0] in "'\"":
                    try:
                        key = ast.literal_eval(ks)
                    except Exception:  # noqa
                        key = None
                elif kv is not None and not is_unknown(kv) and not isinstance(kv, (tuple, DictValue)) and kv.is_const():
                    c = kv.const_value()
                    key = int(c) if c.denominator == 1 else float(c)
                elif ks in ("True", "False", "None"):
                    key = {"True": True, "False": False, "None": None}[ks]
                elif set(base.d) <= {True, False, 0, 1} and kv is not None and not is_unknown(kv) and not isinstance(kv, (tuple, DictValue)):
                    u_ = unfn(kv)
                    if u_ is not None and (u_[0] in ("call:bool", "not") or u_[0].startswith(("cmp:", "bool:"))):
                        key = self.config.truth(kv)          # a table keyed by a truth value the configuration decides
                if key is not None and key in base.d:
                    return base.d[key]
                return Unknown(f"key {ast.unparse(node.slice)} of a literal table")
            if isinstance(base, tuple):
                if isinstance(node.slice, ast.Tuple) and len(node.slice.elts) >= 2 and all(
                        (isinstance(e, ast.Constant) and e.value is Ellipsis) or (isinstance(e, ast.Slice) and e.lower is None and e.upper is None and e.step is None)
                        for e in node.slice.elts[:-1]) and sum(1 for e in node.slice.elts if isinstance(e, ast.Constant) and e.value is Ellipsis) <= 1:
                    # a vector held entry by entry stands for the last axis: leading `:` / `...` select nothing
                    return self._ev(ast.copy_location(ast.Subscript(value=node.value, slice=node.slice.elts[-1], ctx=ast.Load()), node))
                r = super()._ev(node)
                return r
            self._erased = 0
            try:
                ix = self._index_value(node.slice)
            except Unsupported as e:
                return Unknown(str(e))
            ut = unfn(base) if not isinstance(node.slice, ast.Tuple) else None
            if ut is not None and ut[0] == "attr:T" and len(ut[1]) == 1 and not isinstance(ut[1][0], str):
                # X.T[i] is X[:, i] (a row of the transpose is a column of the array)
                if ix is None and self._erased == 1:
                    return ut[1][0]
                ui = unfn(ix) if ix is not None else None
                if ix is not None and (ui is None or not (ui[0].startswith("ax") or ui[0] == "tuple")):
                    r = F.fn("idx", ut[1][0], F.fn("ax1", ix))
                    # (one position gives a vector, which has no orientation; an index vector gives the selected columns as rows: X.T[I] = X[:, I].T)
                    return r if (sym_name(ix) in self.trace.loop_syms or need(ix).is_const()) else F.fn("attr:T", r)
            if self.opts.load_hook is not None:
                r = self.opts.load_hook(self, base, ix)
                if r is not NotImplemented:
                    return r
            if ix is None:
                return base
            return F.fn("idx", need(base), ix)
        if isinstance(node, ast.Attribute) and node.attr != "T" and dotted(node) is not None and dotted(node) not in self.env:
            # an attribute of a local that holds a plain object reference (`pc = self.pc; pc.lam`): the attribute of that object
            root = dotted(node).split(".")[0]
            if root in self.env and root not in self.buffers:
                b = self.ev(node.value)
                if isinstance(b, Record):
                    return b[b.fields.index(node.attr)] if node.attr in b.fields else Unknown(f"field {node.attr} of a record")
                s_ = sym_name(b)
                if s_ is not None and s_ not in self.trace.idents and s_ != "None" and s_[:1] not in "'\"":
                    return F.sym(f"{s_}.{node.attr}")
                sc = split_call(b) if not is_unknown(b) and not isinstance(b, (tuple, DictValue)) else None
                if sc is not None and sc[0] in _NAMESPACES and node.attr in sc[2]:
                    return sc[2][node.attr]        # a field of a namespace built here: the value it was built with
        if isinstance(node, ast.Compare) and len(node.ops) == 1 and isinstance(node.ops[0], (ast.In, ast.NotIn)):
            c = self.ev(node.comparators[0])
            if isinstance(c, DictValue) and c.d and all(isinstance(k, (str, int)) for k in c.d):
                c = tuple(F.sym(repr(k)) if isinstance(k, str) else F.const(k) for k in c.d)      # `key in table`: its keys
            if isinstance(c, tuple) and c and not any(is_unknown(x) or isinstance(x, (tuple, DictValue)) for x in c):
                # membership in a literal tuple / list: a value of its own (decided item by item by the configuration)
                a = self.ev(node.left)
                if is_unknown(a) or isinstance(a, (tuple, DictValue)):
                    return a if is_unknown(a) else Unknown("membership of a tuple")
                r = F.fn("cmp:In", need(a), F.fn("tuple", *[need(x) for x in c]))
                return r if isinstance(node.ops[0], ast.In) else F.fn("not", r)
        if isinstance(node, ast.DictComp) and len(node.generators) == 1 and not node.generators[0].ifs:
            g = node.generators[0]
            items = self._literal_items(g.iter)
            if items is None:
                return Unknown("dict comprehension over a non-literal iterable")
            saved = {n.id: self.env.get(n.id, NotImplemented) for n in ast.walk(g.target) if isinstance(n, ast.Name)}
            out = {}
            try:
                for it in items:
                    self._assign(g.target, it, node)
                    ks = sym_name(self.ev(node.key))
                    if ks is None or len(ks) < 2 or ks[0] not in "'\"":
                        return Unknown("dict comprehension with a non-literal key")
                    out[ast.literal_eval(ks)] = self.ev(node.value)
            finally:
                for k, v in saved.items():
                    if v is NotImplemented:
                        self.env.pop(k, None)
                    else:
                        self.env[k] = v
            return DictValue(out)
        if isinstance(node, (ast.ListComp, ast.GeneratorExp)) and len(node.generators) == 1:
            g = node.generators[0]
            saved = {n.id: self.env.get(n.id, NotImplemented) for n in ast.walk(g.target) if isinstance(n, ast.Name)}
            try:
                items = self._literal_items(g.iter) if _literal_iter(g.iter) else None
                if items is None and not (isinstance(g.iter, ast.Call) and dotted(g.iter.func) in ("range", "enumerate", "zip")):
                    itv = self.ev(g.iter)
                    if isinstance(itv, tuple):
                        items = list(itv)
                    elif is_unknown(itv):
                        return itv
                if items is not None:
                    out = []
                    for it in items:
                        self._assign(g.target, it, node)
                        keep = [self.decide(c) for c in g.ifs]
                        if any(k is None for k in keep):
                            return Unknown(f"undecided filter of a comprehension {ast.unparse(g.ifs[0])}")
                        if all(keep):
                            out.append(self.ev(node.elt))
                    return tuple(out)
                if g.ifs:
                    return Unknown("filtered comprehension over a generic iterable")
                if not self._bind_generic(g.target, g.iter, node):
                    return Unknown(f"comprehension target {ast.unparse(g.target)}")
                return self.ev(node.elt)
            finally:
                for k, v in saved.items():
                    if v is NotImplemented:
                        self.env.pop(k, None)
                    else:
                        self.env[k] = v
        return super()._ev(node)

    def _element(self, itv, counter):
        """the generic element of an iterable value"""
        if self.opts.elem_hook is not None:
            r = self.opts.elem_hook(itv, counter)
            if r is not NotImplemented:
                return r
        if isinstance(itv, tuple) or is_unknown(itv):
            return Unknown("generic element of a tuple")
        if counter is None:
            counter = F.sym(self.trace.fresh("<k>"))
            self.trace.loop_syms.add(sym_name(counter))
        ut = unfn(itv)
        if ut is not None and ut[0] == "attr:T" and len(ut[1]) == 1 and not isinstance(ut[1][0], str):
            # iterating over X.T: the columns of X
            return ut[1][0] if self.opts.erase_loop_index else F.fn("idx", ut[1][0], F.fn("ax1", counter))
        if self.opts.erase_loop_index:
            return itv
        return F.fn("idx", need(itv), counter)

    # ---- calls
    def _callee_name(self, node):
        d = dotted(node.func)
        if d is None and isinstance(node.func, ast.Attribute):
            v = node.func.value
            if isinstance(v, ast.Call) and dotted(v.func) == "super" and not v.keywords and len(v.args) in (0, 2) and "super" not in self.env:
                return f"super().{node.func.attr}"
            if isinstance(v, ast.Call) and dotted(v.func) == "type" and len(v.args) == 1 and not v.keywords and dotted(v.args[0]) == "self" and "type" not in self.env:
                return f"type(self).{node.func.attr}"
        if d is not None and d.startswith("self.__class__.") and d.count(".") == 2:
            return f"type(self).{d.split('.')[2]}"
        if isinstance(node.func, ast.Name) and node.func.id in self.env and node.func.id not in self.buffers:
            s = sym_name(self.env[node.func.id])
            if s is not None and s not in self.trace.idents:
                return s        # a local alias of a function: `solve = la.solve`
        if d is None and isinstance(node.func, (ast.IfExp, ast.Subscript, ast.NamedExpr, ast.Call)):
            # the callee is computed: `(self.f if c else self.g)(...)`, `table[key](...)` - the function its value names
            fv = self.ev(node.func)
            s = sym_name(fv) if not isinstance(fv, tuple) else None
            if s is not None and s not in self.trace.idents and s != "None" and s[:1] not in "'\"":
                return s
        return d

    def _never_bound(self, name):
        """no construct binds the name: not in the function (nor in the functions it is nested in), not at the top level of its module, and it
        is not a builtin - reading it raises NameError.  (A name that is bound somewhere but not on this path is not reported here.)"""
        import builtins
        if hasattr(builtins, name) or name in ("__class__", "__name__", "__file__", "__doc__"):
            return False
        memo = self.ctx.__dict__.setdefault("_c02_bound", {})
        scopes = [f for f in self.stack if f is not None] + [f for f in self._outer if f is not None]
        for f in scopes:
            k = id(f)
            if k not in memo:
                memo[k] = _binds(f, descend=True)
            if memo[k] is None or name in memo[k]:
                return False
        if not self.rel:
            return False
        k = ("mod", self.rel)
        if k not in memo:
            memo[k] = _binds(self.ctx.src.mod(self.rel).tree, descend=False)
        return memo[k] is not None and name not in memo[k]

    _outer = ()

    def config_keys(self):
        return getattr(self.config, "names", ())

    def _yield(self, node):
        """inside a generator function that is evaluated eagerly (`_inline`): the values it yields, in order"""
        ys = getattr(self, "_yields", None)
        if ys is None:
            return Unknown("yield outside a followed generator")
        if self._generic:
            self._yield_bad = True          # yielded once per iteration of a loop that is not unrolled: the values cannot be listed
            return NONE
        if isinstance(node, ast.Yield):
            ys.append(self.ev(node.value) if node.value is not None else NONE)
        else:
            v = self.ev(node.value)
            if isinstance(v, tuple):
                ys.extend(v)
            else:
                self._yield_bad = True
        return NONE

    _generic = 0
    _yield_bad = False
    _erased = 0           # loop counters dropped by the last `_index_value`

    def _module_scope(self):
        """an evaluator for the top level of the module of the evaluated function: lambdas defined there read that scope (its constants), not the
        locals of whoever calls them"""
        tab = self.trace.__dict__.setdefault("_modscopes", {})
        ms = tab.get(self.rel)
        if ms is None:
            ms = PathEval(None, self.ctx, self.config, self.opts, trace=self.trace, depth=self.depth)
            ms.rel, ms.module_consts = self.rel, self.module_consts
            tab[self.rel] = ms
        ms.config = self.config
        return ms

    def _closure(self, node):
        """a function defined inside the evaluated one (nested def, lambda): a value of its own that remembers where it was defined"""
        nm = f"<fn:{getattr(node, 'name', 'lambda')}#{len(self.trace.closures)}>"
        self.trace.closures[nm] = (node, self)
        return F.sym(nm)

    def _own_class(self):
        """position in `opts.classes` of the class the evaluated function is a method of (None: not a method of one of them)"""
        for f in (self.fn,) + tuple(self._outer):
            for i, (rel, cls) in enumerate(self.opts.classes):
                try:
                    if f is not None and self.ctx.src.mod(rel).funcs.get(f"{cls}.{getattr(f, 'name', '')}") is f:
                        return i
                except Exception:  # noqa
                    continue
        return None

    def _resolve(self, name):
        if name is None or name in self.opts.exclude:
            return None
        if name.startswith("super()."):
            # the method of that name in the classes after the one the evaluated function belongs to
            if "self." + name[8:] in self.opts.exclude:
                return None
            i = self._own_class()
            if i is None:
                return None
            for rel, cls in self.opts.classes[i + 1:]:
                f = self.ctx.src.mod(rel).funcs.get(f"{cls}.{name[8:]}")
                if f is not None:
                    return f
            return None
        if name.startswith("type(self)."):
            return self._resolve("self." + name[11:])
        if name.startswith("self.") and name.count(".") == 1:
            for rel, cls in self.opts.classes:
                f = self.ctx.src.mod(rel).funcs.get(f"{cls}.{name[5:]}")
                if f is not None:
                    return f
            return None
        if "." not in name and self.rel:
            m = self.ctx.src.mod(self.rel)
            f = m.funcs.get(name)
            if f is None and name.startswith("_") and not name.startswith("__"):
                f = _imported_helper(self.ctx, m, name)     # a private helper that lives in a sibling module
            return f
        if name.count(".") == 1:
            # a static method called through the class: `SolveUnc._rb_integrate(...)`
            cn, mn = name.split(".")
            if any(cn == c for _, c in self.opts.classes) and cn not in self.env:
                if f"self.{mn}" in self.opts.exclude:
                    return None
                k0 = next(i for i, (_, c) in enumerate(self.opts.classes) if c == cn)
                for rel, cls in self.opts.classes[k0:]:
                    f = self.ctx.src.mod(rel).funcs.get(f"{cls}.{mn}")
                    if f is not None:
                        return f          # static / class method, or an ordinary method handed `self` explicitly (`_inline` checks)
        return None

    def _call(self, node):
        r = self._call2(node)
        self.trace.call_values[id(node)] = r
        return r

    def _call2(self, node):
        name = self._callee_name(node)
        if name is not None and self.opts.exclude and isinstance(node.func, ast.Attribute):
            # a method the rule keeps opaque, reached through super() / type(self) / the class with an explicit self: the same opaque call
            alt, drop = None, False
            if name.startswith("super()."):
                alt = "self." + name[8:]
            elif name.startswith("type(self)."):
                alt = "self." + name[11:]
            elif name.count(".") == 1 and any(name.split(".")[0] == c for _, c in self.opts.classes) and name.split(".")[0] not in self.env \
                    and node.args and dotted(node.args[0]) == "self":
                alt, drop = "self." + name.split(".")[1], True
            if alt in self.opts.exclude:
                f2 = ast.Attribute(value=ast.Name(id="self", ctx=ast.Load()), attr=alt[5:], ctx=ast.Load())
                call = ast.Call(func=f2, args=list(node.args[1:] if drop else node.args), keywords=list(node.keywords))
                return self._call2(ast.fix_missing_locations(ast.copy_location(call, node)))
        if name == "vars" and len(node.args) == 1 and not node.keywords and "vars" not in self.env:
            ov = self.ev(node.args[0])
            sc = split_call(ov) if ov is not None and not is_unknown(ov) and not isinstance(ov, (tuple, DictValue)) else None
            if sc is not None and sc[0] in _NAMESPACES and not sc[1]:
                return DictValue(dict(sc[2]))          # the fields of a namespace built here
        if name in _REFLECTIVE or (name is None and not isinstance(node.func, ast.Attribute)):
            # code the evaluator cannot see: whatever it writes is missing from the trace
            self.trace.lost.append((node, getattr(self.fn, "name", "<lambda>"), f"the call `{ast.unparse(node.func)}(...)`, whose callee is not known"))
        m = self.opts.models.get(name)
        if m is not None:
            r = m(self, node)
            if r is not NotImplemented:
                return r
        if name in ("functools.partial", "partial") and node.args and not any(isinstance(x, ast.Starred) for x in node.args) \
                and not any(k.arg is None for k in node.keywords):
            # a partial application: the function it names, with the arguments given so far
            tv = self.ev(node.args[0])
            tn = sym_name(tv) if tv is not None and not is_unknown(tv) and not isinstance(tv, (tuple, DictValue)) else None
            if tn is not None and (tn in self.trace.closures or self._resolve(tn) is not None):
                nm = f"<partial:{tn}#{len(self.trace.closures)}>"
                self.trace.closures[nm] = ("partial", tn, [self.ev(x) for x in node.args[1:]], {k.arg: self.ev(k.value) for k in node.keywords})
                return F.sym(nm)
            if tn is not None and tn not in self.trace.idents and dotted(node.args[0]) == tn and tn.startswith(_PURE_PREFIX):
                # a partial application of a library function: called later with the arguments given here put in front
                nm = f"<libpartial:{tn}#{len(self.trace.closures)}>"
                self.trace.closures[nm] = ("libpartial", node.args[0], [self.ev(x) for x in node.args[1:]], {k.arg: self.ev(k.value) for k in node.keywords})
                return F.sym(nm)
        if name is not None and "." not in name and self.rel and name not in self.env and name not in self.trace.closures \
                and isinstance(_module_lambdas(self.ctx, self.rel).get(name), ast.Lambda):
            name = sym_name(self._module_scope().ev(_module_lambdas(self.ctx, self.rel)[name]))          # a lambda bound to a module-level name
        cl = self.trace.closures.get(name)
        pre = None
        if cl is not None and cl[0] == "libpartial" and not any(isinstance(x, ast.Starred) for x in node.args) and not any(k.arg is None for k in node.keywords):
            # the library call it stands for: the arguments fixed by the partial are values held under private names
            pos, kws = [], []
            for j, pv in enumerate(cl[2]):
                self.env[f"<parg{j}>"] = pv
                pos.append(ast.Name(id=f"<parg{j}>", ctx=ast.Load()))
            given = {k.arg for k in node.keywords}
            for kk, pv in cl[3].items():
                if kk not in given:
                    self.env[f"<pkw:{kk}>"] = pv
                    kws.append(ast.keyword(arg=kk, value=ast.Name(id=f"<pkw:{kk}>", ctx=ast.Load())))
            call = ast.Call(func=cl[1], args=pos + list(node.args), keywords=kws + list(node.keywords))
            return self._call(ast.fix_missing_locations(ast.copy_location(call, node)))
        if cl is not None and cl[0] == "partial":
            pname = name
            pre = (list(cl[2]), dict(cl[3]))
            name = cl[1]
            cl = self.trace.closures.get(name)
            while cl is not None and cl[0] == "partial":          # a partial of a partial
                pre = (list(cl[2]) + pre[0], {**cl[3], **pre[1]})
                name = cl[1]
                cl = self.trace.closures.get(name)
            if cl is None:
                fnp = self._resolve(name)
                r = NotImplemented
                if fnp is not None and not _is_checker(fnp) and self.depth < self.opts.max_depth and fnp not in self.stack:
                    r = self._inline(fnp, node, name, pre=pre)
                if r is not NotImplemented:
                    return r
                self.trace.lost.append((node, getattr(self.fn, "name", "<lambda>"), f"the call of `{pname}`, which is not followed"))
                return Unknown(f"call of {pname}")
        if cl is not None:
            if self.depth < self.opts.max_depth and cl[0] not in self.stack:
                r = self._inline(cl[0], node, name, closure=cl[1], pre=pre)
                if r is not NotImplemented:
                    return r
            self._note_escape(name, node, followed=False)
            self.trace.lost.append((node, getattr(self.fn, "name", "<lambda>"), f"the call of the local function `{name}`, which is not followed"))
            return Unknown(f"call of the local function {name}")
        fn2 = self._resolve(name)
        if fn2 is not None and _is_checker(fn2):
            self._record(name, node)
            return NONE
        if fn2 is not None:
            if self.depth < self.opts.max_depth and fn2 not in self.stack:
                r = self._inline(fn2, node, name)
                if r is not NotImplemented:
                    return r
            self._note_escape(name, node, followed=False)      # a function of the package that is not followed here
        args = node.args
        star_kw = [self.ev(k.value) for k in node.keywords if k.arg is None]
        if name in _SOLVES and not any(isinstance(x, ast.Starred) for x in args) and all(
                isinstance(v, DictValue) and not (set(v.d) & {"a", "b", "lu_and_piv", "overwrite_a", "overwrite_b"}) for v in star_kw):
            # solve(a, b, ...) / lu_solve(lu_and_piv, b, ...): matrix and right-hand side, positional or by keyword
            # (`**options` held item by item may add options that do not change which system is solved)
            got = dict(zip(_SOLVE_PARAMS[_SOLVES[name]], args))
            for k in node.keywords:
                if k.arg in _SOLVE_PARAMS[_SOLVES[name]] and k.arg not in got:
                    got[k.arg] = k.value
            tvals = [self.ev(k.value) for k in node.keywords if k.arg in ("trans", "transposed")] + [v.d[n_] for v in star_kw for n_ in ("trans", "transposed") if n_ in v.d]
            for tv in tvals:
                if True:
                    if not (tv is not None and not is_unknown(tv) and not isinstance(tv, (tuple, DictValue)) and ((tv.is_const() and tv.const_value() == 0) or sym_name(tv) == "False")):
                        got = {}          # the transposed system: not the solve the rules have a meaning for
            if len(got) == 2:
                a, b = (self.ev(got[p_]) for p_ in _SOLVE_PARAMS[_SOLVES[name]])
                self._record(name, node)
                if any((k.arg or "").startswith("overwrite_") for k in node.keywords):
                    self._note_escape(name, node)
                if is_unknown(a) or is_unknown(b) or isinstance(a, (tuple, DictValue)) or isinstance(b, (tuple, DictValue)):
                    return a if is_unknown(a) else (b if is_unknown(b) else Unknown("solve of tuples"))
                return F.fn(_SOLVES[name], need(a), need(b))
        if name in _PRODUCTS and len(args) == 2 and not node.keywords:
            return self._ev(ast.copy_location(ast.BinOp(left=args[0], op=ast.MatMult(), right=args[1]), node))
        if name in ("np.negative", "numpy.negative") and len(args) == 1:
            return self._ev(ast.copy_location(ast.UnaryOp(op=ast.USub(), operand=args[0]), node))
        if name in ("np.add", "np.subtract", "np.divide", "np.true_divide", "np.power") and len(args) == 2 and not node.keywords:
            op = {"np.add": ast.Add, "np.subtract": ast.Sub, "np.divide": ast.Div, "np.true_divide": ast.Div, "np.power": ast.Pow}[name]()
            return self._ev(ast.copy_location(ast.BinOp(left=args[0], op=op, right=args[1]), node))
        if not self.erase_T and ((name in ("np.transpose", "numpy.transpose") and len(args) == 1 and not node.keywords)
                                 or (isinstance(node.func, ast.Attribute) and node.func.attr == "transpose" and not args and not node.keywords
                                     and name not in ("np.transpose", "numpy.transpose"))):
            tv = self.ev(args[0] if args else node.func.value)
            if tv is not None and not is_unknown(tv) and not isinstance(tv, (tuple, DictValue)):
                return F.fn("attr:T", need(tv))          # one value for X.T, np.transpose(X), X.transpose()
        if name in ("np.flatnonzero", "numpy.flatnonzero") and len(args) == 1 and not node.keywords:
            # the positions of the non-zero entries, in order: selects what the mask `x != 0` selects
            return self._ev(ast.copy_location(ast.Compare(left=args[0], ops=[ast.NotEq()], comparators=[ast.Constant(value=0)]), node))
        if (name in ("np.take", "numpy.take") and len(args) == 2) or (isinstance(node.func, ast.Attribute) and node.func.attr == "take" and len(args) == 1
                                                                      and name not in ("np.take", "numpy.take")):
            axn = [k.value for k in node.keywords if k.arg == "axis"]
            if len(axn) == len(node.keywords) and all(isinstance(x, ast.Constant) and isinstance(x.value, int) and x.value >= 0 for x in axn):
                bn, ixn = (args[0], args[1]) if len(args) == 2 else (node.func.value, args[0])
                ax = axn[0].value if axn else 0
                sl = ixn if ax == 0 else ast.Tuple(elts=[ast.Slice() for _ in range(ax)] + [ixn], ctx=ast.Load())
                return self._ev(ast.fix_missing_locations(ast.copy_location(ast.Subscript(value=bn, slice=sl, ctx=ast.Load()), node)))
        if isinstance(node.func, ast.Attribute) and node.func.attr == "__setitem__" and len(args) == 2 and not node.keywords:
            tgt = ast.Subscript(value=node.func.value, slice=args[0], ctx=ast.Store())
            asg = ast.fix_missing_locations(ast.copy_location(ast.Assign(targets=[tgt], value=args[1]), node))
            if isinstance(node.func.value, ast.Name) and (node.func.value.id in self.buffers or node.func.value.id in self.env):
                self._assign(tgt, self.ev(args[1]), asg)
                return NONE
        if name == "complex" and 1 <= len(args) <= 2 and not node.keywords and "complex" not in self.env:
            vs = [self.ev(x) for x in args]
            if any(v is None or is_unknown(v) or isinstance(v, (tuple, DictValue)) for v in vs):
                return next((v for v in vs if is_unknown(v)), Unknown("complex() of a sequence"))
            return need(vs[0]) if len(vs) == 1 else need(vs[0]) + F.I * need(vs[1])
        if name in ("np.reciprocal", "numpy.reciprocal") and len(args) == 1 and not node.keywords:
            return self._ev(ast.copy_location(ast.BinOp(left=ast.Constant(value=1), op=ast.Div(), right=args[0]), node))
        if name in _UFUNC_OUTER and len(args) == 2 and not node.keywords:
            # ufunc.outer(a, b): a[:, None] <op> b[None, :] - element-wise in the formulas compared here
            return self._ev(ast.copy_location(ast.BinOp(left=args[0], op=_UFUNC_OUTER[name](), right=args[1]), node))
        if name in ("np.square",) and len(args) == 1:
            v = self.ev(args[0])
            return v if is_unknown(v) or isinstance(v, tuple) else need(v) * need(v)
        if name in _ONE:
            return F.const(1)
        fill = None
        if name in ("np.full", "np.full_like", "numpy.full", "numpy.full_like"):
            fn_ = args[1] if len(args) >= 2 else next((k.value for k in node.keywords if k.arg == "fill_value"), None)
            fill = self.ev(fn_) if fn_ is not None else None
            if fill is None or is_unknown(fill) or isinstance(fill, (tuple, DictValue)) or not need(fill).is_const():
                fill = None
        if name in _ARRAY_CTORS or fill is not None:
            # a new array: one identity, whoever fills it later; named after the local it is bound to first (`_assign`)
            self._record(name, node)
            i = self.trace.fresh("<array>")
            # (np.empty: whatever was in memory - not zeros)
            self.trace.init[i] = fill if fill is not None else (
                F.sym("<uninitialised memory>") if name.rsplit(".", 1)[-1] in ("empty", "empty_like") else F.const(0))
            self.trace.created.add(i)
            return F.sym(i)
        if name in _STACKS and len(args) >= 1:
            sv = self.ev(args[0])
            if not isinstance(sv, (tuple, DictValue)) and not is_unknown(sv) and isinstance(args[0], (ast.ListComp, ast.GeneratorExp, ast.Name)):
                return sv                      # the columns / entries of a list held as its generic entry: the array with that generic column
        if name in ("tuple", "list") and len(args) == 1 and not node.keywords:
            sv = self.ev(args[0])
            if isinstance(sv, tuple):
                return sv                      # a sequence the evaluator holds item by item
        if name is not None and "." not in name and self.rel and name not in self.env and not any(isinstance(x, ast.Starred) for x in args) \
                and not any(k.arg is None for k in node.keywords):
            nt = _namedtuples(self.ctx, self.rel).get(name)
            if nt is None:
                imp = _imported_from(self.ctx, self.ctx.src.mod(self.rel), name)
                nt = _namedtuples(self.ctx, imp[0]).get(imp[1]) if imp else None
            if nt is not None and len(args) <= len(nt[0]):
                got = dict(zip(nt[0], [self.ev(x) for x in args]))
                okk = True
                for k in node.keywords:
                    if k.arg not in nt[0] or k.arg in got:
                        okk = False
                    got[k.arg] = self.ev(k.value)
                for f_, dn in nt[1].items():
                    got.setdefault(f_, self.ev(dn))
                if okk and all(f_ in got for f_ in nt[0]):
                    return Record.make(nt[0], [got[f_] for f_ in nt[0]])
        if name == "dict" and "dict" not in self.env and len(args) <= 1 and not any(isinstance(x, ast.Starred) for x in args):
            r = self._dict_call(node)
            if r is not NotImplemented:
                return r
        if isinstance(node.func, ast.Attribute) and node.func.attr == "append" and len(args) == 1 and not node.keywords \
                and isinstance(node.func.value, ast.Name) and isinstance(self.env.get(node.func.value.id), tuple) \
                and node.func.value.id not in self.buffers and node.func.value.id not in self.pinned:
            # a list built by appending: item by item (in a generic loop: its generic entry)
            self.env[node.func.value.id] = self.env[node.func.value.id] + (self.ev(args[0]),)
            return NONE
        if isinstance(node.func, ast.Attribute) and isinstance(node.func.value, ast.Name) and node.func.value.id in self.env \
                and node.func.value.id not in self.buffers and node.func.value.id not in self.pinned \
                and isinstance(self.env[node.func.value.id], (DictValue, tuple)):
            r = self._container_method(node)
            if r is not NotImplemented:
                return r
        cp = None
        if isinstance(node.func, ast.Attribute) and node.func.attr == "copy" and not args and name not in ("np.copy", "numpy.copy"):
            cp = node.func.value
        elif name in ("np.copy", "numpy.copy", "np.array", "numpy.array", "list") and len(args) == 1:
            cp = args[0]
        if cp is not None:
            src = self.ev(cp)
            sn = sym_name(src) if not isinstance(src, (tuple, DictValue)) else None
            if sn is not None and sn in self.trace.idents:
                # a copy of an array of the trace: a new array that starts with what the original holds now
                i = self.trace.fresh("<array>")
                self.trace.init[i] = self.trace.init[sn] if sn in self.trace.init and not self.trace.cells_of(sn) else F.sym(sn)
                self.trace.created.add(i)
                return F.sym(i)
        if name in _CMP_UFUNCS and len(args) == 2 and not node.keywords:
            return self._ev(ast.copy_location(ast.Compare(left=args[0], ops=[_CMP_UFUNCS[name]()], comparators=[args[1]]), node))
        if name in ("np.logical_not", "numpy.logical_not") and len(args) == 1 and not node.keywords:
            return self._ev(ast.copy_location(ast.UnaryOp(op=ast.Invert(), operand=args[0]), node))
        if name in ("np.logical_and", "np.logical_or", "np.bitwise_and", "np.bitwise_or") and len(args) == 2 and not node.keywords:
            op = ast.BitAnd() if name.endswith("and") else ast.BitOr()
            return self._ev(ast.copy_location(ast.BinOp(left=args[0], op=op, right=args[1]), node))
        if name == "setattr" and len(args) == 3 and not node.keywords:
            sname = sym_name(self.ev(args[1]))
            if sname is not None and len(sname) >= 2 and sname[0] in "'\"":
                try:
                    attr = ast.literal_eval(sname)
                except Exception:  # noqa
                    attr = None
                if isinstance(attr, str) and attr.isidentifier():
                    v = self.ev(args[2])
                    self._assign(ast.copy_location(ast.Attribute(value=args[0], attr=attr, ctx=ast.Store()), node), v, node)
                    return NONE
        if name == "slice" and 1 <= len(args) <= 3 and not node.keywords:
            vs = [self.ev(a) for a in args]
            if any(is_unknown(v) or isinstance(v, tuple) for v in vs):
                return Unknown("slice()")
            vs = [need(v) for v in vs]
            if len(vs) == 1:
                vs = [NONE, vs[0]]
            while len(vs) < 3:
                vs.append(NONE)
            return _mk_slice(*vs)
        if name == "getattr" and len(args) in (2, 3):
            s = sym_name(self.ev(args[1]))
            if s is not None and len(s) >= 2 and s[0] in "'\"":
                try:
                    attr = ast.literal_eval(s)
                except Exception:  # noqa
                    attr = None
                if isinstance(attr, str) and attr.isidentifier():
                    return self._ev(ast.copy_location(ast.Attribute(value=args[0], attr=attr, ctx=ast.Load()), node))
        if isinstance(node.func, ast.Attribute) and name not in _SOLVES:
            meth = node.func.attr
            if meth == "sum":
                recv = self.ev(node.func.value)
                if isinstance(recv, tuple):
                    tot = F.const(0)
                    for x in recv:
                        if is_unknown(x) or isinstance(x, tuple):
                            return x if is_unknown(x) else Unknown("sum of nested tuples")
                        tot = tot + need(x)
                    return tot
            if meth == "dot" and len(args) == 1 and not node.keywords:
                return self._ev(ast.copy_location(ast.BinOp(left=node.func.value, op=ast.MatMult(), right=args[0]), node))
            if meth in ("reshape", "conj_none") :
                return self._ev(node.func.value)
        self._note_escape(name, node)
        if any(k.arg is None for k in node.keywords) or any(isinstance(a, ast.Starred) for a in node.args):
            return self._opaque(name, node)
        r = super()._call(node)
        return r

    # ---- what the evaluator does not follow must not look like "nothing happened"
    def _idents_in(self, v, depth=0):
        """identities of arrays of the trace a value mentions (itself, a view idx(d, rows), inside a sequence); '?' for an unknown value"""
        if v is None or depth > 4:
            return set()
        if is_unknown(v):
            return {"?"}
        if isinstance(v, tuple):
            out = set()
            for x in v:
                out |= self._idents_in(x, depth + 1)
            return out
        if isinstance(v, DictValue):
            out = set()
            for x in v.d.values():
                out |= self._idents_in(x, depth + 1)
            return out
        found = set()

        def f(kind, name, args):
            if kind == "s" and name in self.trace.idents and name not in self.trace.loop_syms:
                found.add(name)
            return NotImplemented
        try:
            rewrite(v, f)
        except Unsupported:
            return {"?"}
        return found

    def _note_escape(self, name, node, followed=True):
        """a call that is not evaluated here: when it may write into what it is handed (it is not a library function known not to) and it is
        handed an array of the trace - or something unknown - the stores it makes are missing from the trace; recorded in trace.escaped"""
        if name is not None and name in self.opts.exclude:
            return
        pure = followed and name is not None and name not in _INPLACE and (name.startswith(_PURE_PREFIX) or name in _PURE_BUILTINS or name in _NAMESPACES
                                                                           or name.endswith(("Error", "Warning", "Exception")))
        if pure and any((k.arg or "").startswith("overwrite_") and not (isinstance(k.value, ast.Constant) and k.value.value in (False, None, 0)) for k in node.keywords):
            pure = False          # scipy's overwrite_a / overwrite_b: the library may write into its arguments
        vals = []
        if not pure and isinstance(node.func, ast.Attribute) and followed and not (name or "").startswith(_PURE_PREFIX):
            if node.func.attr in _PURE_METHODS:
                pure = True
            else:
                vals.append(self.ev(node.func.value))          # the receiver of a method that may change it
        if pure:
            vals = [self.ev(k.value) for k in node.keywords if k.arg == "out"]
        else:
            vals += [self.ev(x.value if isinstance(x, ast.Starred) else x) for x in node.args] + [self.ev(k.value) for k in node.keywords]
        every = [self.ev(x.value if isinstance(x, ast.Starred) else x) for x in node.args] + [self.ev(k.value) for k in node.keywords]
        for v in every:
            for x in (v if isinstance(v, tuple) else (v,)):
                sn = sym_name(x) if x is not None and not is_unknown(x) and not isinstance(x, (tuple, DictValue)) else None
                if sn is not None and (sn in self.trace.closures or (sn not in self.trace.idents and self._resolve(sn) is not None)):
                    # a function of the evaluated code handed to code that is not followed: it may be called there
                    self.trace.lost.append((node, getattr(self.fn, "name", "<lambda>"),
                                            f"`{sn}` is handed to `{name or ast.unparse(node.func)}`, which is not followed: the stores it makes when called there"))
        ids = set()
        for v in vals:
            ids |= self._idents_in(v)
        if ids:
            self.trace.escaped.append((node, self.fn.name if hasattr(self.fn, "name") else "<lambda>", name or ast.unparse(node.func), sorted(ids)))

    def _rebind(self, old, new):
        for k in list(self.env):
            if self.env[k] is old:
                self.env[k] = new

    def _literal_key(self, kv):
        ks = sym_name(kv) if kv is not None and not is_unknown(kv) and not isinstance(kv, (tuple, DictValue)) else None
        if ks is not None and len(ks) >= 2 and ks[0] in "'\"":
            try:
                return ast.literal_eval(ks)
            except Exception:  # noqa
                return NotImplemented
        if ks is None and kv is not None and not is_unknown(kv) and not isinstance(kv, (tuple, DictValue)) and kv.is_const():
            c = kv.const_value()
            return int(c) if c.denominator == 1 else float(c)
        return NotImplemented

    def _dict_call(self, node):
        """dict(k=v, ...), dict(zip(keys, values)), dict([(k, v), ...]), dict(table, k=v): a table held item by item when every key is a literal"""
        out = {}
        if node.args:
            a0 = node.args[0]
            v0 = self.ev(a0) if not (isinstance(a0, ast.Call) and dotted(a0.func) in ("zip", "enumerate")) else None
            if isinstance(v0, DictValue):
                out.update(v0.d)
            else:
                items = self._literal_items(a0) if v0 is None or isinstance(v0, tuple) else None
                if items is None:
                    return NotImplemented
                for it in items:
                    if not isinstance(it, tuple) or len(it) != 2:
                        return NotImplemented
                    key = self._literal_key(it[0])
                    if key is NotImplemented:
                        return NotImplemented
                    out[key] = it[1]
        for k in node.keywords:
            v = self.ev(k.value)
            if k.arg is None:
                if not isinstance(v, DictValue):
                    return NotImplemented
                out.update(v.d)
            else:
                out[k.arg] = v
        return DictValue(out)

    def _container_method(self, node):
        """a method of a dict / list the evaluator holds item by item: pop / get with a literal key are executed; a method that may change the
        container in a way that is not modelled makes the container unknown (never: leaves it as it was)"""
        cur = self.env[node.func.value.id]
        meth = node.func.attr
        if isinstance(cur, DictValue) and meth in ("values", "keys", "items") and not node.args and not node.keywords and all(isinstance(k, (str, int)) for k in cur.d):
            ks = [F.sym(repr(k)) if isinstance(k, str) else F.const(k) for k in cur.d]
            vs = list(cur.d.values())
            return tuple({"items": [(k, v) for k, v in zip(ks, vs)], "values": vs, "keys": ks}[meth])
        if meth in _PURE_METHODS or (meth == "append" and isinstance(cur, tuple)):
            if isinstance(cur, DictValue) and meth == "get" and 1 <= len(node.args) <= 2 and not node.keywords:
                key = self._literal_key(self.ev(node.args[0]))
                if key is not NotImplemented:
                    return cur.d[key] if key in cur.d else (self.ev(node.args[1]) if len(node.args) == 2 else NONE)
            return NotImplemented
        if isinstance(cur, DictValue) and meth == "pop" and 1 <= len(node.args) <= 2 and not node.keywords:
            key = self._literal_key(self.ev(node.args[0]))
            if key is not NotImplemented and (key in cur.d or len(node.args) == 2):
                if key in cur.d:
                    r = cur.d[key]
                    self._rebind(cur, DictValue({k: v for k, v in cur.d.items() if k != key}))
                    return r
                return self.ev(node.args[1])
        if isinstance(cur, tuple) and meth == "pop" and len(node.args) <= 1 and not node.keywords and cur and not self._generic:
            kv = self.ev(node.args[0]) if node.args else F.const(-1)
            if kv is not None and not is_unknown(kv) and not isinstance(kv, (tuple, DictValue)) and kv.is_const() and kv.const_value().denominator == 1 \
                    and -len(cur) <= int(kv.const_value()) < len(cur):
                k = int(kv.const_value()) % len(cur)
                self._rebind(cur, cur[:k] + cur[k + 1:])
                return cur[k]
        why = Unknown(f"`{node.func.value.id}` after .{meth}()")
        self._rebind(cur, why)
        return why

    def _opaque(self, name, node):
        """an opaque application that may carry *args / **kwargs"""
        self._record(name, node)
        parts = []
        if name is None:
            if not isinstance(node.func, ast.Attribute):
                return Unknown(f"call {ast.unparse(node.func)}")
            b = self.ev(node.func.value)
            if is_unknown(b) or isinstance(b, tuple):
                return Unknown(f"call {ast.unparse(node.func)}")
            parts.append(need(b))
            name = "." + node.func.attr
        for a in node.args:
            v = self.ev(a.value if isinstance(a, ast.Starred) else a)
            if is_unknown(v):
                return v
            if isinstance(v, tuple):
                if any(is_unknown(x) or isinstance(x, tuple) for x in v):
                    return Unknown("nested tuple argument")
                v = F.fn("tuple", *[need(x) for x in v])
            parts.append(F.fn("star", need(v)) if isinstance(a, ast.Starred) else need(v))
        for k in node.keywords:
            v = self.ev(k.value)
            if k.arg is None and isinstance(v, DictValue) and all(isinstance(x, str) for x in v.d):
                # **{literal keys}: the keywords themselves
                for kk, vv in v.d.items():
                    if is_unknown(vv) or isinstance(vv, (tuple, DictValue)):
                        return Unknown(f"keyword {kk}")
                    parts.append(F.fn("kw:" + kk, need(vv)))
                continue
            if is_unknown(v) or isinstance(v, (tuple, DictValue)):
                return Unknown(f"keyword {k.arg}")
            parts.append(F.fn("kw:" + (k.arg or "**"), need(v)))
        return F.fn("call:" + name, *parts)

    def _record(self, name, node):
        if name is None and isinstance(node.func, ast.Attribute):
            name = "." + node.func.attr
        if name is None:
            return
        pos = [self.ev(a) for a in node.args if not isinstance(a, ast.Starred)]
        kws = {k.arg: self.ev(k.value) for k in node.keywords if k.arg is not None}
        self.trace.calls.append((name, pos, kws, node, self.trace.tick()))

    def _record_call(self, node):
        self._record(self._callee_name(node), node)

    def _call_values(self, node):
        """(positional values, keyword values) of a call with `*seq` / `**{...}` expanded; None when one of them cannot be listed"""
        pos = []
        for x in node.args:
            if isinstance(x, ast.Starred):
                v = self.ev(x.value)
                if not isinstance(v, tuple):
                    return None
                pos.extend(v)
            else:
                pos.append(self.ev(x))
        kws = {}
        for k in node.keywords:
            v = self.ev(k.value)
            if k.arg is None:
                if not isinstance(v, DictValue) or not all(isinstance(x, str) for x in v.d):
                    return None
                kws.update(v.d)
            else:
                kws[k.arg] = v
        return pos, kws

    def _inline(self, fn2, node, name, closure=None, pre=None):
        a = fn2.args
        params = [x.arg for x in a.posonlyargs + a.args]
        decos = [dotted(d) for d in getattr(fn2, "decorator_list", ())]
        static = "staticmethod" in decos
        explicit_self = False
        if closure is None and params and params[0] in ("self", "cls") and "." in name and not static:
            bound = name.startswith(("self.", "super().")) or "classmethod" in decos
            if not bound and not name.startswith("type(self)."):
                # Cls.method(self, ...): the instance is the first argument
                if not node.args or isinstance(node.args[0], ast.Starred) or dotted(node.args[0]) != "self" or "self" in self.env:
                    return NotImplemented
                explicit_self = True
            elif not bound:
                return NotImplemented          # type(self).method(...) of an ordinary method: not modelled
            params = params[1:]
        if any(isinstance(x, (ast.Global, ast.Nonlocal)) for x in ast.walk(fn2)):
            return NotImplemented
        cv = self._call_values(node)
        if cv is None:
            return NotImplemented
        pos, kws = cv
        if explicit_self:
            pos = pos[1:]
        if pre is not None:
            pos, kws = list(pre[0]) + pos, {**pre[1], **kws}
        if len(pos) > len(params) and not a.vararg:
            return NotImplemented
        env = dict(zip(params, pos))
        kwonly = [x.arg for x in a.kwonlyargs]
        extra = {}
        for k, v in kws.items():
            if k in env:
                return NotImplemented
            if k not in params and k not in kwonly:
                if not a.kwarg:
                    return NotImplemented
                extra[k] = v
                continue
            env[k] = v
        # (*args / **kwargs of the callee: a sequence / a table held item by item)
        rest = tuple(pos[len(params):])
        sub = PathEval(fn2, self.ctx, self.config, self.opts, trace=self.trace, depth=self.depth + 1, stack=self.stack)
        sub._vec_parent = self
        if closure is not None:
            # a function defined inside another one reads the enclosing scope as it is when it is called; what it binds stays its own
            sub.rel, sub.module_consts = closure.rel, closure.module_consts
            sub._outer = tuple(closure.stack) + tuple(closure._outer)
            bound = set(params) | set(kwonly)
            for k, v in closure.env.items():
                if k not in bound:
                    sub.env[k] = v
            for k, v in closure.alias.items():
                if k not in bound:
                    sub.alias[k] = v
                    if k not in sub.buffers:
                        sub.env[k] = F.sym(v)
            for k, v in closure.views.items():
                if k not in bound:
                    if k in sub.buffers:
                        sub.views[k] = v
                    else:
                        sub.env[k] = v
        dflt = dict(zip(params[::-1], (a.defaults or [])[::-1]))
        for p_ in params:
            if p_ not in env:
                if p_ in dflt:
                    env[p_] = sub.ev(dflt[p_])
                else:
                    return NotImplemented
        for p_, d in zip(kwonly, a.kw_defaults):
            if p_ not in env and d is not None:
                env[p_] = sub.ev(d)
        self.trace.calls.append((name, [env.get(p_) for p_ in params], {}, node, self.trace.tick()))
        if a.vararg:
            if a.vararg.arg in sub.buffers:
                return NotImplemented
            env[a.vararg.arg] = rest
        if a.kwarg:
            if a.kwarg.arg in sub.buffers:
                return NotImplemented
            env[a.kwarg.arg] = DictValue(extra)
        for p_, v in env.items():
            if p_ in sub.buffers:
                if self.opts.vectors and isinstance(v, tuple):
                    for k in [k for k in self.vecnames if self.env.get(k) is v]:
                        self._vec_poison(k, f"handed to `{name}`, which stores through its parameter `{p_}`")
                s = sym_name(v)
                if s is not None and s in self.trace.idents:
                    sub.alias[p_] = s
                else:
                    i = self.trace.fresh(p_)
                    self.trace.init[i] = v
                    sub.alias[p_] = i
                    if v is None or is_unknown(v) or isinstance(v, DictValue) or (not isinstance(v, tuple) and _may_alias(v, self.trace)):
                        self.trace.opaque.add(i)       # the callee stores through a parameter that may be a view of an array of the trace
            else:
                sub.env[p_] = v
        if isinstance(fn2, ast.Lambda):
            r = sub.ev(fn2.body)
            return NONE if r is None else r
        if any(isinstance(x, (ast.Yield, ast.YieldFrom)) for x in ast.walk(fn2)):
            # a generator function, evaluated eagerly: sound when it only computes (a store made between two yields would be reordered)
            sub._yields = []
            n0 = len(self.trace.cells)
            sub.run(fn2.body)
            if sub._yield_bad or len(self.trace.cells) != n0:
                self.trace.lost.append((node, getattr(self.fn, "name", "<lambda>"), f"the generator `{name}` cannot be evaluated eagerly"))
                return Unknown(f"generator {name}")
            return tuple(sub._yields)
        sub.run(fn2.body)
        if not sub.returns:
            return NONE
        v = sub.returns[0][0]
        return NONE if v is None else v

    # ---- statements
    def run(self, stmts):
        for st in stmts:
            if self.done or self._cont or self.trace.raised:
                break
            self.stmt(st)

    def stmt(self, st):
        if self.done or self._cont or self.trace.raised:
            return
        if self.opts.vectors:
            self._vec_effects(st)
        if isinstance(st, ast.Raise):
            # the path ends here: nothing after it is executed, nothing is returned
            self.trace.raised = (st, getattr(self.fn, "name", "<lambda>"))
            self.done = True
            return
        if isinstance(st, ast.FunctionDef):
            self._assign(ast.copy_location(ast.Name(id=st.name, ctx=ast.Store()), st), self._closure(st), st)
            return
        if isinstance(st, ast.Expr) and not isinstance(st.value, (ast.Call, ast.Constant)):
            self.ev(st.value)          # `yield x`, `c and f()`, a walrus ...: evaluated for what it does
            return
        if isinstance(st, ast.Delete):
            return self._delete(st)
        if isinstance(st, getattr(ast, "Match", ())):
            low = _lower_match(st)
            if low is not None:
                return self.stmt(low)
        if not isinstance(st, _LOWERED):
            self.trace.undecided.append((st, self.fn.name))
            return
        if isinstance(st, ast.Continue):
            self._cont = True
            return
        if isinstance(st, ast.Break):
            self._cont = self._brk = True
            return
        if isinstance(st, ast.Return):
            v = self.ev(st.value) if st.value is not None else None
            self.returns.append((v, st))
            self.trace.returns.setdefault(self.fn.name, []).append(v)
            self.trace.ret_nodes.setdefault(self.fn.name, []).append(st)
            self.done = True
            return
        if isinstance(st, ast.If):
            if _only_raises(st.body) and _only_raises(st.orelse) and not any(isinstance(x, ast.NamedExpr) for x in ast.walk(st.test)):
                return          # an argument check: no effect on the values whichever way the test goes
            n0 = len(getattr(self.config, "taken", ()))
            c = self.decide(st.test)
            if c is None:
                self.trace.undecided.append((st.test, self.fn.name))
            else:
                for tv, _ in getattr(self.config, "taken", ())[n0:]:
                    self.trace.forked.append((st.test, self.fn.name, vkey(tv)))
            return super().stmt(st)
        if isinstance(st, ast.For) and (not st.orelse or not any(isinstance(x, ast.Break) for x in ast.walk(st))):
            # (an `else` arm of a loop that has no `break` simply runs after the loop)
            self._for(st)
            if st.orelse and not self.done and not self.trace.raised:
                self.run(st.orelse)
            return
        if isinstance(st, ast.While):
            return self._while(st)
        if isinstance(st, ast.With):
            # a context manager (np.errstate, warnings.catch_warnings, ...) does not change what the block computes
            for item in st.items:
                v = self.ev(item.context_expr)
                if item.optional_vars is not None:
                    self._assign(item.optional_vars, v, st)
            return self.run(st.body)
        if isinstance(st, ast.Try):
            # the path on which nothing raises: body, else, finally (no handler is entered on it; a `raise` reached in the body ends the path)
            self.run(st.body)
            self.run(st.orelse)
            self.run(st.finalbody)
            return
        if isinstance(st, ast.For):
            # not lowered: whatever is computed inside is unknown to the rules
            self.trace.undecided.append((st, self.fn.name))
        return super().stmt(st)

    def _for(self, st):
        items = None
        it = st.iter
        if _literal_iter(it):
            items = self._literal_items(it)
        elif not (isinstance(it, ast.Call) and dotted(it.func) in ("range", "enumerate", "zip")):
            v = self.ev(it)
            if isinstance(v, tuple):
                items = list(v)
        if items is not None:
            for x in items:
                self._assign(st.target, x, st)
                self._cont = self._brk = False
                self.run(st.body)
                brk = self._brk
                self._cont = self._brk = False
                if brk or self.done:
                    break
            return
        # generic iteration
        if not self._bind_generic(st.target, it, st):
            self.trace.undecided.append((st, self.fn.name))
            return super().stmt(st)
        self._cont = self._brk = False
        self._generic += 1
        self.run(st.body)
        self._generic -= 1
        self._cont = self._brk = False

    def _delete(self, st):
        for t in st.targets:
            if isinstance(t, ast.Name) and t.id not in self.buffers:
                self.env[t.id] = Unknown(f"`{t.id}` was deleted")
                continue
            if isinstance(t, ast.Subscript) and isinstance(t.value, ast.Name) and t.value.id not in self.buffers and isinstance(self.env.get(t.value.id), DictValue):
                cur = self.env[t.value.id]
                key = self._literal_key(self.ev(t.slice))
                if key is not NotImplemented and key in cur.d:
                    self._rebind(cur, DictValue({k: v for k, v in cur.d.items() if k != key}))
                else:
                    self._rebind(cur, Unknown(f"`{t.value.id}` after `{ast.unparse(st)}`"))
                continue
            self.trace.lost.append((st, self.fn.name, f"`{ast.unparse(st)}` is not lowered"))

    def _bind_generic(self, target, it, st):
        """bind the target of a loop / comprehension for one generic iteration (the counter is a loop symbol); False: not lowered"""
        def counter(t):
            nm = self.trace.fresh(t.id if isinstance(t, ast.Name) else "<k>")
            self.trace.loop_syms.add(nm)
            return F.sym(nm)
        if isinstance(it, ast.Call) and dotted(it.func) == "reversed" and len(it.args) == 1 and not it.keywords and "reversed" not in self.env:
            it = it.args[0]          # alone (not paired with another sequence) the order of the generic iteration does not matter
        if isinstance(it, ast.Call) and dotted(it.func) == "range":
            for a in it.args:
                self.ev(a)
            if not isinstance(target, ast.Name):
                return False
            self._assign(target, counter(target), st)
        elif isinstance(it, ast.Call) and dotted(it.func) in ("enumerate", "zip") and not it.keywords and it.args and isinstance(target, (ast.Tuple, ast.List)):
            # the k-th items of every sequence (enumerate / zip, nested in any way): one counter for all of them
            first = target.elts[0] if dotted(it.func) == "enumerate" and target.elts and isinstance(target.elts[0], ast.Name) else ast.Name(id="<k>")
            c = counter(first)
            v = self._generic_of(it, c)
            if v is NotImplemented:
                return False
            self._assign(target, v, st)
        else:
            itv = self.ev(it)
            self._assign(target, self._element(itv, None), st)
        return True

    def _generic_of(self, it, c):
        """the item at the generic position `c` of an iterable expression: range(n) / itertools.count(k) are the position itself, enumerate and zip
        give the tuple of the items of their arguments at that position, anything else its generic element"""
        if isinstance(it, ast.Call) and not it.keywords and not any(isinstance(a, ast.Starred) for a in it.args):
            d = dotted(it.func)
            st0 = self._count_start(it)
            if st0 is not None:
                return c + st0
            if d == "range" and 1 <= len(it.args) <= 2:
                bs = [self.ev(a) for a in it.args]
                if any(b is None or is_unknown(b) or isinstance(b, (tuple, DictValue)) for b in bs):
                    return NotImplemented
                return c if len(bs) == 1 else c + need(bs[0])
            if d == "enumerate" and 1 <= len(it.args) <= 2:
                s0 = self.ev(it.args[1]) if len(it.args) == 2 else F.const(0)
                if s0 is None or is_unknown(s0) or isinstance(s0, (tuple, DictValue)):
                    return NotImplemented
                x = self._generic_of(it.args[0], c)
                return NotImplemented if x is NotImplemented else (c + need(s0), x)
            if d == "zip" and it.args:
                xs = [self._generic_of(a, c) for a in it.args]
                return NotImplemented if any(x is NotImplemented for x in xs) else tuple(xs)
            if d in ("list", "tuple", "iter") and len(it.args) == 1:
                return self._generic_of(it.args[0], c)
        return self._element(self.ev(it), c)

    def _while(self, st):
        """a counted loop `while <comparison that reads k>: ...; k += c` (the increment first, last or in between; `k = k + c` is the same): evaluated
        once for a generic iteration with the counter a loop symbol.  What the statements before the increment see is the generic position, what
        the statements after it see is that position plus the step (with the increment first: the generic position itself, re-based)"""
        t = st.test
        # the loop is left through its test or through `if <test on the counter>: break` at the top level of its body
        exits = [x for x in st.body if isinstance(x, ast.If) and len(x.body) == 1 and isinstance(x.body[0], ast.Break) and not x.orelse]
        names = {x.id for e in [t] + [x.test for x in exits] for x in ast.walk(e) if isinstance(x, ast.Name)}
        if not (isinstance(t, (ast.Compare, ast.Name)) or (isinstance(t, ast.Constant) and t.value in (True, 1) and exits)):
            names = set()
        found = []
        for nm in sorted(names):
            if nm in self.buffers:
                continue
            incs, other = [], 0
            for x in ast.walk(st):
                if isinstance(x, ast.AugAssign) and isinstance(x.target, ast.Name) and x.target.id == nm:
                    if isinstance(x.op, (ast.Add, ast.Sub)) and isinstance(x.value, ast.Constant) and isinstance(x.value.value, int) and x.value.value != 0:
                        incs.append((x, x.value.value if isinstance(x.op, ast.Add) else -x.value.value))
                    else:
                        other += 1
                elif isinstance(x, ast.Assign) and any(isinstance(y, ast.Name) and y.id == nm and isinstance(y.ctx, ast.Store) for tg in x.targets for y in ast.walk(tg)):
                    v = x.value
                    if len(x.targets) == 1 and isinstance(x.targets[0], ast.Name) and isinstance(v, ast.BinOp) and isinstance(v.op, (ast.Add, ast.Sub)):
                        l, r = v.left, v.right
                        if isinstance(v.op, ast.Add) and isinstance(l, ast.Constant) and isinstance(r, ast.Name):
                            l, r = r, l
                        if isinstance(l, ast.Name) and l.id == nm and isinstance(r, ast.Constant) and isinstance(r.value, int) and r.value != 0:
                            incs.append((x, r.value if isinstance(v.op, ast.Add) else -r.value))
                            continue
                    other += 1
                elif isinstance(x, (ast.NamedExpr, ast.For, ast.comprehension, ast.withitem)) and any(
                        isinstance(y, ast.Name) and y.id == nm and isinstance(y.ctx, ast.Store) for y in ast.walk(getattr(x, "target", None) or getattr(x, "optional_vars", None) or ast.Pass())):
                    other += 1
            if len(incs) == 1 and not other and incs[0][0] in st.body:
                found.append((nm, incs[0][0], incs[0][1]))
        if len(found) != 1 or st.orelse:
            self.trace.undecided.append((st.test, self.fn.name))
            return super().stmt(st)
        ctr, inc, step = found[0]
        nm = self.trace.fresh(ctr)
        self.trace.loop_syms.add(nm)
        first = st.body[0] is inc
        self.env[ctr] = F.sym(nm) if not first else F.sym(nm) - F.const(step)
        self._cont = self._brk = False
        self._generic += 1
        for s_ in st.body:
            if self.done or self._cont:
                break
            if s_ is inc:
                self.env[ctr] = F.sym(nm) if first else F.sym(nm) + F.const(step)
                continue
            if s_ in exits and any(isinstance(x, ast.Name) and x.id == ctr for x in ast.walk(s_.test)) \
                    and not any(isinstance(x, (ast.NamedExpr, ast.Call)) for x in ast.walk(s_.test)):
                continue          # the exit test of the loop: false in the generic iteration
            self.stmt(s_)
        self._generic -= 1
        self._cont = self._brk = False
        self.env[ctr] = F.sym(nm)

    def _assign(self, target, v, st, aug=False):
        if self.opts.vectors:
            if isinstance(target, ast.Subscript) and isinstance(target.value, ast.Name) and target.value.id in self.vecnames:
                return self._vec_store(target.value.id, target.slice, v, st)
            if isinstance(target, ast.Name):
                src = getattr(st, "value", None)
                self.vecviews.pop(target.id, None)
                if not aug:
                    self.vecdead.pop(target.id, None)
                if aug and target.id in self.vecnames:
                    # `w /= 2`: the array is updated in place; another name bound to it sees the update
                    cur = self.env.get(target.id)
                    for k in list(self.env):
                        if k != target.id and isinstance(cur, tuple) and self.env[k] is cur:
                            self.env[k] = self.vecdead[k] = Unknown(f"`{k}` is bound to the vector `{target.id}`, which is updated in place afterwards")
                            self.vecnames.discard(k)
                    self._vec_up(cur, f"updated in place through `{target.id}`")
                    if isinstance(v, tuple) and not any(x is None or is_unknown(x) or isinstance(x, (tuple, DictValue)) for x in v):
                        self.env[target.id] = v
                    else:
                        self._vec_poison(target.id, "updated in place with a value that is not known entry by entry")
                    return
                self.vecnames.discard(target.id)
                if not aug and isinstance(src, (ast.Name, ast.Subscript, ast.Attribute)):
                    # bound to (a slice / the transpose of) a vector: possibly a view of it
                    root = src
                    while isinstance(root, (ast.Subscript, ast.Attribute)):
                        root = root.value
                    if isinstance(root, ast.Name):
                        r0 = self.vecviews.get(root.id, root.id)
                        if r0 in self.vecnames and r0 != target.id:
                            self.vecviews[target.id] = r0
                if target.id not in self.pinned and isinstance(v, tuple) and not isinstance(v, Record) and v \
                        and not any(x is None or is_unknown(x) or isinstance(x, (tuple, DictValue)) or (_symbols_of(x) & self.trace.idents) for x in v) \
                        and target.id not in self.vecviews and not (src is not None and _creates_array(src)):
                    if target.id in self.buffers:
                        self.views.pop(target.id, None)
                        self.alias.pop(target.id, None)
                    self.env[target.id] = v
                    self.vecnames.add(target.id)
                    return
        if isinstance(target, ast.Subscript):
            base = target.value
            ident = None
            if isinstance(base, ast.Name) and base.id in self.buffers and base.id not in self.views:
                ident = self._ident(base.id)
            else:
                bv = self.ev(base)
                if not is_unknown(bv) and not isinstance(bv, (tuple, DictValue)):
                    s = sym_name(bv)
                    ident = s if s is not None else repr(bv)
            if ident is None:
                # a store through something the evaluator has no value for: it may be any array of the trace
                self.trace.lost.append((st, getattr(self.fn, "name", "<lambda>"), f"a store through `{ast.unparse(base)}`, whose value is not known"))
                return super()._assign(target, v, st, aug)
            try:
                ix = self._index_value(target.slice)
            except Unsupported as e:
                ix = Unknown(str(e))
            self.trace.cells.append((ident, ix, v, st, self.trace.tick()))
            return
        if isinstance(target, ast.Name):
            s = sym_name(v) if v is not None and not isinstance(v, tuple) else None
            if s is not None and s.startswith("<array>") and s in self.trace.created and s in self.trace.idents and not self.trace.cells_of(s) \
                    and not any(x == s for x in self.alias.values()):
                # the first name an anonymous new array is bound to names its identity
                i = self.trace.fresh(target.id)
                self.trace.init[i] = self.trace.init.pop(s)
                self.trace.idents.discard(s)
                self.trace.created.discard(s)
                self.trace.created.add(i)
                v = F.sym(i)
        if isinstance(target, ast.Name) and isinstance(st, ast.Assign) and _creates_array(st.value) and any(t is target for t in st.targets):
            # a new list `[x] * n`: one identity, whoever fills it later (this function, or a helper it is handed to)
            i = self.trace.fresh(target.id)
            self.trace.init[i] = v
            if target.id in self.buffers:
                self.alias[target.id] = i
            elif target.id not in self.pinned:
                self.env[target.id] = F.sym(i)
            return
        if isinstance(target, ast.Name) and aug and target.id not in self.buffers and target.id not in self.pinned:
            cur = self.env.get(target.id)
            cs_ = sym_name(cur) if cur is not None and not is_unknown(cur) and not isinstance(cur, (tuple, DictValue)) else None
            if cs_ is not None and cs_ in self.trace.idents and cs_ not in self.trace.loop_syms:
                self.trace.cells.append((cs_, None, v, st, self.trace.tick()))       # `x *= f` on an array: updated in place
                return
        if isinstance(target, ast.Name) and target.id in self.buffers and aug and target.id in self.alias and target.id not in self.views:
            # `x *= f` on an array updates it in place: a store on the whole array, not a new array
            self.trace.cells.append((self.alias[target.id], None, v, st, self.trace.tick()))
            return
        if isinstance(target, ast.Name) and target.id in self.buffers:
            self.views.pop(target.id, None)
            u = unfn(v) if v is not None and not is_unknown(v) and not isinstance(v, (tuple, DictValue)) else None
            if u is not None and u[0].startswith("attr:"):
                # bound to a field of another object: the name is that field (no array of its own)
                self.views[target.id] = v
                self.alias.pop(target.id, None)
                return
            s = sym_name(v)
            if s is not None and s in self.trace.idents:
                self.alias[target.id] = s
            else:
                i = self.trace.fresh(target.id)
                self.trace.init[i] = v
                self.alias[target.id] = i
                if v is None or is_unknown(v) or isinstance(v, DictValue) or (not isinstance(v, tuple) and _may_alias(v, self.trace)):
                    self.trace.opaque.add(i)       # bound to something that may be (a view of) an array of the trace
            return
        if isinstance(target, (ast.Tuple, ast.List)) and isinstance(v, tuple) and sum(1 for t in target.elts if isinstance(t, ast.Starred)) == 1 \
                and len(v) >= len(target.elts) - 1:
            # a, *rest, z = sequence held item by item
            k = next(i for i, t in enumerate(target.elts) if isinstance(t, ast.Starred))
            after = len(target.elts) - k - 1
            for t, x in zip(target.elts[:k], v[:k]):
                self._assign(t, x, st)
            self._assign(target.elts[k].value, tuple(v[k:len(v) - after]), st)
            for t, x in zip(target.elts[k + 1:], v[len(v) - after:] if after else ()):
                self._assign(t, x, st)
            return
        if isinstance(target, (ast.Tuple, ast.List)) and any(isinstance(t, ast.Starred) for t in target.elts):
            for t in target.elts:
                self._assign(t.value if isinstance(t, ast.Starred) else t, Unknown("starred unpacking of a value that is not held item by item"), st)
            return
        if isinstance(target, (ast.Tuple, ast.List)) and not isinstance(v, tuple) and not is_unknown(v) and not isinstance(v, DictValue):
            # unpacking an opaque sequence value: its items by position
            for k, t in enumerate(target.elts):
                self._assign(t, F.fn("idx", need(v), F.const(k)), st)
            return
        if isinstance(target, (ast.Tuple, ast.List)):
            if isinstance(v, tuple) and len(v) == len(target.elts):
                for t, x in zip(target.elts, v):
                    self._assign(t, x, st)
            else:
                for t in target.elts:
                    self._assign(t, Unknown("tuple unpacking"), st)
            return
        if isinstance(target, ast.Name):
            if target.id not in self.pinned:
                self.env[target.id] = v
            return
        if isinstance(target, ast.Attribute):
            d = dotted(target)
            if d and d not in self.pinned:
                self.env[d] = v
            return


_LOWERED = (ast.Assign, ast.AnnAssign, ast.AugAssign, ast.If, ast.For, ast.While, ast.With, ast.Return, ast.Expr, ast.Raise, ast.Pass, ast.Assert,
            ast.Import, ast.ImportFrom, ast.FunctionDef, ast.Continue, ast.Break, ast.Delete, ast.Try)


def _binds(tree, descend):
    """names some construct of `tree` binds (assignment and loop targets, parameters, imports, def / class, `as`, global / nonlocal); with
    `descend` the bodies of nested functions are included (a conservative superset), without it they are not (module top level).  None when a
    star import makes the set unknowable."""
    out = set()
    todo = [tree]
    while todo:
        x = todo.pop()
        for y in ast.iter_child_nodes(x):
            if isinstance(y, (ast.FunctionDef, ast.AsyncFunctionDef, ast.ClassDef)):
                out.add(y.name)
                if not descend:
                    continue
            if isinstance(y, ast.Lambda) and not descend:
                continue
            todo.append(y)
        if isinstance(x, ast.Name) and isinstance(x.ctx, (ast.Store, ast.Del)):
            out.add(x.id)
        elif isinstance(x, ast.arg):
            out.add(x.arg)
        elif isinstance(x, (ast.Import, ast.ImportFrom)):
            for al in x.names:
                if al.name == "*":
                    return None
                out.add((al.asname or al.name).split(".")[0])
        elif isinstance(x, ast.ExceptHandler) and x.name:
            out.add(x.name)
        elif isinstance(x, (ast.Global, ast.Nonlocal)):
            out.update(x.names)
        elif isinstance(x, getattr(ast, "MatchAs", ())) and x.name:
            out.add(x.name)
        elif isinstance(x, getattr(ast, "MatchStar", ())) and x.name:
            out.add(x.name)
        elif isinstance(x, getattr(ast, "MatchMapping", ())) and x.rest:
            out.add(x.rest)
    return out


def _lower_match(st):
    """`match x:` whose cases are literals, alternatives of literals and a final wildcard, without guards: the if / elif chain it means"""
    def test(pat):
        if isinstance(pat, ast.MatchValue):
            return ast.Compare(left=st.subject, ops=[ast.Eq()], comparators=[pat.value])
        if isinstance(pat, ast.MatchSingleton):
            return ast.Compare(left=st.subject, ops=[ast.Is()], comparators=[ast.Constant(value=pat.value)])
        if isinstance(pat, ast.MatchOr):
            ts = [test(p_) for p_ in pat.patterns]
            return None if any(t is None for t in ts) else ast.BoolOp(op=ast.Or(), values=ts)
        return None
    chain = None
    for k, case in reversed(list(enumerate(st.cases))):
        if case.guard is not None:
            return None
        if isinstance(case.pattern, ast.MatchAs) and case.pattern.pattern is None and case.pattern.name is None:
            if k != len(st.cases) - 1:
                return None
            chain = list(case.body)
            continue
        t = test(case.pattern)
        if t is None:
            return None
        node = ast.If(test=t, body=list(case.body), orelse=chain if isinstance(chain, list) else ([chain] if chain is not None else []))
        chain = ast.fix_missing_locations(ast.copy_location(node, st))
    return chain if isinstance(chain, ast.If) else None


def _imported_helper(ctx, mod, name):
    """the definition of `name` when the module imports it from a sibling module of its package (`from ._utilities import _helper`)"""
    import os
    for st in mod.tree.body:
        if not isinstance(st, ast.ImportFrom) or not st.module:
            continue
        for al in st.names:
            if (al.asname or al.name) != name:
                continue
            if st.level == 1:
                rel = os.path.join(os.path.dirname(mod.rel), *st.module.split(".")) + ".py"
            elif st.level == 0 and st.module.startswith("pyyeti."):
                rel = os.path.join(*st.module.split(".")) + ".py"
            else:
                return None
            try:
                return ctx.src.mod(rel).funcs.get(al.name)
            except Exception:  # noqa
                return None
    return None


def _may_alias(v, trace):
    """a value that is neither a number nor a formula over plain symbols may be a view of an array of the trace when one occurs in it:
    idx(d, rows), an opaque call that was handed d, ...  (a store through such a local cannot be attributed to an array)"""
    if sym_name(v) is not None:
        return False
    found = []

    def f(kind, name, args):
        if kind == "s" and name in trace.idents:
            found.append(name)
        return NotImplemented
    try:
        rewrite(v, f)
    except Unsupported:
        return True
    return bool(found)


def _literal_iter(node):
    """an iterable whose items may be readable from the source: a display, a string, a name, or range / zip / enumerate / reversed / d.items() of such"""
    if isinstance(node, (ast.Tuple, ast.List, ast.Constant, ast.Name)):
        return True
    if isinstance(node, ast.Subscript) and isinstance(node.slice, ast.Slice):
        return True
    if isinstance(node, ast.Call) and dotted(node.func) in ("range", "zip", "enumerate", "reversed", "list", "tuple"):
        return True
    return isinstance(node, ast.Call) and isinstance(node.func, ast.Attribute) and node.func.attr in ("items", "values", "keys") and not node.args


def _creates_array(node):
    """`[x] * n`: a new mutable container that is filled later (np.zeros(...) and friends get their identity where they are evaluated)"""
    if isinstance(node, ast.BinOp) and isinstance(node.op, ast.Mult) and (isinstance(node.left, ast.List) or isinstance(node.right, ast.List)):
        return True
    return False


def _mk_slice(lo, hi, step):
    """slice(k, k + 1) selects column k: the same selection as the index k for the element-wise formulas compared here"""
    if sym_name(step) == "None" and sym_name(lo) != "None" and sym_name(hi) != "None":
        try:
            if (hi - lo).equals(F.const(1)):
                return lo
        except Unsupported:
            pass
    return F.fn("slice", lo, hi, step)


def _only_raises(body):
    for s in body:
        if isinstance(s, (ast.Raise, ast.Pass, ast.Assert)):
            continue
        if isinstance(s, ast.Expr) and isinstance(s.value, ast.Constant):
            continue
        if isinstance(s, ast.Expr) and isinstance(s.value, ast.Call) and (dotted(s.value.func) or "").startswith("warnings."):
            continue
        if isinstance(s, ast.If) and _only_raises(s.body) and _only_raises(s.orelse):
            continue
        return False
    return True


def _is_checker(fn):
    """a function that can only raise or return None (an argument check): calling it has no effect on the values"""
    body = fn.body
    def ok(stmts):
        for s in stmts:
            if isinstance(s, (ast.Raise, ast.Pass, ast.Assert)):
                continue
            if isinstance(s, ast.Return) and (s.value is None or (isinstance(s.value, ast.Constant) and s.value.value is None)):
                continue
            if isinstance(s, ast.Expr) and isinstance(s.value, ast.Constant):
                continue
            if isinstance(s, (ast.Assign, ast.AnnAssign)) and all(isinstance(t, ast.Name) for t in (s.targets if isinstance(s, ast.Assign) else [s.target])):
                continue
            if isinstance(s, ast.If) and ok(s.body) and ok(s.orelse):
                continue
            return False
        return True
    return ok(body) and any(isinstance(x, ast.Raise) for x in ast.walk(fn))


def run_entry(ctx, fn, table, opts, label="", env=None):
    """evaluate `fn` under the configuration `table`; returns (trace, evaluator)"""
    cfg = table if isinstance(table, Config) else Config(table, label)
    ev = PathEval(fn, ctx, cfg, opts, env=env)
    ev.run(fn.body)
    return ev.trace, ev


class _ForkConfig(Config):
    """a configuration in which every *atomic* test it cannot decide is taken both ways (one evaluation per combination)"""

    def __init__(self, table, prefix, work):
        super().__init__(table)
        self.prefix = prefix
        self.work = work
        self.taken = []      # [(test value, bool)] in the order met
        self.cache = {}

    def truth(self, v):
        r = super().truth(v)
        if r is not None or v is None or is_unknown(v) or isinstance(v, (tuple, DictValue)):
            return r
        u = unfn(v)
        if u is not None and (u[0] in ("not", "invert") or u[0].startswith("bool:")):
            return None          # composed by the evaluator from its parts
        k = vkey(v)
        if k in self.cache:
            return self.cache[k]
        i = len(self.taken)
        if i < len(self.prefix):
            d = self.prefix[i]
        else:
            d = True
            self.work.append([b for _, b in self.taken] + [False])
        self.taken.append((v, d))
        self.cache[k] = d
        # the negated / swapped spellings of the same comparison follow
        self._put(v, d)
        return d


def explore(ctx, fn, table, opts, limit=32, cfg_cls=None, env=None):
    """like `enumerate_paths`, as a list of (decisions, trace, evaluator); a configuration that decides every test gives one path"""
    out = []
    work = [[]]
    while work:
        prefix = work.pop()
        if len(out) >= limit:
            raise Unsupported(f"more than {limit} combinations of the tests the configuration leaves open in {fn.name}")
        cfg = (cfg_cls or _ForkConfig)(table, prefix, work)
        ev = PathEval(fn, ctx, cfg, opts, env=env)
        ev.run(fn.body)
        out.append((list(cfg.taken), ev.trace, ev))
    return out


def enumerate_paths(ctx, fn, table, opts, limit=64, cfg_cls=None, env=None):
    """evaluate `fn` once per combination of the atomic tests the configuration leaves open; yields (decisions, trace)"""
    work = [[]]
    n = 0
    while work:
        prefix = work.pop()
        n += 1
        if n > limit:
            raise Unsupported(f"more than {limit} paths through {fn.name}")
        cfg = (cfg_cls or _ForkConfig)(table, prefix, work)
        ev = PathEval(fn, ctx, cfg, opts, env=env)
        ev.run(fn.body)
        yield list(cfg.taken), ev.trace
