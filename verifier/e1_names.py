"""E1b -- recovery of local-variable names.

The rules name locals the way today's source does (`rat`, `pvnz`, `fullcyclesp1`, ...).  A maintainer may rename a local; the
behaviour is unchanged and no rule may fire.  `refnames.json` (generated from the pinned tree by tools/gen_refnames.py) records, per
function, its locals in first-binding order, each with a hash of the *shape* of its binding statement (the statement with every
local name erased).  When the current function has a local name the reference does not know, and the reference has one the current
function lacks, and their binding statements align (same shape, same relative order: an LCS over shapes), the current AST is
alpha-renamed back to the reference name before any rule looks at it.

This never decides anything: a name that is still present is never touched (so a change that keeps the names but swaps their roles
is seen as it is), an unaligned name is left alone (the rule that needs it then reports an analysis error, not a violation).
"""
from __future__ import annotations

import ast
import hashlib
import json
import os

_REF = None


def ref():
    global _REF
    if _REF is None:
        p = os.path.join(os.path.dirname(os.path.abspath(__file__)), "refnames.json")
        try:
            with open(p) as f:
                _REF = json.load(f)
        except (OSError, ValueError):
            _REF = {}
    return _REF


_SCOPES = (ast.FunctionDef, ast.AsyncFunctionDef, ast.Lambda, ast.ClassDef, ast.ListComp, ast.SetComp, ast.DictComp, ast.GeneratorExp)


def _own_nodes(fn):
    """nodes of the function's own scope in source order (nested scopes are not entered)"""
    stack = list(ast.iter_child_nodes(fn))[::-1]
    while stack:
        n = stack.pop()
        yield n
        if isinstance(n, _SCOPES):
            continue
        stack.extend(list(ast.iter_child_nodes(n))[::-1])


def _params(fn):
    a = fn.args
    ps = {x.arg for x in a.args + a.kwonlyargs + a.posonlyargs}
    if a.vararg:
        ps.add(a.vararg.arg)
    if a.kwarg:
        ps.add(a.kwarg.arg)
    return ps


def _shape(node, names, skip_body=False):
    """structural dump of a node with the given local names erased (no copying)"""
    if isinstance(node, ast.Name):
        return f"N({'_' if node.id in names else node.id},{type(node.ctx).__name__})"
    if isinstance(node, ast.AST):
        parts = []
        for f, v in ast.iter_fields(node):
            if skip_body and f in ("body", "orelse", "finalbody", "handlers"):
                continue
            parts.append(_shape(v, names))
        return f"{type(node).__name__}({','.join(parts)})"
    if isinstance(node, list):
        return "[" + ",".join(_shape(x, names) for x in node) + "]"
    return repr(node)


_COMPOUND = (ast.For, ast.AsyncFor, ast.With, ast.AsyncWith, ast.If, ast.While, ast.Try)


def locals_in_order(fn):
    """[(name, shape-hash)] of the function's locals in first-binding order"""
    params = _params(fn)
    banned = set()
    for n in _own_nodes(fn):
        if isinstance(n, (ast.Global, ast.Nonlocal)):
            banned.update(n.names)
    parents = {}
    for n in _own_nodes(fn):
        for c in ast.iter_child_nodes(n):
            parents[id(c)] = n
    for c in ast.iter_child_nodes(fn):
        parents[id(c)] = fn
    order = []
    seen = set()
    for n in _own_nodes(fn):
        if isinstance(n, ast.Name) and isinstance(n.ctx, ast.Store) and n.id not in params and n.id not in banned and n.id not in seen:
            seen.add(n.id)
            order.append(n)
    names = set(seen)
    out = []
    for n in order:
        st = n
        while not isinstance(st, ast.stmt) and id(st) in parents:
            st = parents[id(st)]
        if not isinstance(st, ast.stmt):
            shape = "?"
            pos = 0
        else:
            compound = isinstance(st, _COMPOUND)
            if compound:
                hdr = [v for f, v in ast.iter_fields(st) if f not in ("body", "orelse", "finalbody", "handlers")]
                stores = [x for h in hdr for x in (ast.walk(h) if isinstance(h, ast.AST) else
                                                   [y for e in (h if isinstance(h, list) else []) if isinstance(e, ast.AST) for y in ast.walk(e)])
                          if isinstance(x, ast.Name) and isinstance(x.ctx, ast.Store)]
            else:
                stores = [x for x in ast.walk(st) if isinstance(x, ast.Name) and isinstance(x.ctx, ast.Store)]
            stores.sort(key=lambda x: (x.lineno, x.col_offset))
            pos = next((i for i, x in enumerate(stores) if x is n), 0)
            shape = _shape(st, names, skip_body=compound)
        out.append((n.id, hashlib.sha1(f"{type(st).__name__}|{pos}|{shape}".encode()).hexdigest()[:12]))
    return out


def _lcs(a, b):
    n, m = len(a), len(b)
    dp = [[0] * (m + 1) for _ in range(n + 1)]
    for i in range(n - 1, -1, -1):
        for j in range(m - 1, -1, -1):
            dp[i][j] = dp[i + 1][j + 1] + 1 if a[i] == b[j] else max(dp[i + 1][j], dp[i][j + 1])
    i = j = 0
    pairs = []
    while i < n and j < m:
        if a[i] == b[j]:
            pairs.append((i, j))
            i += 1
            j += 1
        elif dp[i + 1][j] >= dp[i][j + 1]:
            i += 1
        else:
            j += 1
    return pairs


def mapping_for(fn, reflist):
    """{current name: reference name} for locals that were renamed (see module docstring)"""
    cur = locals_in_order(fn)
    cur_names = {n for n, _ in cur}
    ref_names = {n for n, _ in reflist}
    if not (cur_names - ref_names) or not (ref_names - cur_names):
        return {}
    # align on (shape, and the name when the name is common to both sides) so that unrenamed locals pin the alignment
    ka = [(h, n if n in ref_names else None) for n, h in cur]
    kb = [(h, n if n in cur_names else None) for n, h in reflist]
    mp = {}
    used = set()
    # a reference name that is still *read* somewhere in the function was not renamed away: its binding was (that is a NameError at
    # run time, i.e. a real change) - recovering it would repair the program under analysis
    still_read = {x.id for x in ast.walk(fn) if isinstance(x, ast.Name) and isinstance(x.ctx, ast.Load)}
    for i, j in _lcs(ka, kb):
        cn, rn = cur[i][0], reflist[j][0]
        if cn != rn and cn not in ref_names and rn not in cur_names and rn not in used and rn not in still_read:
            mp[cn] = rn
            used.add(rn)
    return mp


class _Rename(ast.NodeVisitor):
    def __init__(self, mp):
        self.mp = mp

    def visit_Name(self, n):
        if n.id in self.mp:
            n.id = self.mp[n.id]

    def visit_arg(self, n):      # a nested function's parameter of that name shadows it: leave nested params alone
        return


def recover(tree, rel):
    """alpha-rename locals of every function of the module back to the reference names; returns [(qual, {cur: ref})]"""
    table = ref().get(rel)
    if not table:
        return []
    done = []

    def visit(node, prefix, seen):
        for c in ast.iter_child_nodes(node):
            if isinstance(c, (ast.FunctionDef, ast.AsyncFunctionDef)):
                q = prefix + c.name
                k = q
                i = 2
                while k in seen:
                    k = f"{q}#{i}"
                    i += 1
                seen.add(k)
                rl = table.get(k)
                if rl:
                    mp = mapping_for(c, [tuple(x) for x in rl])
                    if mp:
                        r = _Rename(mp)
                        for s in c.body:
                            r.visit(s)
                        done.append((k, mp))
                visit(c, q + ".", seen)
            elif isinstance(c, ast.ClassDef):
                visit(c, prefix + c.name + ".", seen)
            else:
                visit(c, prefix, seen)
    visit(tree, "", set())
    return done
