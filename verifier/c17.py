"""C17 -- Newmark-Beta and coupled-damping-as-force recurrences (partial claim).

Every rule decides on *values* observed at the PUBLIC interface: the solver source is interpreted (verifier/c17_interp.py; nothing of /repo is
imported or run) from the constructor through def_nonlin to tsolve (and generator / finalize for SolveCDF) on a small system with symbolic
entries - 2 degrees of freedom plus an optional rf mode (first, last or in the middle), 3-4 time steps, explicit matrices, two opaque
nonlinear terms - in every configuration the code distinguishes (diagonal / full matrices, with / without nonlinear terms, m None / given,
order 0 / 1, initial conditions given or not).  What tsolve returns (sol.d, sol.v, sol.a, sol.z) and what the user's nonlinear functions are
called with is compared with an independent transcription of the documented recurrences, whose matrices are read from the docstring's LaTeX.
The spelling of the source (names, temporaries, polarity of tests, kind of loop, helper functions or classes, generators, import aliases,
views, index style) does not enter, and neither do the contracts between private methods or the representation of private members
(how A is kept factored, what _init_dva returns, how the nonlinear terms are recorded, whether alpha is stored)."""
from __future__ import annotations

import ast
import re

from . import c17_interp as I
from . import e2_formula as F
from . import ode_spaces as O
from .core import AnchorError, Unsupported
from .e2_eval import Evaluator, is_unknown, need

NM, UNC, BASE = O.NM, O.UNC, O.BASE
CDF = "pyyeti/ode/solvecdf.py"

M_, B_, K_, h = F.sym("M"), F.sym("B"), F.sym("K"), F.sym("h")


# ---------------------------------------------------------------------------
# a small reader for the RST/LaTeX formulas of the class docstring
def _latex_expr(s):
    """\\frac{a}{b}, juxtaposition products, + -, ^n, single-letter symbols with optional subscripts -> Rat"""
    s = s.replace("\\left", "").replace("\\right", "").replace("&", "").replace("\\\\", "").replace("\\,", " ")
    pos = 0

    def peek():
        nonlocal pos
        while pos < len(s) and s[pos].isspace():
            pos += 1
        return s[pos] if pos < len(s) else ""

    def group():
        nonlocal pos
        assert peek() == "{", f"expected {{ at {pos} in {s!r}"
        pos += 1
        v = expr()
        assert peek() == "}", f"expected }} at {pos} in {s!r}"
        pos += 1
        return v

    def atom():
        nonlocal pos
        c = peek()
        if c == "\\":
            m = re.match(r"\\(frac|dot|ddot)", s[pos:])
            if not m:
                raise Unsupported(f"latex command at {s[pos:pos + 10]!r}")
            pos += len(m.group(0))
            if m.group(1) == "frac":
                a = group()
                b = group()
                return a / b
            inner = group()
            sub_ = re.match(r"_\{[^}]*\}|_[A-Za-z0-9]", s[pos:])
            suffix = ""
            if sub_:
                pos += len(sub_.group(0))
                suffix = sub_.group(0).replace("{", "").replace("}", "")
            return F.sym(("v" if m.group(1) == "dot" else "a") + repr(inner) + suffix)
        if c in "([":
            pos += 1
            v = expr()
            assert peek() in ")]"
            pos += 1
            return v
        if c == "{":
            return group()
        m = re.match(r"\d+", s[pos:])
        if m:
            pos += len(m.group(0))
            return F.const(int(m.group(0)))
        m = re.match(r"[A-Za-z](_\{[^}]*\}|_[A-Za-z0-9])?", s[pos:])
        if m:
            pos += len(m.group(0))
            return F.sym(m.group(0).replace("{", "").replace("}", ""))
        raise Unsupported(f"latex atom at {s[pos:pos + 10]!r}")

    def power():
        nonlocal pos
        v = atom()
        if peek() == "^":
            pos += 1
            if peek() == "{":
                e = group()
            else:
                e = atom()
            v = v ** int(need(e).const_value())
        return v

    def term():
        v = None
        neg = False
        while True:
            c = peek()
            if c == "" or c in "+-)]}":
                break
            f = power()
            v = f if v is None else v * f
        if v is None:
            raise Unsupported(f"empty term in {s!r}")
        return v

    def expr():
        nonlocal pos
        c = peek()
        sign = 1
        if c in "+-":
            sign = -1 if c == "-" else 1
            pos += 1
        v = term() * sign
        while peek() in "+-" and peek() != "":
            c = peek()
            pos += 1
            t = term()
            v = v + t if c == "+" else v - t
        return v

    v = expr()
    if peek() != "":
        raise Unsupported(f"trailing latex {s[pos:]!r}")
    return v


def documented_newmark(ctx):
    """{A, A_1, A_0} read from the `.. math::` block of the SolveNewmark docstring"""
    cls = ctx.src.cls(NM, "SolveNewmark")
    doc = ast.get_docstring(cls, clean=False) or ""
    out = {}
    for nm in ("A", "A_1", "A_0"):
        m = re.search(r"^\s*" + re.escape(nm) + r"\s*&=\s*\\left\s*\[(.*?)\\right\s*\]", doc, re.S | re.M)
        if not m:
            raise AnchorError(f"SolveNewmark docstring: definition of {nm}")
        out[nm] = _latex_expr(m.group(1))
    m = re.search(r"u_\{-1\}\s*&=\s*(.*?)\\\\", doc, re.S)
    out["u_-1"] = _latex_expr(m.group(1)) if m else None
    return out, doc




# ---------------------------------------------------------------------------
# evaluation of the solver source on a small symbolic system (verifier/c17_interp.py): 2 dof (+1 rf mode), NT time steps, NZ outputs per
# nonlinear function.  One member of the property's quantifier domain, with symbolic entries: an obligation that fails here fails for the
# property.  Everything is driven through the PUBLIC entry points - SolveNewmark(m, b, k, h, rf), def_nonlin(dct), tsolve(force, d0, v0) - and
# decided on what tsolve returns (sol.d, sol.v, sol.a, sol.z) and on what the user's nonlinear functions are called with: how the class
# splits the work between private methods, and what it keeps in private attributes, does not enter.
N, NT, NZ = 2, 4, 2
H = F.sym("h")
UNC_F, CPL = True, False


def vec(name, n=N):
    return I.NDArr.syms(name, (n,))


def mat(name, r=N, c=N):
    return I.NDArr.syms(name, (r, c))


def _isdiag(it, a, k):
    """pyyeti.ytools.isdiag on a symbolic matrix: diagonal iff every off-diagonal entry is the constant zero"""
    m = a[0]
    if not isinstance(m, I.NDArr) or m.ndim != 2 or m.shape[0] != m.shape[1]:
        return False
    return all(I.R(m.item(i, j)).is_zero() for i in range(m.shape[0]) for j in range(m.shape[1]) if i != j)


def _assume_generic(op, a, b):
    """`abs(k) < tol` on symbolic entries: the generic system has no (numerically) vanishing stiffness or damping entry"""
    if isinstance(op, (ast.Lt, ast.LtE)) and isinstance(a, I.NDArr) and I.is_num(b) and I.R(b).is_const() and I.R(b).const_value() > 0 \
            and all(not isinstance(x, (bool, I.Und)) and not I.R(x).is_const() for x in a.flat()):
        r = I.NDArr.full(a.shape, False)
        r.kind = "bool"
        return r
    return None


def _interp(ctx, on_opaque=None, stubs=None):
    """an interpreter with the facts every rule assumes: the time step is not zero, ytools.isdiag (another module's routine) says what its
    name says, symbolic entries are not tiny"""
    st = {"pyyeti.ytools.isdiag": _isdiag, "isdiag": _isdiag}
    st.update(stubs or {})
    it = I.Interp(ctx, stubs=st, on_opaque=on_opaque)
    it.nonzero = {"h"}
    it.assume_cmp = _assume_generic
    return it


def _guard(ctx, tag, where, thunk, partial=False, cap=150000):
    """run an evaluation; a Python exception of the analysed code on a valid configuration is a violation, a construct outside the
    interpreter's subset an analysis error.  With `partial`, an evaluation that outgrows the formula budget returns ("toolarge", reason):
    the caller repeats it on a shorter history (formulas explode only when an operation of the recurrence is not the documented one, so
    the first steps already contradict the documentation).  Every evaluation runs under a work budget (term products of the formula
    arithmetic) a few times what the documented code needs, so that a variant whose formulas explode costs seconds, not minutes"""
    own_cap = I.WORK[1] is None
    if own_cap:
        I.work_reset(cap)
    try:
        return True, thunk()
    except I.TooLarge as e:
        if partial:
            return "toolarge", str(e)
        ctx.error(f"{tag}: evaluation", where, str(e))
        return False, None
    except I.PyRaise as e:
        if e.genuine:
            ctx.fail(f"{tag}: runs on a valid configuration without raising", where, str(e))
        else:
            ctx.error(f"{tag}: evaluation", where, str(e))
    except Unsupported as e:
        ctx.error(f"{tag}: evaluation", where, str(e))
    finally:
        if own_cap:
            I.work_reset()
    return False, None


def _eq(a, b):
    return a is not None and b is not None and I.arr_equal(a, b)


def _show(x, n=300):
    s = repr(x)
    return s if len(s) <= n else s[:n] + "..."


def _subs_arr(a, mp):
    if not isinstance(a, I.NDArr):
        return I.fast_subs(a, mp)
    return I.NDArr.new(a.shape, [I.fast_subs(e, mp) for e in a.flat()])


def _sym_name(r):
    """name of the symbol a one-term Rat consists of"""
    (m, _c), = r.n.t.items()
    if len(m) != 1 or m[0][1] != 1 or F.atom_desc(m[0][0])[0] != "s":
        raise Unsupported("a symbol is expected")
    return F.atom_desc(m[0][0])[1]


def _ivec(*idx):
    return I.NDArr.new((len(idx),), list(idx))


class NLTerms:
    """two nonlinear force terms as the user hands them to def_nonlin: {key: (function, transform[, optional arguments])}; the functions are
    opaque: every call is recorded with a snapshot of the displacement array it sees and returns the symbols z<k>_<j>"""

    def __init__(self):
        self.funcs = [I.Opaque("nl0", inert=True), I.Opaque("nl1", inert=True)]
        self.keys = ["k0", "k1"]
        self.T = [mat("T0", N, NZ), mat("T1", N, NZ)]
        self.optargs = I.Opaque("optarg1", inert=True)
        self.kwargs = [{}, {"opt": self.optargs}]
        self.calls = []      # dict(k, j, args, kwargs, snap)

    def spec(self):
        """the first term is given as a 2-tuple (no optional arguments), the second as a 3-tuple"""
        return {self.keys[0]: (self.funcs[0], self.T[0].copy()), self.keys[1]: (self.funcs[1], self.T[1].copy(), dict(self.kwargs[1]))}

    def z(self, k, j):
        return vec(f"z{k}_{j}", NZ)

    def hook(self, it, op, args, kwargs, node):
        if op not in self.funcs:
            return NotImplemented
        k = self.funcs.index(op)
        j = args[1] if len(args) > 1 else None
        try:
            j = I._as_int(j)
        except Unsupported:
            j = None
        snap = args[0].copy() if args and isinstance(args[0], I.NDArr) else None
        self.calls.append({"k": k, "j": j, "args": list(args), "kwargs": dict(kwargs), "snap": snap, "seq": it.seq})
        if j is None:
            return vec(f"zbad{len(self.calls)}", NZ)
        return self.z(k, j)

    def call_ok(self, c, h=H):
        """documented call convention func(d, j, h, **optargs)"""
        return len(c["args"]) == 3 and c["snap"] is not None and I.s_equal(c["args"][2], h) and \
            set(c["kwargs"]) == set(self.kwargs[c["k"]]) and all(c["kwargs"][x] is self.kwargs[c["k"]][x] for x in c["kwargs"])


def _cfg(unc, nonlin):
    return f"{'uncoupled' if unc else 'coupled'}, {'nonlinear' if nonlin else 'linear'}"


def _doc_entry(formula, mm, bb, kk):
    return formula.subs({"M": mm, "B": bb, "K": kk})


# ---------------------------------------------------------------------------
def _parametrise(docs):
    """The documented (A, A_1, A_0) are linear in (M, B, K) with coefficients in Q(h); for h != 0 the map is a bijection, so the system can be
    named by its A, A_1, A_0 instead of its M, B, K without leaving out any system.  The code then divides by the *symbols* of A (when it
    forms the documented A) instead of by a three-term polynomial, which keeps every formula of a several-step history small.
    Returns f(a, a1, a0, one, m_none) -> (M, B, K) as read off the docstring's formulas."""
    t = F.sym("t")
    rows = []
    for key in ("A", "A_1", "A_0"):
        if not docs[key].subs({"M": t * M_, "B": t * B_, "K": t * K_}).equals(t * docs[key]):
            raise Unsupported(f"documented {key} is not linear in M, B, K")
        rows.append([docs[key].subs({"M": int(c == "M"), "B": int(c == "B"), "K": int(c == "K")}) for c in "MBK"])
    C = I.NDArr.new((3, 3), [e for r in rows for e in r])
    try:
        Ci = I.inverse(C)
        C2i = I.inverse(I.NDArr.new((2, 2), [rows[0][1], rows[0][2], rows[2][1], rows[2][2]]))
    except I.PyRaise:
        raise Unsupported("the documented A, A_1, A_0 do not determine M, B, K")

    def f(a, a1, a0, one, m_none):
        if not m_none:
            return tuple(a * Ci.item(r, 0) + a1 * Ci.item(r, 1) + a0 * Ci.item(r, 2) for r in range(3))
        ra, r0 = a - one * rows[0][0], a0 - one * rows[2][0]            # mass = identity: B, K follow from A and A_0
        return (None,) + tuple(ra * C2i.item(r, 0) + r0 * C2i.item(r, 1) for r in range(2))
    return f


class NewmarkRun:
    """one configuration of SolveNewmark run through its public interface, and the documented recurrence for the same inputs"""

    def __init__(self, ctx, docs, unc, nonlin=False, ic=True, rf=None, m_none=False, diag2d=False, nt=NT, special=False):
        self.ctx, self.docs, self.unc, self.nonlin, self.ic, self.rf, self.m_none, self.diag2d, self.nt = ctx, docs, unc, nonlin, ic, rf, m_none, diag2d, nt
        self.reduced = False
        self.special = special and not unc      # the sub-family of coupled systems with a diagonal A (inv(A) is entry-wise): see _newmark_runs
        how = {None: "", "trailing": ", one trailing rf mode (slice partitions)", "interleaved": ", one rf mode between the others (index-vector partitions)",
               "leading": ", one leading rf mode (slice partitions that do not start at 0)"}[rf]
        ictxt = {True: "", False: ", no initial conditions given", "v0": ", only v0 given"}[ic]
        self.tag = f"{_cfg(unc, nonlin)}{ictxt}{how}{', mass None' if m_none else ''}{', diagonal matrices given as 2-D arrays' if diag2d else ''}"

    # ---- the system
    def run(self):
        unc, rf, nt = self.unc, self.rf, self.nt
        shape = (N,) if unc else (N, N)
        a, a1, a0 = (I.NDArr.syms(x, shape) for x in ("a", "a1", "a0"))
        if self.special:
            a = I._np_diag(None, [I._np_diag(None, [a], {})], {})           # off-diagonal entries of A are zero; A_1, A_0 (hence M, B, K) stay full
        one = I.NDArr.full(shape, F.const(1)) if unc else I._np_eye(None, [N], {})
        M, B, K = _parametrise(self.docs)(a, a1, a0, one, self.m_none)
        self.M, self.B, self.K = M, B, K
        Md = one if self.m_none else M
        # the documented matrices, read from the docstring's LaTeX and taken entry by entry (they are linear in M, B, K)
        self.A, self.A1, self.A0 = (I.NDArr.new(shape, [_doc_entry(self.docs[key], x, y, z) for x, y, z in zip(Md.flat(), B.flat(), K.flat())])
                                    for key in ("A", "A_1", "A_0"))
        self.terms = NLTerms() if self.nonlin else None
        self.it = it = _interp(self.ctx, on_opaque=self.terms.hook if self.terms else None)
        if self.special:
            self.iA = I.inverse(self.A)
        elif not unc:
            # inv(A) is kept as a matrix of symbols iA (relation iA A = I used only when a comparison needs it: see eq())
            self.iA = mat("iA")
            it.named_inv.append((self.A, self.iA))
        self.ntot = ntot = N + (1 if rf else 0)
        self.K_, self.RF_ = {None: ([0, 1], []), "trailing": ([0, 1], [2]), "interleaved": ([0, 2], [1]), "leading": ([1, 2], [0])}[rf]
        self.krf = F.sym("krf")
        m_in, b_in, k_in = (self._embed(x, nm) for x, nm in ((M, "m"), (B, "b"), (K, "k")))
        self.f = mat("f", ntot, nt)
        self.d0 = vec("d0", ntot) if self.ic is True else None
        self.v0 = vec("v0", ntot) if self.ic else None
        if self.special:
            # ... released from a unit displacement of the first equation with a unit velocity of the last, no applied force (fewer symbols)
            self.f = I.NDArr.full((ntot, nt), F.const(0))
            if self.d0 is not None:
                self.d0 = I.NDArr.new((ntot,), [F.const(int(i == 0)) for i in range(ntot)])
            if self.v0 is not None:
                self.v0 = I.NDArr.new((ntot,), [F.const(int(i == ntot - 1)) for i in range(ntot)])
        cp = lambda x: None if x is None else x.copy()
        kw = {"rf": list(self.RF_)} if rf else {}
        self.obj = it.instantiate(it.cls(NM, "SolveNewmark"), cp(m_in), cp(b_in), cp(k_in), H, **kw)
        if self.nonlin:
            it.call_method(self.obj, "def_nonlin", self.terms.spec())
            self.n_def_calls = len(self.terms.calls)
            self.nonlin_terms = self.obj.attrs.get("nonlin_terms")
        self.sol = it.call_method(self.obj, "tsolve", self.f.copy(), cp(self.d0), cp(self.v0))
        return self

    def _embed(self, blk, name):
        """the non-rf block placed in the full-size input (rf equations are uncoupled from the others: modal space)"""
        if blk is None:
            return None
        if self.rf:
            n = self.ntot
            rfsym = self.krf if name == "k" else F.sym(name + "rf")
            if self.unc:
                ents = [None] * n
                for p_, e in zip(self.K_, blk.flat()):
                    ents[p_] = e
                ents[self.RF_[0]] = rfsym
                blk = I.NDArr.new((n,), ents)
            else:
                ents = [[F.const(0)] * n for _ in range(n)]
                for i, p_ in enumerate(self.K_):
                    for j, q_ in enumerate(self.K_):
                        ents[p_][q_] = blk.item(i, j)
                ents[self.RF_[0]][self.RF_[0]] = rfsym
                blk = I.NDArr.new((n, n), [e for r in ents for e in r])
        if self.diag2d and self.unc:
            blk = I._np_diag(None, [blk], {})
        return blk

    # ---- the documented side
    def mul(self, X, y):
        return X * y if self.unc else X @ y

    def invA(self, x):
        if self.unc:
            return x / (self.A if x.ndim == 1 else self.A[:, None])
        return self.iA @ x

    def Nf(self, j):
        """N_j = sum_k inv(A) T_k z_k(d, j, h)"""
        if not self.nonlin:
            return 0
        tot = None
        for k in range(2):
            t = self.invA(self.terms.T[k] @ self.terms.z(k, j))
            tot = t if tot is None else tot + t
        return tot

    def prepare(self):
        """shapes of what tsolve returned, and the documented start-up quantities"""
        sol = self.sol
        if not isinstance(sol, I.Obj):
            return f"tsolve returned {_show(sol)}"
        self.d, self.v, self.a = (sol.attrs.get(x) for x in "dva")
        for nm, x in (("d", self.d), ("v", self.v), ("a", self.a)):
            if not isinstance(x, I.NDArr) or x.shape != (self.ntot, self.nt):
                return f"sol.{nm} is {_show(x)}: one row per equation and one column per time step expected"
        zero = I.NDArr.full((N,), F.const(0))
        self.u0 = self.d0[self.K_] if self.d0 is not None else zero
        self.w0 = self.v0[self.K_] if self.v0 is not None else zero
        du = self.docs.get("u_-1")      # the documented start-up displacement, read from the docstring: u_{-1} = u_0 - \dot{u}_0 h
        if du is not None:
            self.um1 = I.NDArr.new((N,), [du.subs({"u_0": x, "vu_0": y}) for x, y in zip(self.u0.flat(), self.w0.flat())])
        else:
            self.um1 = self.u0 - self.w0 * H
        self.fk = self.f[self.K_]
        self.F0 = self.mul(self.K, self.u0) + self.mul(self.B, self.w0)                 # F_0 := K u_0 + B v_0
        self.Fm1 = self.mul(self.K, self.um1) + self.mul(self.B, self.w0)               # F_-1 = K u_-1 + B v_0
        self.dk, self.vk, self.ak = self.d[self.K_], self.v[self.K_], self.a[self.K_]
        self.u1 = self.step(1, self.u0, self.um1)
        return None

    def Fcol(self, j):
        """force column j of the non-rf equations as the recurrence uses it (F_0 replaced, F_-1, linear extrapolation past the end)"""
        if j == -1:
            return self.Fm1
        if j == 0:
            return self.F0
        if j == self.nt:
            return 2 * self.Fcol(self.nt - 1) - self.Fcol(self.nt - 2)
        return self.fk[:, j]

    def step(self, j, prev, prev2):
        """A u_j = (F_j + F_j-1 + F_j-2)/3 + N_j-1 + A_1 u_j-1 + A_0 u_j-2"""
        return self.invA((self.Fcol(j) + self.Fcol(j - 1) + self.Fcol(j - 2)) / 3) + self.Nf(j - 1) + self.invA(self.mul(self.A1, prev)) + \
            self.invA(self.mul(self.A0, prev2))

    def De(self):
        """the displacement of the extra step as the code used it for the last velocity: V_last = (De - u_nt-2)/(2h)"""
        nt = self.nt
        return self.vk[:, nt - 1] * (2 * H) + self.dk[:, nt - 2]

    # ---- equality modulo iA A = I
    def eq(self, x, y):
        if _eq(x, y):
            return True
        if self.unc or self.special or not isinstance(x, I.NDArr) or not isinstance(y, I.NDArr) or x.shape != y.shape:
            return False
        # The two sides differ as polynomials in the entries of A and of iA (the symbols standing for inv(A)).  They are equal as functions iff
        # the difference vanishes modulo iA A = I.  Cheap proofs of a genuine difference first: on the systems with diagonal, then with upper
        # triangular A, inv(A) has monomial entries and the relation holds by substitution.  Else the exact test: iA = adj(A)/det(A).
        a = [[I.R(self.A.item(i, j)) for j in range(N)] for i in range(N)]
        if N != 2 or any(len(e.n.t) != 1 or not e.d.is_const() or e.is_const() for r_ in a for e in r_):
            inv = I.inverse(self.A)
            mp = {f"iA_{i}_{j}": inv.item(i, j) for i in range(N) for j in range(N)}
            return _eq(_subs_arr(x, mp), _subs_arr(y, mp))
        names = [[_sym_name(a[i][j]) for j in range(N)] for i in range(N)]
        diag = {names[0][1]: F.const(0), names[1][0]: F.const(0), "iA_0_0": 1 / a[0][0], "iA_1_1": 1 / a[1][1], "iA_0_1": F.const(0), "iA_1_0": F.const(0)}
        if not _eq(_subs_arr(x, diag), _subs_arr(y, diag)):
            return False
        tri = {names[1][0]: F.const(0), "iA_0_0": 1 / a[0][0], "iA_1_1": 1 / a[1][1], "iA_0_1": -a[0][1] / (a[0][0] * a[1][1]), "iA_1_0": F.const(0)}
        if not _eq(_subs_arr(x, tri), _subs_arr(y, tri)):
            return False
        det = a[0][0] * a[1][1] - a[0][1] * a[1][0]
        adj = {"iA_0_0": a[1][1], "iA_0_1": -a[0][1], "iA_1_0": -a[1][0], "iA_1_1": a[0][0]}
        ids = {F._intern(("s", nm)) for nm in adj}
        for ex, ey in zip(x.flat(), y.flat()):
            dn = (I.R(ex) - I.R(ey)).n                      # zero iff the entries are equal
            groups = {}
            for m, c in dn.t.items():
                groups.setdefault(sum(e for at, e in m if at in ids), {})[m] = c
            if not groups:
                continue
            top = max(groups)
            tot = F.const(0)
            for k_, terms in groups.items():               # a term of degree k in iA is (the same term in adj(A)) / det^k
                tot = tot + I.fast_subs(F.Rat(F.Poly(terms)), adj) * det ** (top - k_)
            if not tot.is_zero():
                return False
        return True

    # ---- facts: name -> (holds, detail)
    def facts(self):
        why = self.prepare()
        if why is not None:
            return {"shape": (False, why)}
        out = {"shape": (True, None)}
        nt, t, K_ = self.nt, self.terms, self.K_
        dk, vk, ak = self.dk, self.vk, self.ak
        if self.nonlin:
            c0 = [c for c in t.calls if c["j"] == 0]
            ok = {c["k"] for c in c0} == {0, 1} and len(c0) == 2 and self.n_def_calls == 0 and all(
                t.call_ok(c) and c["snap"].shape == (self.ntot, nt) and self.eq(c["snap"][K_, -1], self.um1) and self.eq(c["snap"][K_, 0], self.u0)
                for c in c0)
            out["nl0"] = (ok, None if ok else [(c["k"], c["j"], _show(c["snap"][:, -1] if c["snap"] is not None and c["snap"].ndim == 2 else c["snap"]))
                                               for c in t.calls[:4]])
            z = self.sol.attrs.get("z")
            self.z = z
            zok = isinstance(z, dict) and set(z) == set(t.keys) and all(isinstance(z[key], I.NDArr) and z[key].shape == (NZ, nt) for key in t.keys)
            ok = zok and all(_eq(z[key][:, 0], t.z(k_, 0)) for k_, key in enumerate(t.keys))
            out["z0"] = (ok, None if ok else _show(z))
        ok = self.eq(dk[:, 1], self.u1) and self.eq(dk[:, 0], self.u0)
        out["u1"] = (ok, None if ok else {"code": _show(dk[:, 1]), "documented": _show(self.u1)})
        want_a0 = (self.u1 - 2 * self.u0 + self.um1) / (H * H)
        ok = self.eq(ak[:, 0], want_a0) and self.eq(vk[:, 0], self.w0)
        out["a0"] = (ok, None if ok else _show(ak[:, 0]))
        bad = None
        for j in range(2, nt):
            want = self.step(j, dk[:, j - 1], dk[:, j - 2])
            if not self.eq(dk[:, j], want):
                bad = {"step": j, "code": _show(dk[:, j]), "documented": _show(want)}
                break
        out["f0"] = (bad is None or bad["step"] != 2, bad)
        out["rec"] = (bad is None, bad)
        want = self.step(nt, dk[:, nt - 1], dk[:, nt - 2])
        ok = self.eq(self.De(), want)
        out["extra"] = (ok, None if ok else {"code": _show(self.De()), "documented": _show(want)})
        h2, sqh = 2 * H, H * H
        out["vel"] = (all(self.eq(vk[:, i], (dk[:, i + 1] - dk[:, i - 1]) / h2) for i in range(1, nt - 1)) and self.eq(vk[:, 0], self.w0), None)
        out["acc"] = (all(self.eq(ak[:, i], (dk[:, i + 1] - 2 * dk[:, i] + dk[:, i - 1]) / sqh) for i in range(1, nt - 1)), None)
        out["last"] = (self.eq(ak[:, nt - 1], (self.De() - 2 * dk[:, nt - 1] + dk[:, nt - 2]) / sqh), None)
        tt = self.sol.attrs.get("t")
        out["time"] = (I.s_equal(self.sol.attrs.get("h"), H) and isinstance(tt, I.NDArr) and _eq(tt, I.NDArr.new((nt,), [H * i for i in range(nt)])), None)
        if self.rf:
            R_ = self.RF_
            ok = all(self.eq(self.d[R_, j] * self.krf, self.f[R_, j]) for j in range(nt))
            out["rf"] = (ok, None if ok else _show(self.d[R_]))
        if self.nonlin:
            later = [c for c in t.calls if c["j"] != 0]
            want = {(k_, j) for k_ in range(2) for j in range(1, nt)}
            got = [(c["k"], c["j"]) for c in later]
            ok = set(got) == want and len(got) == len(want) and all(
                t.call_ok(c) and c["snap"].ndim == 2 and c["snap"].shape[1] == nt and c["snap"].shape[0] in (N, self.ntot) and
                all(self.eq(c["snap"][(K_ if c["snap"].shape[0] == self.ntot else slice(None)), i], dk[:, i]) for i in range(c["j"] + 1)) for c in later)
            out["nlcalls"] = (ok, None if ok else got)
            ok = zok and all(_eq(z[key][:, j], t.z(k_, j)) for k_, key in enumerate(t.keys) for j in range(nt))
            out["zrec"] = (ok, None if ok else _show(z))
            ok = self.nonlin_terms == 2
            out["nterms"] = (ok, None if ok else _show(self.nonlin_terms))
        return out


_NM_CONFIGS = [
    # 4-step histories for the four arms; 3 steps (start-up, one regular step, the extra step) where only the variant matters and formulas are large
    ("unc-lin", dict(unc=UNC_F, nonlin=False)),
    ("unc-nl", dict(unc=UNC_F, nonlin=True)),
    ("cpl-lin", dict(unc=CPL, nonlin=False)),
    ("cpl-nl", dict(unc=CPL, nonlin=True)),
    ("unc-lin-noic", dict(unc=UNC_F, ic=False)),
    ("cpl-lin-v0", dict(unc=CPL, ic="v0", nt=3)),
    ("unc-lin-m0", dict(unc=UNC_F, m_none=True, nt=3)),         # identity mass: the constant 1/h^2 terms make longer histories expensive
    ("cpl-lin-m0", dict(unc=CPL, m_none=True, nt=3)),
    ("unc-lin-rft", dict(unc=UNC_F, rf="trailing")),
    ("cpl-lin-rft", dict(unc=CPL, rf="trailing", nt=3)),
    ("unc-nl-rfi", dict(unc=UNC_F, nonlin=True, rf="interleaved")),
    ("cpl-lin-rfi", dict(unc=CPL, rf="interleaved", nt=3)),
    ("unc-lin-2d", dict(unc=UNC_F, diag2d=True)),
    # index spaces (R6): the rf mode first, so that no partition starts at row 0
    ("unc-nl-rfl", dict(unc=UNC_F, nonlin=True, rf="leading")),
    ("cpl-lin-rfl", dict(unc=CPL, rf="leading", nt=3)),
]
_R6_KEYS = ("unc-nl-rfl", "cpl-lin-rfl")


def _newmark_runs(ctx):
    """every configuration evaluated once, shared by R1, R2, R3 (a configuration that cannot be evaluated is reported under each rule)"""
    where = ctx.src.func(NM, "SolveNewmark.tsolve")
    cache = getattr(ctx, "_c17_runs", None)
    if cache is not None:
        runs, problems = cache
        for o in problems:
            (ctx.fail if o.status == "fail" else ctx.error)(o.instance, o.where, o.detail)
        return where, runs
    docs, _ = documented_newmark(ctx)
    runs = {}
    n0 = len(ctx.obls)
    left = 900000           # all configurations together need 300 000 term products on the documented code
    for key, cfg in sorted(_NM_CONFIGS, key=lambda kc: not kc[1]["unc"]):       # the cheap (diagonal) configurations first: they are decided even when
        r = NewmarkRun(ctx, docs, **cfg)                                         # the formulas of a broken coupled arm use up the budget
        tag = f"SolveNewmark ({r.tag})"
        facts = None
        for attempt in (0, 1, 2):
            if left <= 0:
                ctx.error(f"{tag}: evaluation", where, "the work budget of the rule is used up (the formulas of the earlier configurations explode)")
                break
            # a configuration needs at most 70 000 term products on the documented code: three times that is "the formulas explode"
            I.work_reset(min(left, 100000 if (r.reduced and not r.special) else 200000))
            try:
                ok, why = _guard(ctx, tag, where, lambda: r.run().facts(), partial=True)
            finally:
                left -= I.WORK[0]
                I.work_reset()
            if ok == "toolarge":
                if r.nt <= 3 and (r.unc or r.special):
                    ctx.error(f"{tag}: evaluation", where, why)
                    break
                # the formulas outgrew the budget: decide on the shortest history that has a start-up step, one regular step and the extra step;
                # if that is still too much for a coupled system, on the coupled systems whose A is diagonal (a sub-family of the domain: a
                # contradiction found there is a contradiction; agreement there proves nothing and is reported as an analysis error)
                r = NewmarkRun(ctx, docs, **{**cfg, "nt": 3, "special": r.nt <= 3})
                r.reduced = True
                continue
            if ok:
                facts = why
                if r.special and all(v_[0] for v_ in facts.values()):
                    ctx.error(f"{tag}: evaluation", where, "the formulas outgrow the budget; the sub-family with a diagonal A agrees with the documentation, "
                                                           "which decides nothing for the general system")
                    facts = None
            break
        r.facts_ = facts
        runs[key] = r if facts is not None else None
        if facts is not None and not facts["shape"][0]:
            ctx.fail(f"{tag}: tsolve returns d, v, a with one row per equation and one column per time step", where, facts["shape"][1])
            runs[key] = None
    runs = {key: runs.get(key) for key, _cfg_ in _NM_CONFIGS}
    ctx._c17_runs = (runs, list(ctx.obls[n0:]))
    return where, runs


def _emit(ctx, r, name, text, where):
    ok, detail = r.facts_[name]
    ctx.check(ok, f"SolveNewmark ({r.tag}): {text}" + ((" [decided on a 3-step history" + (" of the coupled systems whose A is diagonal, released from unit initial conditions without force" if r.special else "") +
                                                         ": the formulas of the general case outgrow the budget]") if r.reduced else ""),
              where, None if ok else detail)


def _to_diag_map():
    """substitution that turns the coupled system into the uncoupled one of the same name (diagonal A, A_1, A_0, hence diagonal M, B, K)"""
    mp = {}
    for i in range(N):
        for j in range(N):
            for nm in ("a", "a1", "a0"):
                mp[f"{nm}_{i}_{j}"] = F.sym(f"{nm}_{i}") if i == j else F.const(0)
            mp[f"iA_{i}_{j}"] = 1 / F.sym(f"a_{i}") if i == j else F.const(0)
    return mp


def r1_four_branch_agreement(ctx):
    where, runs = _newmark_runs(ctx)
    for key, r in runs.items():
        if r is None or key in _R6_KEYS:
            continue
        nl = "+ N_j-1 " if r.nonlin else ""
        _emit(ctx, r, "rec", f"A u_j = (F_j + F_j-1 + F_j-2)/3 {nl}+ A_1 u_j-1 + A_0 u_j-2 for every step j >= 2 with the documented A, A_1, A_0 "
                             "(the documented recurrence, decided on the history tsolve returns)", where)
        _emit(ctx, r, "extra", "the extra step behind the last velocity is the recurrence with the force linearly extrapolated "
                               f"(F_nt = 2 F_nt-1 - F_nt-2){' and the nonlinear term of the last step' if r.nonlin else ''}", where)
    base = runs.get("unc-lin")
    for key in ("unc-nl", "cpl-lin", "cpl-nl"):
        r = runs.get(key)
        if r is None or base is None or r.reduced != base.reduced:
            continue
        mp = {} if r.unc else _to_diag_map()
        if r.nonlin:
            for k_ in range(2):
                for j in range(r.nt + 1):
                    for q in range(NZ):
                        mp[f"z{k_}_{j}_{q}"] = F.const(0)
        try:
            same = _eq(_subs_arr(r.d, mp), base.d) and _eq(_subs_arr(r.De(), mp), base.De())
        except Unsupported as e:
            ctx.error(f"tsolve: comparison of the {_cfg(r.unc, r.nonlin)} arm with the uncoupled linear arm", where, str(e))
            continue
        ctx.check(same, f"tsolve: the {_cfg(r.unc, r.nonlin)} history is the uncoupled linear history when the matrices are diagonal and the "
                        "nonlinear terms vanish (the four arms of the code agree)", where)


def _members(ctx, docs):
    """the members the constructor's docstring lists: nonlin_terms = 0 (documented value), and Ad / A1 / A0, "decomposed versions" of A, A_1, A_0
    (generic M, B, K: the LaTeX formulas themselves, not the parametrisation of the history runs).  What exactly the three arrays hold is a
    private contract between the constructor and tsolve - the history obligations of R1 / R2 decide the documented matrices whatever it is -
    so these are recorded as documentation consistency (nontrivial=False): agreement is noted, another representation is not an alarm"""
    where = ctx.src.func(NM, "SolveNewmark.__init__")
    for unc in (UNC_F, CPL):
        for m_none in (False, True):
            tag = f"SolveNewmark(m, b, k, h) ({'diagonal' if unc else 'full'} matrices, m {'None' if m_none else 'given'})"
            it = _interp(ctx)
            shape = (N,) if unc else (N, N)
            m, b, k = (I.NDArr.syms(x, shape) for x in "mbk")
            mm = (I.NDArr.full(shape, F.const(1)) if unc else I._np_eye(None, [N], {})) if m_none else m
            ok, me = _guard(ctx, tag, where, lambda: it.instantiate(it.cls(NM, "SolveNewmark"), None if m_none else m.copy(), b.copy(), k.copy(), H))
            if not ok:
                continue
            want = {key: I.NDArr.new(shape, [_doc_entry(docs[key], x, y, z) for x, y, z in zip(mm.flat(), b.flat(), k.flat())])
                    for key in ("A", "A_1", "A_0")}
            if unc and not m_none:
                ok = me.attrs.get("nonlin_terms") == 0
                ctx.check(ok, f"{tag}: a new solver has no nonlinear terms (nonlin_terms = 0)", where)
            Ad = me.attrs.get("Ad")
            Amat = Ad.mat if isinstance(Ad, I.LU) else Ad
            if isinstance(Amat, I.NDArr) and Amat.shape == shape:
                ok = _eq(Amat, want["A"])
                ctx.ok(f"{tag}: the member Ad " + (f"holds the documented A = {docs['A']}" + ("" if unc else " (factored)") if ok else
                                                   "is kept in a representation of its own; the documented A is decided on the history"), where, nontrivial=False)
            else:
                # the docstring only promises 'a decomposed version of A': another representation is decided by the history (R1)
                ctx.ok(f"{tag}: the member Ad is kept in a representation of its own; the documented A is decided on the history", where, nontrivial=False)
            for nm, key in (("A1", "A_1"), ("A0", "A_0")):
                v = me.attrs.get(nm)
                if not isinstance(v, I.NDArr) or v.shape != shape:
                    ctx.ok(f"{tag}: the member {nm} is kept in a representation of its own; the documented {key} is decided on the history", where,
                           nontrivial=False)
                    continue
                # A x = A_k decides x = inv(A) A_k without inverting on the checker's side; the documented A is used, not the code's
                L, sc = I.clear_denominators(want["A"].flat())
                As = I.NDArr.new(shape, sc)
                lhs = As * v if unc else As @ v
                ok = _eq(lhs, want[key] * L)
                ctx.ok(f"{tag}: the member {nm} " + (f"is inv(A) times the documented {key} = {docs[key]}" if ok else
                                                     f"is kept in a representation of its own; the documented {key} is decided on the history"), where, nontrivial=False)


def r2_code_equals_documentation(ctx):
    docs, doc = documented_newmark(ctx)
    _members(ctx, docs)
    # the comment block next to the formulas is a third sibling (documentation only: not behaviour, hence nontrivial=False)
    cls = ctx.src.cls(NM, "SolveNewmark")
    src = ctx.src.seg(cls)
    com = {}
    for nm in ("A", "A1", "A0"):
        m = re.search(r"#\s*" + nm + r"\s*=\s*(.+)", src)
        if m:
            txt = m.group(1).strip().replace("^", "**").replace(" M", "*M").replace(" B", "*B").replace(" K", "*K")
            try:
                e = Evaluator(env={"M": M_, "B": B_, "K": K_, "h": h})
                com[nm] = e.ev(ast.parse(txt, mode="eval").body)
            except SyntaxError:
                com[nm] = None
    for nm, key in (("A", "A"), ("A1", "A_1"), ("A0", "A_0")):
        v = com.get(nm)
        if v is None or is_unknown(v):
            ctx.note(f"comment formula for {nm} not parsed")
            continue
        ok = v.equals(docs[key])
        ctx.check(ok, f"SolveNewmark: the comment's formula for {nm} agrees with the class documentation", cls, None if ok else repr(v), nontrivial=False)
    # start-up step: u_-1 = u_0 - v_0 h ; F_-1 = K u_-1 + B v_0 ; F_0 := K u_0 + B v_0 ; A u_1 = (F_1 + F_0 + F_-1)/3 + N_0 + A_1 u_0 + A_0 u_-1
    where, runs = _newmark_runs(ctx)
    for key, r in runs.items():
        if r is None or key in _R6_KEYS:
            continue
        if r.nonlin:
            _emit(ctx, r, "nl0", "when the nonlinear functions are evaluated at j = 0 as func(d, 0, h, **optargs), column 0 of d is u_0 and the last "
                                 "column holds the documented u_-1 = u_0 - v_0 h (unconditionally: def_nonlin documents d[:, j-1] for j = 0)", where)
            _emit(ctx, r, "z0", "sol.z[key] has one column per time step and column 0 is the function output at j = 0", where)
        _emit(ctx, r, "u1", "the first step uses F_0 := K u_0 + B v_0, F_-1 = K u_-1 + B v_0, u_-1 = u_0 - v_0 h and the start-up nonlinear term N_0 "
                            "in the documented recurrence; column 0 is u_0 (zero when no initial displacement is given)", where)
        _emit(ctx, r, "a0", "the initial acceleration is the central difference (u_1 - 2 u_0 + u_-1)/h^2 and the initial velocity is v_0", where)
        _emit(ctx, r, "f0", "the second step uses the replaced F_0 = K u_0 + B v_0 and the 1/3 average of three forces pre-multiplied by inv(A)", where)
        if r.rf:
            _emit(ctx, r, "rf", "the rf equations are solved statically, K_rf d_rf = F_rf at every step, initial conditions ignored", where)


def r3_differences(ctx):
    where, runs = _newmark_runs(ctx)
    live = {k: r for k, r in runs.items() if r is not None and k not in _R6_KEYS}
    if not live:
        return
    for name, text in (("vel", "interior velocities are the documented central difference (u_n+1 - u_n-1)/(2h) and the initial velocity is kept"),
                       ("acc", "interior accelerations are the documented central difference (u_n+1 - 2 u_n + u_n-1)/h^2"),
                       ("last", "the last velocity and acceleration use the same extrapolated step in the documented differences"),
                       ("time", "the returned record carries the time step h and the time vector t = h * arange(nt)")):
        bad = [r.tag for r in live.values() if not r.facts_[name][0]]
        ctx.check(not bad, f"tsolve: {text}", where, bad or None)
    for key, r in live.items():
        if not r.nonlin:
            continue
        _emit(ctx, r, "nlcalls", "every nonlinear function is evaluated once per step j = 1 .. nt-1 as func(D, j, h, **optargs) on the final "
                                 "displacements of steps 0 .. j (its force feeds step j+1; that of step nt-1 feeds the extra step)", where)
        _emit(ctx, r, "zrec", "the output of every nonlinear function at step j is recorded in column j of sol.z[key]", where)
        _emit(ctx, r, "nterms", "def_nonlin calls no user function, counts the terms in nonlin_terms, and every later call gets the term's own optional "
                                "arguments (none for a 2-tuple); the transforms act through inv(A) like every other right-hand-side term", where)


# ---------------------------------------------------------------------------
def _forwarding(ctx, it, cdf, unc_cls, name):
    """SolveCDF.<name> evaluated with SolveUnc.<name> replaced by a recorder: {parameter of SolveUnc.<name>: value}, token returned, effects"""
    c, node = cdf.find(it, name)
    uc, unode = unc_cls.find(it, name)
    if node is None or unode is None:
        raise AnchorError(f"SolveCDF.{name} / SolveUnc.{name}")
    ufunc = it.make_func(unode, uc.module, None, uc)
    params = [a.arg for a in node.args.posonlyargs + node.args.args][1:]
    nreq = len(params) - len(node.args.defaults)
    out = []
    for given in (params, params[:nreq]):
        toks = {p_: I.Opaque("arg:" + p_) for p_ in given}
        ret = I.Opaque("result of SolveUnc." + name)
        rec = {}

        def recorder(it_, args, kwargs, rec=rec, ret=ret):
            rec["n"] = rec.get("n", 0) + 1
            rec["env"] = it.bind(ufunc, [None] + list(args), kwargs)
            return ret
        me = I.Obj(cdf, "self")
        me.overrides["SolveUnc." + name] = recorder
        n0 = len(it.calls)
        res = it.call_method(me, name, **toks)
        others = [c_ for c_ in it.calls[n0:] if c_[1] not in ("SolveUnc." + name, "def:" + name)]
        dflt = it.bind(ufunc, [None] + [I.Opaque("x")] * (len(unode.args.args) - 1 - len(unode.args.defaults)), {})
        out.append({"toks": toks, "rec": rec, "res": res, "ret": ret, "clean": not me.attr_log and not others, "defaults": dflt})
    return out


def _plain_equal(a, b):
    if isinstance(a, I.Rat) or isinstance(b, I.Rat):
        return I.s_equal(a, b)
    return type(a) is type(b) and a == b


# ---------------------------------------------------------------------------
# SolveCDF / SolveUnc(cd_as_force=True), also through the public interface: constructor -> tsolve / generator -> finalize.  The integration
# coefficients come from pyyeti.ode.get_su_coef, a public function with a documented result (F, G, A, B, Fp, Gp, Ap, Bp: C15/C16 territory): its
# result is *named* (one symbol per coefficient and equation), its arguments are recorded.
_COEFS = ("F", "G", "A", "B", "Fp", "Gp", "Ap", "Bp")


def _cdf_interp(ctx):
    log = []

    def su_coef(it_, args, kwargs):
        fn = ctx.src.func("pyyeti/ode/_utilities.py", "get_su_coef")
        names = [a.arg for a in fn.args.args]
        env = dict(zip(names, args))
        env.update(kwargs)
        kk = env.get("k")
        n = kk.shape[0] if isinstance(kk, I.NDArr) and kk.ndim == 1 else None
        if n is None:
            raise I.PyRaise("ValueError", "get_su_coef: m, b, k must be vectors")
        pc = I.Obj(None, "pc", **{c: vec("c" + c, n) for c in _COEFS})
        for nm in ("pvrb", "pvrb_damped"):            # the documented result has exactly these members: no (damped) rigid-body mode
            pc.attrs[nm] = I.NDArr.full((n,), False)
            pc.attrs[nm].kind = "bool"
        pc.complete = True
        log.append({"env": env, "pc": pc})
        return pc

    def su_eig(it_, args, kwargs):
        return I.Opaque("result of get_su_eig")

    it = _interp(ctx, stubs={"pyyeti.ode._utilities.get_su_coef": su_coef, "get_su_coef": su_coef})
    it.overrides["SolveUnc.get_su_eig"] = su_eig        # the eigen-solution of coupled systems is another property's subject
    it.su_log = log
    return it


def _diag_of(b):
    return I._np_diag(None, [b], {}) if b.ndim == 2 else b


def _offdiag_of(b):
    n = b.shape[0]
    return I.NDArr.new((n, n), [F.const(0) if i == j else b.item(i, j) for i in range(n) for j in range(n)])


def _same_value(x, y, depth=0):
    if isinstance(x, I.NDArr) or isinstance(y, I.NDArr):
        return _eq(x, y)
    if isinstance(x, I.Obj) and isinstance(y, I.Obj) and depth < 2:
        return set(x.attrs) == set(y.attrs) and all(_same_value(x.attrs[q], y.attrs[q], depth + 1) for q in x.attrs)
    if isinstance(x, I.LU) and isinstance(y, I.LU):
        return _eq(x.mat, y.mat)
    if isinstance(x, (I.Rat, int)) and isinstance(y, (I.Rat, int)) and not isinstance(x, bool) and not isinstance(y, bool):
        return I.s_equal(x, y)
    if isinstance(x, I.Opaque) and isinstance(y, I.Opaque):
        return x.name == y.name
    return type(x) is type(y) and x == y


def _documented_members(ctx):
    """names of the first column of the member table in SolveUnc.__init__'s docstring (what `identical to SolveUnc` can be held to)"""
    doc = ast.get_docstring(ctx.src.func(UNC, "SolveUnc.__init__"), clean=True) or ""
    names, rules_seen = set(), 0
    for line in doc.splitlines():
        if re.match(r"\s*=+\s+=+\s*$", line):
            rules_seen += 1          # rule above the header, rule below the header, rule below the body
            continue
        m = re.match(r"\s*([A-Za-z_]\w*)\s{2,}\S", line)
        if rules_seen == 2 and m:
            names.add(m.group(1))
    if len(names) < 10:
        raise AnchorError("member table of SolveUnc.__init__'s docstring")
    return names


def _diag_damping_case(ctx, where, tag, m, b, k, with_generator, order=1, rf=None):
    """SolveCDF(m, b, k, h) against SolveUnc(m, b, k, h) on diagonal damping: members, tsolve, generator + finalize, executed functions"""
    nt = 3
    res = {}
    n = b.shape[0]
    for cname, rel in (("SolveCDF", CDF), ("SolveUnc", UNC)):
        it = _cdf_interp(ctx)
        f, d0, v0 = mat("f", n, nt), vec("d0", n), vec("v0", n)

        def go(it=it, cname=cname, rel=rel, f=f, d0=d0, v0=v0):
            kw = {"rf": list(rf)} if rf else {}
            obj = it.instantiate(it.cls(rel, cname), m.copy(), b.copy(), k.copy(), H, order=order, **kw)
            mem = dict(obj.attrs)
            if mem.get("unc") is not True or mem.get("cdforces") is not False:
                return {"obj": obj, "members": mem, "early": True}          # all matrices are diagonal: `unc` is documented to be True
            sol = it.call_method(obj, "tsolve", f.copy(), d0.copy(), v0.copy())
            out = {"obj": obj, "members": mem, "sol": sol}
            if with_generator:
                got = it.call_method(obj, "generator", nt, f[:, 0].copy(), d0.copy(), v0.copy())
                gen = got[0] if isinstance(got, tuple) and got else None
                if not isinstance(gen, I.PyIter) or not isinstance(gen.it, I.GenDriver):
                    raise I.PyRaise("TypeError", f"generator() returned {_show(got)}")
                for i in range(1, nt):
                    I._gen_send(gen.it, (i, f[:, i].copy()))
                out["gsol"] = it.call_method(obj, "finalize")
            return out
        ok, r = _guard(ctx, f"{tag}: {cname}", where, go)
        if not ok:
            return None
        res[cname] = r
    c, u = res["SolveCDF"], res["SolveUnc"]
    bad = []
    if c.get("early") or u.get("early"):
        return [f"{x}: unc={r['members'].get('unc')!r}, cdforces={r['members'].get('cdforces')!r} for all-diagonal matrices" for x, r in res.items() if r.get("early")]
    if c["members"].get("cdforces") is not False or "bo" in c["members"] or c["members"].get("unc") is not True:
        bad.append(f"cdforces={c['members'].get('cdforces')!r}")
    keys = ((set(c["members"]) | set(u["members"])) & _documented_members(ctx)) - {"mid", "bid", "kid"}          # mid, bid, kid: id()s of the caller's arrays
    diff = sorted(q for q in keys if q not in c["members"] or q not in u["members"] or not _same_value(c["members"][q], u["members"][q]))
    if diff:
        bad.append(f"members differ: {diff}")
    for what in ("sol",) + (("gsol",) if with_generator else ()):
        if not (isinstance(c[what], I.Obj) and isinstance(u[what], I.Obj) and all(_eq(c[what].attrs.get(q), u[what].attrs.get(q)) for q in "dva")):
            bad.append(f"{'tsolve' if what == 'sol' else 'generator/finalize'} histories differ")
    return bad


def r4_cdf_equals_unc_on_diagonal(ctx):
    where = ctx.src.cls(CDF, "SolveCDF")
    dv = lambda nm, n=N: vec(nm, n)
    dm = lambda nm, n=N: I._np_diag(None, [vec(nm, n)], {})
    fm = lambda nm: mat(nm, N, N)
    bad_members, bad_paths, okrun = [], [], True
    # damping / mass and stiffness as vector or diagonal matrix; order 1 and 0; generator where it exists; an rf mode last and in the middle
    for nm, mk, mk_mk, order, rf, gen in (("vector", dv, dv, 1, None, True), ("vector", dv, dm, 0, None, True),
                                          ("diagonal matrix", dm, dv, 1, [2], False), ("diagonal matrix", dm, dm, 0, [1], False)):
        n = N + (1 if rf else 0)
        tag = f"diagonal damping given as {nm}, order {order}" + (f", rf mode {rf[0]}" if rf else "")
        bad = _diag_damping_case(ctx, where, tag, mk_mk("m", n), mk("b", n), mk_mk("k", n), with_generator=gen, order=order, rf=rf)
        if bad is None:
            okrun = False
            continue
        bad_members += [f"{tag}: {x}" for x in bad if "histories" not in x]
        bad_paths += [f"{tag}: {x}" for x in bad if "histories" in x]
    if okrun:
        ctx.check(not bad_members, "with diagonal damping (vector or diagonal matrix, orders 0 and 1, rf modes) SolveCDF(m, b, k, h) has the documented "
                                   "members of SolveUnc(m, b, k, h) with the same values, cdforces stays False and there is no bo", where, bad_members or None)
        ctx.check(not bad_paths, "with diagonal damping tsolve and generator + finalize of SolveCDF run (no damping-as-force state is needed when cdforces is "
                                 "False) and return exactly the histories of SolveUnc", where, bad_paths or None)
    # coupled damping on otherwise diagonal equations
    b = fm("b")
    it = _cdf_interp(ctx)
    ok, on = _guard(ctx, "SolveCDF (coupled damping)", where, lambda: it.instantiate(it.cls(CDF, "SolveCDF"), dv("m"), b.copy(), dm("k"), H))
    if ok:
        bo = on.attrs.get("bo")
        env = it.su_log[-1]["env"] if it.su_log else {}
        ok = on.attrs.get("cdforces") is True and on.attrs.get("unc") is True and _eq(on.attrs.get("b"), _diag_of(b)) and \
            isinstance(bo, I.NDArr) and _eq(bo, _offdiag_of(b)) and len(it.su_log) == 1 and _eq(env.get("b"), _diag_of(b)) and \
            _eq(env.get("m"), dv("m")) and _eq(env.get("k"), dv("k")) and I.s_equal(env.get("h"), H)
        ctx.check(ok, "with coupled damping on otherwise diagonal equations SolveCDF sets cdforces, keeps the diagonal of the damping as b (the damping "
                      "get_su_coef gets) and its off-diagonal part as bo (the C_od of the documented recurrence)", where, None if ok else _show(bo))
    outs = []
    for tag, cname, rel, args, kw in (("SolveUnc, coupled damping, no cd_as_force", "SolveUnc", UNC, (dv("m"), fm("b"), dm("k")), {}),
                                      ("SolveCDF, coupled damping and stiffness", "SolveCDF", CDF, (dv("m"), fm("b"), fm("k")), {}),
                                      ("SolveCDF, coupled damping and mass", "SolveCDF", CDF, (fm("m"), fm("b"), dv("k")), {})):
        it = _cdf_interp(ctx)
        ok, x = _guard(ctx, tag, where, lambda: it.instantiate(it.cls(rel, cname), *args, H, rb=[], **kw))
        outs.append(x if ok else None)
    if all(x is not None for x in outs):
        ok = all(x.attrs.get("cdforces") is False and x.attrs.get("unc") is False and "bo" not in x.attrs for x in outs)
        ctx.check(ok, "a system that is not fully uncoupled (or did not ask for cd_as_force) has cdforces False", where,
                  None if ok else [(x.attrs.get("cdforces"), x.attrs.get("unc")) for x in outs])
    it = I.Interp(ctx)
    cdf, unc_cls = it.cls(CDF, "SolveCDF"), it.cls(UNC, "SolveUnc")
    for name in ("__init__", "generator", "fsolve"):
        c = ctx.src.func(CDF, f"SolveCDF.{name}") if ctx.src.has_func(CDF, f"SolveCDF.{name}") else ctx.src.cls(CDF, "SolveCDF")
        tag = f"SolveCDF.{name}"
        ok, res = _guard(ctx, tag, c, lambda: _forwarding(ctx, it, cdf, unc_cls, name))
        if not ok:
            continue
        good = True
        for r in res:
            env = r["rec"].get("env")
            good = good and env is not None and r["rec"].get("n") == 1 and r["clean"]
            if not good:
                break
            for p_, v in env.items():
                if p_ == "self":
                    continue
                if p_ in r["toks"]:
                    good = good and v is r["toks"][p_]
                elif p_ == "cd_as_force" and name == "__init__":
                    good = good and v is True
                else:
                    good = good and p_ in r["defaults"] and _plain_equal(v, r["defaults"][p_])
            if name != "__init__":
                good = good and r["res"] is r["ret"]
        what = "is SolveUnc.__init__ with cd_as_force=True and nothing else" if name == "__init__" else "only delegates to SolveUnc"
        ctx.check(good, f"{tag} {what} (every argument, given or defaulted, reaches the parameter of the same name)", c)


# ---------------------------------------------------------------------------
def r5_implicit_update(ctx):
    """V1 = v_part - Bp alpha v_part solves V1 = Fp d + Gp v + Ap (f0 - bo v0) + Bp (f1 - bo V1), alpha = bo (I + Bp bo)^-1"""
    where = ctx.src.cls(CDF, "SolveCDF")
    # the member pc.alpha (SolveCDF's docstring: alpha = C_od (I + Bp C_od)^-1), when it is kept as a matrix
    for n, what in ((2, "a generic 2-dof system"), (3, "a generic 3-dof system")):
        tag = f"SolveCDF(m, b, k, h) ({what})"
        it = _cdf_interp(ctx)
        b = mat("b", n, n)
        ok, me = _guard(ctx, tag, where, lambda: it.instantiate(it.cls(CDF, "SolveCDF"), vec("m", n), b.copy(), vec("k", n), H))
        if not ok:
            continue
        got = me.attrs.get("pc")
        alpha = got.attrs.get("alpha") if isinstance(got, I.Obj) else None
        if not isinstance(alpha, I.NDArr) or alpha.shape != (n, n) or not it.su_log:
            ctx.ok(f"{tag}: the implicit-update matrix is kept in a representation of its own; it is decided on the history", where, nontrivial=False)
            continue
        # X (I + diag(Bp) C_od) = C_od  decides  X = C_od (I + diag(Bp) C_od)^-1 : a right division, with Bp scaling the ROWS of C_od
        bo = _offdiag_of(b)
        lhs = alpha @ (I._np_eye(None, [n], {}) + I._np_diag(None, [it.su_log[-1]["pc"].attrs["Bp"]], {}) @ bo)
        ok = _eq(lhs, bo)
        ctx.check(ok, f"{tag}: alpha (I + diag(Bp) C_od) = C_od, i.e. alpha = C_od (I + Bp C_od)^-1 with the documented order of the matrix "
                      "products", where, None if ok else _show(alpha))
    nt = 3
    for order, rf in ((1, None), (0, "interleaved")):
        tag = f"SolveCDF.tsolve (order {order}, {'one rf mode between the others: index-vector partitions' if rf else 'slice partitions'})"
        ntot = N + (1 if rf else 0)
        K_, RF_ = ([0, 2], [1]) if rf else ([0, 1], [])
        it = _cdf_interp(ctx)
        bk = mat("b")                                # the damping of the non-rf equations: full
        m, k = vec("m", ntot), vec("k", ntot)
        if rf:
            ents = [[F.const(0)] * ntot for _ in range(ntot)]
            for i, p_ in enumerate(K_):
                for j, q_ in enumerate(K_):
                    ents[p_][q_] = bk.item(i, j)
            ents[RF_[0]][RF_[0]] = F.sym("brf")
            b = I.NDArr.new((ntot, ntot), [e for r in ents for e in r])
        else:
            b = bk
        f, d0, v0 = mat("f", ntot, nt), vec("d0", ntot), vec("v0", ntot)

        def go(it=it, m=m, b=b, k=k, f=f, d0=d0, v0=v0, order=order, rf=rf, RF_=RF_):
            kw = {"rf": list(RF_)} if rf else {}
            obj = it.instantiate(it.cls(CDF, "SolveCDF"), m.copy(), b.copy(), k.copy(), H, order=order, **kw)
            return obj, it.call_method(obj, "tsolve", f.copy(), d0.copy(), v0.copy())
        ok, res = _guard(ctx, tag, where, go, partial=True)
        if ok == "toolarge":
            nt2 = 2                                   # decide on one step

            def go2(it=_cdf_interp(ctx)):
                kw = {"rf": list(RF_)} if rf else {}
                obj = it.instantiate(it.cls(CDF, "SolveCDF"), m.copy(), b.copy(), k.copy(), H, order=order, **kw)
                go2.it = it
                return obj, it.call_method(obj, "tsolve", f[:, :nt2].copy(), d0.copy(), v0.copy())
            ok, res = _guard(ctx, tag, where, go2)
            if ok:
                it = go2.it
        if not ok:
            continue
        obj, sol = res
        d, v = (sol.attrs.get(x) for x in "dv") if isinstance(sol, I.Obj) else (None, None)
        steps = (d.shape[1] - 1) if isinstance(d, I.NDArr) and d.ndim == 2 else 0
        if not (isinstance(d, I.NDArr) and isinstance(v, I.NDArr) and d.shape == v.shape and d.shape[0] == ntot and steps >= 1 and len(it.su_log) == 1):
            ctx.fail(f"{tag}: tsolve returns d, v with one row per equation and one column per time step", where, _show(d))
            continue
        c = it.su_log[0]["pc"].attrs
        env = it.su_log[0]["env"]
        bo = _offdiag_of(bk)
        ok = _eq(env.get("b"), _diag_of(bk)) and _eq(env.get("m"), m[K_]) and _eq(env.get("k"), k[K_]) and I.s_equal(env.get("h"), H)
        ctx.check(ok, f"{tag}: the integration coefficients are those of the diagonal part of the non-rf equations, get_su_coef(m, diag(b), k, h)", where)
        dk, vk, fk = d[K_], v[K_], f[K_]
        good_v = good_d = True
        try:
            for i in range(steps):
                di, vi, V1, D1 = dk[:, i], vk[:, i], vk[:, i + 1], dk[:, i + 1]
                f0 = fk[:, i]
                f1 = fk[:, i + 1] if order == 1 else fk[:, i]
                rhs_v = c["Fp"] * di + c["Gp"] * vi + c["Ap"] * (f0 - bo @ vi) + c["Bp"] * (f1 - bo @ V1)
                rhs_d = c["F"] * di + c["G"] * vi + c["A"] * (f0 - bo @ vi) + c["B"] * (f1 - bo @ V1)
                if i == 0:
                    ok = _eq(V1, rhs_v) and _eq(vk[:, 0], v0[K_])
                    ctx.check(ok, f"{tag}: the velocity update solves the documented implicit equation V1 = Fp d + Gp v + Ap (f0 - C_od v0) + "
                                  "Bp (f1 - C_od V1), starting from the given v0", where, None if ok else _show(V1))
                    ok = _eq(D1, rhs_d) and _eq(dk[:, 0], d0[K_])
                    ctx.check(ok, f"{tag}: the displacement update is D1 = F d + G v + A (f0 - C_od v0) + B (f1 - C_od V1), starting from the given d0",
                              where, None if ok else _show(D1))
                else:
                    good_v = good_v and _eq(V1, rhs_v)
                    good_d = good_d and _eq(D1, rhs_d)
        except I.TooLarge as e:
            ctx.error(f"{tag}: evaluation", where, str(e))
            continue
        if steps < 2:
            if all(o.status == "ok" for o in ctx.obls[-2:]):
                ctx.error(f"{tag}: evaluation", where, "only one step could be decided within the formula budget")
            continue
        if rf:
            good_d = good_d and all(_eq(d[RF_, j] * k[RF_], f[RF_, j]) for j in range(nt))
        acc = sol.attrs.get("a")
        ok = isinstance(acc, I.NDArr) and acc.shape == d.shape and all(
            _eq(m[K_] * acc[K_, j], fk[:, j] - bk @ vk[:, j] - k[K_] * dk[:, j]) for j in range(d.shape[1]))
        ctx.check(ok, f"{tag}: the returned acceleration balances M a = F - B v - K d with the full damping B = diag + C_od at every step", where,
                  None if ok else _show(acc))
        ctx.check(good_v and good_d, f"{tag}: the next step starts from the stored displacement and velocity and the damping force carried over is C_od V1 "
                                     "(the same equations hold for the second step)" + ("; the rf equation is solved statically" if rf else ""), where)


_R6_TEXT = {
    "nl0": "at j = 0 the nonlinear functions see u_0 in column 0 and u_-1 in the last column of the rows of the non-rf equations",
    "z0": "sol.z[key] has one column per time step and column 0 is the function output at j = 0",
    "u1": "the first step lands in the rows of the non-rf equations and uses their initial conditions, forces and matrices",
    "a0": "the initial acceleration and velocity land in the rows of the non-rf equations",
    "f0": "the second step uses the forces of the non-rf rows",
    "rec": "every later step does",
    "extra": "so does the extra step behind the last velocity",
    "vel": "interior velocities are differences of the same rows",
    "acc": "interior accelerations are differences of the same rows",
    "last": "the last acceleration is a difference of the same rows",
    "rf": "the rf row holds the static solution K_rf d_rf = F_rf of the rf equation",
    "nlcalls": "the nonlinear functions see the displacements of the non-rf equations at every step",
    "zrec": "their outputs are recorded per step",
}


def r6_typing(ctx):
    """index spaces: full / non-rf / rf.  (a) on values: with the rf mode FIRST no partition starts at row 0, so a row taken with the wrong
    partition (or with none) lands on another equation; (b) the shared index-space typer over every function of the file, whatever the
    class calls its helpers (its findings are reported; its instance count depends on the spelling, the floor is carried by (a))"""
    where, runs = _newmark_runs(ctx)
    for key in _R6_KEYS:
        r = runs.get(key)
        if r is None:
            continue
        for name, text in _R6_TEXT.items():
            if name in r.facts_:
                _emit(ctx, r, name, text, where)
    U = O.mode_U()
    U.update({"self.A0": O.Arr("K", "K"), "self.A1": O.Arr("K", "K"), "self.Ad": O.Arr("K", "K")})
    for q in sorted(ctx.src.mod(NM).funcs):
        # the typer reads the space of a parameter off its NAME (force, d0, v0 are full-size): that is a contract for the public methods (the
        # names are part of the call interface) and for the two start-up methods that take the same arguments unchanged; a private helper is
        # free to call a non-rf partition `d0`, so helpers are not typed (they are covered by the values of (a))
        name = q.rsplit(".", 1)[-1]
        if "#" in q or q.count(".") != 1 or not q.startswith("SolveNewmark.") or (name.startswith("_") and name not in ("__init__", "_init_dva", "_newmark_precalcs")):
            continue
        try:
            O.type_function(ctx, NM, q, U, "Newmark", rule="C17-R6")
        except (AnchorError, Unsupported) as e:
            ctx.note(f"index-space typer: {q}: {e}")


RULES = [
    ("C17-R1", r1_four_branch_agreement, 29),
    ("C17-R2", r2_code_equals_documentation, 60),     # 63 with the three comment formulas (documentation only: they may be dropped)
    ("C17-R3", r3_differences, 13),
    ("C17-R4", r4_cdf_equals_unc_on_diagonal, 7),
    ("C17-R5", r5_implicit_update, 12),
    ("C17-R6", r6_typing, 22),                        # the value obligations of the two leading-rf runs; the typer's count depends on the spelling
]
LEVEL = "other"
EXPLANATION = ("Static: the source of SolveNewmark and of SolveCDF / SolveUnc(cd_as_force) is interpreted from the public entry points (constructor, "
               "def_nonlin, tsolve, generator, finalize) on a 2-dof (+1 rf mode), 3-4 step system with symbolic entries (explicit matrices, so the order of "
               "matrix products counts) in every configuration the code distinguishes. The history tsolve returns is the documented recurrence with A, "
               "A_1, A_0 parsed from the class docstring's LaTeX: start-up with the documented u_-1 (stored for the nonlinear functions unconditionally), "
               "F_-1 and replaced F_0, every later step in all configurations, the last velocity/acceleration from the recurrence with the linearly "
               "extrapolated force, velocities/accelerations as the documented differences, nonlinear functions called once per step on the final history "
               "of steps 0..j with their own optional arguments, rf equations solved statically; with diagonal damping SolveCDF has the members, "
               "histories (tsolve and generator) and executed functions of SolveUnc; with coupled damping two steps of SolveCDF.tsolve satisfy the "
               "documented implicit equations with C_od the off-diagonal damping and the coefficients of get_su_coef(m, diag(b), k, h).")
MANIFEST = {
    "text": "Partial claim decided statically on values observed at the public interface (abstract interpretation of the source from the constructor to the "
            "returned solution on a small symbolic system): (R1) the documented recurrence A u_j = (F_j + F_j-1 + F_j-2)/3 + N_j-1 + A_1 u_j-1 + A_0 u_j-2 at "
            "every step j >= 2 of the returned history in 13 configurations, last-step extrapolation, agreement of the four arms; (R2) code == documentation: "
            "members A1 / A0 / Ad (when kept as arrays) against the LaTeX formulas for diagonal and full matrices, m None/given; start-up u_-1 / F_-1 / F_0 / "
            "N_0, the 1/3 force average through inv(A), zero default initial conditions, static rf solution; (R3) central differences, nonlinear term "
            "placement, call convention and recording, def_nonlin; (R4) SolveCDF == SolveUnc on diagonal damping (members, tsolve, generator + finalize, "
            "executed functions; orders 0/1, rf modes), cdforces / bo / b on coupled damping, argument forwarding; (R5) alpha = C_od (I + Bp C_od)^-1 with the "
            "order of the products (when kept as a matrix), and the implicit V1, D1 equations over two steps of SolveCDF.tsolve for order 1 and 0; (R6) index "
            "spaces on values (rf mode first, so that no partition starts at row 0) plus the shared index-space typer on the public methods. "
            "Not decided: order of convergence, boundedness, massless-DOF behaviour numerically; the cdforces generator under coupled damping.",
    "note": "Trusted: CPython ast; verifier/e2_formula.py (exact rational functions); verifier/c17_interp.py (interpreter for the Python subset the solvers "
            "and their base class use - classes, properties, closures, generators (run one yield at a time), lazy iterators - and a model of the numpy/scipy "
            "subset: basic / advanced / mask indexing with view semantics, broadcasting, matmul, transpose/swapaxes, ix_, nonzero, solve, lu_factor/lu_solve); "
            "the LaTeX subset reader in verifier/c17.py. Assumed: h != 0; ytools.isdiag decides diagonality; get_su_coef returns its documented record "
            "(coefficients named, not computed); stiffness entries are not numerically zero (no rigid-body modes in the symbolic system).",
    "technique": "abstract interpretation of the solver source from its public entry points over concrete shapes and symbolic entries, compared with formulas "
                 "parsed from the docstring's LaTeX and an independent transcription of the documented recurrences; the system is named by its documented "
                 "A, A_1, A_0 (a bijective re-parametrisation of M, B, K for h != 0) and inv(A) is kept as a matrix of symbols with exact equality modulo "
                 "inv(A) A = I",
}
