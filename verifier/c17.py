"""C17 -- Newmark-Beta and coupled-damping-as-force recurrences (partial claim).

Every rule decides on *values*: the solver source is interpreted (verifier/c17_interp.py; nothing of /repo is imported or run) on a small
system with symbolic entries - 2 degrees of freedom, 5 time steps, explicit matrices, two opaque nonlinear terms - in every configuration
the code distinguishes (diagonal / full matrices, with / without nonlinear terms, m None / given, order 0 / 1, rf modes) and the resulting
arrays, attributes and recorded calls are compared with an independent transcription of the documented recurrences.  The spelling of the
source (names, temporaries, polarity of tests, kind of loop, helper functions, import aliases, views, index style) does not enter."""
from __future__ import annotations

import ast
import re

from . import c17_interp as I
from . import e2_formula as F
from . import ode_spaces as O
from .core import AnchorError, Unsupported
from .e1_srcmodel import dotted, walk_no_nested, ancestors
from .e2_eval import Evaluator, is_unknown, need

NM, UNC, BASE = O.NM, O.UNC, O.BASE
CDF = "pyyeti/ode/solvecdf.py"

M_, B_, K_, h = F.sym("M"), F.sym("B"), F.sym("K"), F.sym("h")


# ---------------------------------------------------------------------------
# a small reader for the RST/LaTeX formulas of the class docstring
def _latex_expr(s):
    """\\frac{a}{b}, juxtaposition products, + -, ^n, single-letter symbols with optional subscripts -> Rat"""
    s = s.replace("\\left", "").replace("\\right", "").replace("&", "").replace("\\\\", "").replace("\\,", " ")
    pos = 0

    def peek():
        nonlocal pos
        while pos < len(s) and s[pos].isspace():
            pos += 1
        return s[pos] if pos < len(s) else ""

    def group():
        nonlocal pos
        assert peek() == "{", f"expected {{ at {pos} in {s!r}"
        pos += 1
        v = expr()
        assert peek() == "}", f"expected }} at {pos} in {s!r}"
        pos += 1
        return v

    def atom():
        nonlocal pos
        c = peek()
        if c == "\\":
            m = re.match(r"\\(frac|dot|ddot)", s[pos:])
            if not m:
                raise Unsupported(f"latex command at {s[pos:pos + 10]!r}")
            pos += len(m.group(0))
            if m.group(1) == "frac":
                a = group()
                b = group()
                return a / b
            inner = group()
            sub_ = re.match(r"_\{[^}]*\}|_[A-Za-z0-9]", s[pos:])
            suffix = ""
            if sub_:
                pos += len(sub_.group(0))
                suffix = sub_.group(0).replace("{", "").replace("}", "")
            return F.sym(("v" if m.group(1) == "dot" else "a") + repr(inner) + suffix)
        if c in "([":
            pos += 1
            v = expr()
            assert peek() in ")]"
            pos += 1
            return v
        if c == "{":
            return group()
        m = re.match(r"\d+", s[pos:])
        if m:
            pos += len(m.group(0))
            return F.const(int(m.group(0)))
        m = re.match(r"[A-Za-z](_\{[^}]*\}|_[A-Za-z0-9])?", s[pos:])
        if m:
            pos += len(m.group(0))
            return F.sym(m.group(0).replace("{", "").replace("}", ""))
        raise Unsupported(f"latex atom at {s[pos:pos + 10]!r}")

    def power():
        nonlocal pos
        v = atom()
        if peek() == "^":
            pos += 1
            if peek() == "{":
                e = group()
            else:
                e = atom()
            v = v ** int(need(e).const_value())
        return v

    def term():
        v = None
        neg = False
        while True:
            c = peek()
            if c == "" or c in "+-)]}":
                break
            f = power()
            v = f if v is None else v * f
        if v is None:
            raise Unsupported(f"empty term in {s!r}")
        return v

    def expr():
        nonlocal pos
        c = peek()
        sign = 1
        if c in "+-":
            sign = -1 if c == "-" else 1
            pos += 1
        v = term() * sign
        while peek() in "+-" and peek() != "":
            c = peek()
            pos += 1
            t = term()
            v = v + t if c == "+" else v - t
        return v

    v = expr()
    if peek() != "":
        raise Unsupported(f"trailing latex {s[pos:]!r}")
    return v


def documented_newmark(ctx):
    """{A, A_1, A_0} read from the `.. math::` block of the SolveNewmark docstring"""
    cls = ctx.src.cls(NM, "SolveNewmark")
    doc = ast.get_docstring(cls, clean=False) or ""
    out = {}
    for nm in ("A", "A_1", "A_0"):
        m = re.search(r"^\s*" + re.escape(nm) + r"\s*&=\s*\\left\s*\[(.*?)\\right\s*\]", doc, re.S | re.M)
        if not m:
            raise AnchorError(f"SolveNewmark docstring: definition of {nm}")
        out[nm] = _latex_expr(m.group(1))
    m = re.search(r"u_\{-1\}\s*&=\s*(.*?)\\\\", doc, re.S)
    out["u_-1"] = _latex_expr(m.group(1)) if m else None
    return out, doc


# ---------------------------------------------------------------------------
# evaluation of the solver source on a small symbolic system (verifier/c17_interp.py): 2 dof, NT time steps, NZ outputs per nonlinear
# function.  One member of the property's quantifier domain, with symbolic entries: an obligation that fails here fails for the property.
N, NT, NZ = 2, 5, 2
H = F.sym("h")
UNC_F, CPL = True, False


def vec(name, n=N):
    return I.NDArr.syms(name, (n,))


def mat(name, r=N, c=N):
    return I.NDArr.syms(name, (r, c))


def _guard(ctx, tag, where, thunk, partial=False):
    """run an evaluation; a Python exception of the analysed code on a valid configuration is a violation, a construct outside the
    interpreter's subset an analysis error.  With `partial`, an evaluation that outgrows the formula budget returns ("partial", reason):
    the caller decides on what had been stored until then (formulas explode only when an operation of the recurrence is not the
    documented one, so the first stored step normally already contradicts the documentation)"""
    try:
        return True, thunk()
    except I.TooLarge as e:
        if partial:
            return "partial", str(e)
        ctx.error(f"{tag}: evaluation", where, str(e))
        return False, None
    except I.PyRaise as e:
        if e.genuine:
            ctx.fail(f"{tag}: runs on a valid configuration without raising", where, str(e))
        else:
            ctx.error(f"{tag}: evaluation", where, str(e))
    except Unsupported as e:
        ctx.error(f"{tag}: evaluation", where, str(e))
    return False, None


def _eq(a, b):
    return a is not None and b is not None and I.arr_equal(a, b)


def _show(x, n=300):
    s = repr(x)
    return s if len(s) <= n else s[:n] + "..."


class NLTerms:
    """two nonlinear force terms {key: (function, transform, optional arguments)}; the functions are opaque: every call is recorded with a
    snapshot of the displacement array it sees and returns the symbols z<k>_<j>"""

    def __init__(self):
        self.funcs = [I.Opaque("nl0", inert=True), I.Opaque("nl1", inert=True)]
        self.keys = ["k0", "k1"]
        self.T = [mat("T0", N, NZ), mat("T1", N, NZ)]
        self.optargs = I.Opaque("optarg1", inert=True)
        self.kwargs = [{}, {"opt": self.optargs}]
        self.calls = []      # dict(k, j, args, kwargs, snap)

    def nl_dct(self):
        return {key: (f, T, dict(kw)) for key, f, T, kw in zip(self.keys, self.funcs, self.T, self.kwargs)}

    def z(self, k, j):
        return vec(f"z{k}_{j}", NZ)

    def hook(self, it, op, args, kwargs, node):
        if op not in self.funcs:
            return NotImplemented
        k = self.funcs.index(op)
        j = args[1] if len(args) > 1 else None
        try:
            j = I._as_int(j)
        except Unsupported:
            j = None
        snap = args[0].copy() if args and isinstance(args[0], I.NDArr) else None
        self.calls.append({"k": k, "j": j, "args": list(args), "kwargs": dict(kwargs), "snap": snap, "seq": it.seq})
        if j is None:
            return vec(f"zbad{len(self.calls)}", NZ)
        return self.z(k, j)

    def force(self, j):
        """N_j = sum_k T_k z_k(d, j, h)  (the transforms are already multiplied by inv(A))"""
        tot = None
        for k in range(2):
            t = self.T[k] @ self.z(k, j)
            tot = t if tot is None else tot + t
        return tot

    def call_ok(self, c, h=H):
        """documented call convention func(d, j, h, **optargs)"""
        return len(c["args"]) == 3 and c["snap"] is not None and I.s_equal(c["args"][2], h) and \
            set(c["kwargs"]) == set(self.kwargs[c["k"]]) and all(c["kwargs"][x] is self.kwargs[c["k"]][x] for x in c["kwargs"])


def _nm_self(it, unc, terms=None, **extra):
    cls = it.cls(NM, "SolveNewmark")
    # the documented members of an instance without residual-flexibility modes (index partitions are slices: `slices` is True)
    me = I.Obj(cls, "self", n=N, ksize=N, rfsize=0, nonrfsz=N, elsize=N, rbsize=0, nonrf=slice(None), kdof=slice(None), rf=slice(0, 0),
               el=slice(None), rb=slice(0, 0), _el=slice(None), _rb=slice(0, 0), krf=None, ikrf=None,
               unc=unc, h=H, pc=True, systype=I.FLOAT, slices=True, pre_eig=False, nonlin_terms=0, cdforces=False)
    if unc:
        me.attrs.update(m=vec("M"), k=vec("K"), b=vec("B"), Ad=vec("Ad"), A1=vec("A1"), A0=vec("A0"))
    else:
        me.attrs.update(m=mat("M"), k=mat("K"), b=mat("B"), Ad=I.LU(inv=mat("iA")), A1=mat("A1"), A0=mat("A0"))
    if terms is not None:
        me.attrs.update(nonlin_terms=2, nl_dct=terms.nl_dct())
    else:
        me.absent.update({"nl_dct", "z"})        # only def_nonlin / the nonlinear start-up create them
    me.attrs.update(extra)
    return me


def _mul(unc):
    return (lambda a, x: a * x) if unc else (lambda a, x: a @ x)


def _inv_a(me, unc):
    if unc:
        return lambda x: x / (me.attrs["Ad"] if x.ndim == 1 else me.attrs["Ad"][:, None])
    return lambda x: me.attrs["Ad"].inv() @ x


def _cfg(unc, nonlin):
    return f"{'uncoupled' if unc else 'coupled'}, {'nonlinear' if nonlin else 'linear'}"


# ---------------------------------------------------------------------------
def _doc_entry(formula, mm, bb, kk):
    return formula.subs({"M": mm, "B": bb, "K": kk})


def r2_code_equals_documentation(ctx):
    docs, doc = documented_newmark(ctx)
    fn = ctx.src.func(NM, "SolveNewmark._newmark_precalcs")
    # the documented A, A_1, A_0 are linear in (M, B, K): they can be taken entry by entry for matrices
    for key in ("A", "A_1", "A_0"):
        t = F.sym("t")
        lin = docs[key].subs({"M": t * M_, "B": t * B_, "K": t * K_}).equals(t * docs[key])
        if not lin:
            raise Unsupported(f"documented {key} is not linear in M, B, K")
    for unc in (UNC_F, CPL):
        for m_none in (False, True):
            tag = f"_newmark_precalcs ({'diagonal' if unc else 'full'} matrices, m {'None' if m_none else 'given'})"
            it = I.Interp(ctx)
            shape = (N,) if unc else (N, N)
            m, b, k = (I.NDArr.syms(x, shape) for x in "mbk")
            if m_none:
                mm = I.NDArr.full(shape, F.const(1)) if unc else I._np_eye(None, [N], {})
            else:
                mm = m
            me = I.Obj(it.cls(NM, "SolveNewmark"), "self", h=H, m=None if m_none else m, b=b, k=k, unc=unc, ksize=N)
            me.absent.update({"Ad", "A0", "A1"})         # this method creates them
            ok, _ = _guard(ctx, tag, fn, lambda: it.call_method(me, "_newmark_precalcs"))
            if not ok:
                continue
            want = {key: I.NDArr.new(shape, [_doc_entry(docs[key], x, y, z) for x, y, z in zip(mm.flat(), b.flat(), k.flat())])
                    for key in ("A", "A_1", "A_0")}
            if unc and not m_none:
                ok = me.attrs.get("nonlin_terms") == 0 and me.attrs.get("pc") is not None and it.truth(me.attrs.get("pc")) is True
                ctx.check(ok, f"{tag}: a new solver has no nonlinear terms (nonlin_terms = 0) and is marked ready for time-domain allocation", fn)
            Ad = me.attrs.get("Ad")
            Amat = Ad.mat if isinstance(Ad, I.LU) else Ad
            ok = isinstance(Amat, I.NDArr) and _eq(Amat, want["A"]) and (unc or isinstance(Ad, I.LU))
            ctx.check(ok, f"{tag}: self.Ad is the documented A = {docs['A']}" + ("" if unc else " (LU factored)"), fn, None if ok else _show(Amat))
            for nm, key in (("A1", "A_1"), ("A0", "A_0")):
                v = me.attrs.get(nm)
                if not isinstance(v, I.NDArr) or not isinstance(Amat, I.NDArr):
                    ctx.fail(f"{tag}: self.{nm} is inv(A) times the documented {key} = {docs[key]}", fn, _show(v))
                    continue
                # A x = A_k decides x = inv(A) A_k without inverting on the checker's side; the documented A is used, not the code's
                L, sc = I.clear_denominators(want["A"].flat())
                As = I.NDArr.new(shape, sc)
                lhs = As * v if unc else As @ v
                ok = _eq(lhs, want[key] * L)
                ctx.check(ok, f"{tag}: self.{nm} is inv(A) times the documented {key} = {docs[key]}", fn, None if ok else _show(v))
    # the comment block inside _newmark_precalcs is a third sibling (documentation only: not behaviour, hence nontrivial=False)
    src = ctx.src.seg(fn)
    com = {}
    for nm in ("A", "A1", "A0"):
        m = re.search(r"#\s*" + nm + r"\s*=\s*(.+)", src)
        if m:
            txt = m.group(1).strip().replace("^", "**").replace(" M", "*M").replace(" B", "*B").replace(" K", "*K")
            try:
                e = Evaluator(env={"M": M_, "B": B_, "K": K_, "h": h})
                com[nm] = e.ev(ast.parse(txt, mode="eval").body)
            except SyntaxError:
                com[nm] = None
    for nm, key in (("A", "A"), ("A1", "A_1"), ("A0", "A_0")):
        v = com.get(nm)
        if v is None or is_unknown(v):
            ctx.note(f"comment formula for {nm} not parsed")
            continue
        ok = v.equals(docs[key])
        ctx.check(ok, f"_newmark_precalcs: the comment's formula for {nm} agrees with the class documentation", fn, None if ok else repr(v), nontrivial=False)
    _r2_startup(ctx, docs)


def _r2_startup(ctx, docs):
    """start-up step of _init_dva: u_-1 = u_0 - v_0 h ; F_-1 = K u_-1 + B v_0 ; F_0 := K u_0 + B v_0 ; A u_1 = (F_1 + F_0 + F_-1)/3 + N_0 + A_1 u_0 + A_0 u_-1"""
    ini = ctx.src.func(NM, "SolveNewmark._init_dva")
    du = docs.get("u_-1")      # the documented start-up displacement, read from the docstring: u_{-1} = u_0 - \dot{u}_0 h
    for unc in (UNC_F, CPL):
        for nonlin in (False, True):
            _startup_case(ctx, ini, du, unc, nonlin)
    _startup_case(ctx, ini, du, UNC_F, False, ic=False)
    _startup_case(ctx, ini, du, CPL, False, ic="v0")
    for unc in (UNC_F, CPL):
        _startup_case(ctx, ini, du, unc, False, rf="trailing")
        _startup_case(ctx, ini, du, unc, False, rf="interleaved")


def _ivec(*idx):
    return I.NDArr.new((len(idx),), list(idx))


def _startup_case(ctx, ini, du, unc, nonlin, ic=True, rf=None):
    how = {None: "", "trailing": ", one trailing rf mode (slice partitions)", "interleaved": ", one interleaved rf mode (index-vector partitions)"}[rf]
    ictxt = {True: "", False: ", no initial conditions given", "v0": ", only v0 given"}[ic]
    tag = f"SolveNewmark._init_dva ({_cfg(unc, nonlin)}{ictxt}{how})"
    terms = NLTerms() if nonlin else None
    it = I.Interp(ctx, on_opaque=terms.hook if terms else None)
    me = _nm_self(it, unc, terms)
    me.absent.add("z")                                   # a fresh instance: the nonlinear start-up creates it
    ntot = N + 1 if rf else N
    K_, RF_ = slice(0, N), slice(N, ntot)
    if rf:
        ikrf = mat("ikrf", 1, 1)
        if rf == "interleaved":
            K_, RF_ = _ivec(0, 2), _ivec(1)
            me.attrs.update(slices=False)
        me.attrs.update(n=ntot, rfsize=1, rf=RF_, nonrf=K_, kdof=K_, el=K_, ikrf=ikrf if unc else I.LU(inv=ikrf))
    f = mat("f", ntot, NT)
    d0f, v0f = (vec("d0", ntot) if ic is True else None), (vec("v0", ntot) if ic else None)
    ok, res = _guard(ctx, tag, ini, lambda: it.call_method(me, "_init_dva", f, d0f, v0f))
    if not ok:
        return
    if not (isinstance(res, tuple) and len(res) == 4 and all(isinstance(x, I.NDArr) for x in res)):
        ctx.fail(f"{tag}: returns (d, v, a, force)", ini, _show(res))
        return
    d, v, a, frc = res
    if d.shape != (ntot, NT) or v.shape != (ntot, NT) or a.shape != (ntot, NT):
        ctx.fail(f"{tag}: d, v, a have one row per equation and one column per time step", ini, (d.shape, v.shape, a.shape))
        return
    zero = I.NDArr.full((N,), F.const(0))
    d0, v0 = (d0f[K_] if d0f is not None else zero), (v0f[K_] if v0f is not None else zero)
    fk = f[K_]
    K, B, A1, A0 = (me.attrs[x] for x in ("k", "b", "A1", "A0"))
    mul, inva = _mul(unc), _inv_a(me, unc)
    if du is not None:
        um1 = I.NDArr.new((N,), [du.subs({"u_0": x, "vu_0": y}) for x, y in zip(d0.flat(), v0.flat())])
    else:
        um1 = d0 - v0 * H
    F0 = mul(K, d0) + mul(B, v0)
    Fm1 = mul(K, um1) + mul(B, v0)
    N0 = terms.force(0) if nonlin else 0
    want_d1 = inva((fk[:, 1] + F0 + Fm1) / 3) + N0 + mul(A1, d0) + mul(A0, um1)
    if nonlin:
        c0 = [c for c in terms.calls if c["j"] == 0]
        ok = {c["k"] for c in c0} == {0, 1} and len(terms.calls) == 2 and all(
            terms.call_ok(c) and c["snap"].shape == (ntot, NT) and _eq(c["snap"][K_, -1], um1) and _eq(c["snap"][K_, 0], d0) for c in c0)
        ctx.check(ok, f"{tag}: when the nonlinear functions are evaluated at j = 0 as func(d, 0, h, **optargs), column 0 of d is u_0 and the "
                      "last column holds the documented u_-1 = u_0 - v_0 h (unconditionally: def_nonlin documents d[:, j-1] for j = 0)", ini,
                  None if ok else [(c["k"], c["j"], _show(c["snap"][:, -1] if c["snap"] is not None and c["snap"].ndim == 2 else c["snap"])) for c in terms.calls])
        z = me.attrs.get("z")
        ok = isinstance(z, dict) and set(z) == set(terms.keys) and all(
            isinstance(z[key], I.NDArr) and z[key].shape == (NZ, NT) and _eq(z[key][:, 0], terms.z(k_, 0)) for k_, key in enumerate(terms.keys))
        ctx.check(ok, f"{tag}: self.z[key] is allocated with one column per time step and column 0 is the function output at j = 0", ini,
                  None if ok else _show(z))
    ok = _eq(d[K_, 1], want_d1) and _eq(d[K_, 0], d0)
    ctx.check(ok, f"{tag}: the first step uses F_0 := K u_0 + B v_0, F_-1 = K u_-1 + B v_0, u_-1 = u_0 - v_0 h and the start-up nonlinear term N_0 "
                  "in the documented recurrence", ini, None if ok else {"code": _show(d[K_, 1]), "documented": _show(want_d1)})
    want_a0 = (want_d1 - 2 * d0 + um1) / (H * H)
    ok = _eq(a[K_, 0], want_a0) and _eq(v[K_, 0], v0)
    ctx.check(ok, f"{tag}: initial acceleration is the central difference (u_1 - 2 u_0 + u_-1)/h^2", ini, None if ok else _show(a[K_, 0]))
    want_f = [inva(F0 / 3)] + [inva(fk[:, j] / 3) for j in range(1, NT)]
    ok = frc.shape == (N, NT) and all(_eq(frc[:, j], want_f[j]) for j in range(NT))
    ctx.check(ok, f"{tag}: the returned force is inv(A) F/3 of the non-rf equations with F_0 replaced (what the recurrence in tsolve adds directly)", ini,
              None if ok else _show(frc))
    if rf:
        ok = all(_eq(d[RF_, j], ikrf @ f[RF_, j]) for j in range(NT))
        ctx.check(ok, f"{tag}: the rf equations are solved statically, d_rf = inv(K_rf) F_rf at every step, initial conditions ignored", ini,
                  None if ok else _show(d[RF_]))


# ---------------------------------------------------------------------------
class TsolveRun:
    """SolveNewmark.tsolve evaluated after a start-up step that left symbols in the arrays (the contract of _init_dva checked by R2)"""

    def __init__(self, ctx, unc, nonlin, index_partition=False):
        self.unc, self.nonlin = unc, nonlin
        self.terms = NLTerms() if nonlin else None
        self.it = it = I.Interp(ctx, on_opaque=self.terms.hook if self.terms else None)
        self.me = me = _nm_self(it, unc, self.terms)
        if index_partition:       # partitions that could not be turned into slices: `d[kdof]` is a copy that has to be written back
            me.attrs.update(slices=False, kdof=_ivec(*range(N)), nonrf=_ivec(*range(N)), el=_ivec(*range(N)))
        self.u0, self.u1, self.v0, self.a0, self.um1 = vec("u0"), vec("u1"), vec("v0"), vec("a0"), vec("um1")
        zero = F.const(0)
        self.d, self.v, self.a = (I.NDArr.full((N, NT), zero, lbl) for lbl in "dva")
        self.Fs = mat("F", N, NT)

        def init_dva(it_, args, kwargs):
            self.init_args = (list(args), dict(kwargs))
            for col, val in ((0, self.u0), (1, self.u1)) + (((NT - 1, self.um1),) if nonlin else ()):
                for r in range(N):
                    self.d.st.data[self.d.ix[r * NT + col]] = val.flat()[r]
            for r in range(N):
                self.v.st.data[self.v.ix[r * NT]] = self.v0.flat()[r]
                self.a.st.data[self.a.ix[r * NT]] = self.a0.flat()[r]
            if nonlin:
                zz = {}
                for k_, key in enumerate(self.terms.keys):
                    arr = I.NDArr.full((NZ, NT), zero)
                    for r in range(NZ):
                        arr.st.data[arr.ix[r * NT]] = self.terms.z(k_, 0).flat()[r]
                    zz[key] = arr
                me.attrs["z"] = zz
            return self.d, self.v, self.a, self.Fs

        def solution(it_, args, kwargs):
            self.sol_args = args
            return I.Obj(None, "sol", d=args[0], v=args[1], a=args[2])

        me.overrides["_init_dva"] = init_dva
        me.overrides["_solution"] = solution
        self.sol = None
        self.sol_args = None
        self.partial = None       # reason when the evaluation was cut off by the formula budget

    def run(self):
        self.inputs = (mat("force", N, NT), vec("d0"), vec("v0"))
        self.sol = self.it.call_method(self.me, "tsolve", *self.inputs)
        return self

    def init_args_ok(self):
        """_init_dva(force, d0, v0) receives the force history and the initial conditions of tsolve, each in its place"""
        if getattr(self, "init_args", None) is None:
            return False
        fn = self.it.method(self.me.cls, "_init_dva")
        try:
            env = self.it.bind(fn, [None] + self.init_args[0], self.init_args[1])
        except I.PyRaise:
            return False
        f, d0, v0 = self.inputs
        return isinstance(env.get("force"), I.NDArr) and _eq(env["force"], f) and env.get("d0") is d0 and env.get("v0") is v0

    def N(self, j):
        return self.terms.force(j) if self.nonlin else 0

    def written(self, j):
        """has tsolve stored every entry of displacement column j?"""
        done = {i for _, i, _, _ in self.d.st.log}
        return all(self.d.ix[r * NT + j] in done for r in range(N))

    def De(self):
        """the displacement of the extra step as the code used it for the last velocity: V_last = (De - u_nt-2)/(2h)"""
        return self.v[:, NT - 1] * (2 * H) + self.d[:, NT - 2]


def _tsolve_runs(ctx):
    """the four evaluations of tsolve, shared by R1 and R3 (problems are reported under each rule that needs the runs)"""
    fn = ctx.src.func(NM, "SolveNewmark.tsolve")
    cache = getattr(ctx, "_c17_tsolve", None)
    if cache is not None:
        runs, problems = cache
        for o in problems:
            (ctx.fail if o.status == "fail" else ctx.error)(o.instance, o.where, o.detail)
        return fn, runs
    runs = {}
    n0 = len(ctx.obls)
    for unc, nonlin, ip in ((UNC_F, False, False), (UNC_F, True, False), (CPL, False, False), (CPL, True, False), (UNC_F, True, True)):
        if True:
            tag = f"tsolve ({_cfg(unc, nonlin)}{', index-vector partition' if ip else ''})"
            r = TsolveRun(ctx, unc, nonlin, ip)
            ok, why = _guard(ctx, tag, fn, r.run, partial=not ip)
            if ok == "partial":
                r.partial = why
            elif ok:
                ok = isinstance(r.sol, I.Obj) and r.sol_args is not None and len(r.sol_args) >= 3 and \
                    all(x is y for x, y in zip(r.sol_args[:3], (r.d, r.v, r.a)))
                if not ok:
                    ctx.fail(f"{tag}: the solution is built from the arrays d, v, a of the start-up step", fn)
            runs[(unc, nonlin) + (("index",) if ip else ())] = r if ok else None
    ctx._c17_tsolve = (runs, list(ctx.obls[n0:]))
    return fn, runs


def _to_diag_names(name):
    """substitution that turns the entries of a full coefficient matrix into those of a diagonal one"""
    mp = {}
    for i in range(N):
        for j in range(N):
            mp[f"{name}_{i}_{j}"] = F.sym(f"{name}_{i}") if i == j else F.const(0)
    return mp


def _subs_arr(a, mp):
    return I.NDArr.new(a.shape, [I.R(e).subs(mp) for e in a.flat()])


def r1_four_branch_agreement(ctx):
    fn, runs = _tsolve_runs(ctx)
    ri = runs.pop((UNC_F, True, "index"), None)
    for (unc, nonlin), r in runs.items():
        if r is None:
            continue
        tag = f"tsolve ({_cfg(unc, nonlin)})"
        mul = _mul(unc)
        A1, A0, Fs, d = r.me.attrs["A1"], r.me.attrs["A0"], r.Fs, r.d
        if r.partial:
            # the evaluation was cut off: decide on the steps that had been stored
            bad = None
            for j in range(2, NT):
                if not r.written(j):
                    break
                want = Fs[:, j] + Fs[:, j - 1] + Fs[:, j - 2] + r.N(j - 1) + mul(A1, d[:, j - 1]) + mul(A0, d[:, j - 2])
                if not _eq(d[:, j], want):
                    bad = {"step": j, "code": _show(d[:, j]), "documented": _show(want)}
                    break
            if bad:
                ctx.fail(f"{tag}: u_j = F_j + F_j-1 + F_j-2 {'+ N_j-1 ' if nonlin else ''}+ A1 u_j-1 + A0 u_j-2 for every step j >= 2 "
                         "(forces already scaled by inv(A)/3: the documented recurrence)", fn, bad)
            else:
                ctx.error(f"{tag}: evaluation", fn, r.partial)
            continue
        ok = _eq(d[:, 0], r.u0) and _eq(d[:, 1], r.u1) and r.init_args_ok()
        ctx.check(ok, f"{tag}: the start-up step gets (force, d0, v0) and its displacements (columns 0 and 1) are kept", fn)
        bad = None
        for j in range(2, NT):
            want = Fs[:, j] + Fs[:, j - 1] + Fs[:, j - 2] + r.N(j - 1) + mul(A1, d[:, j - 1]) + mul(A0, d[:, j - 2])
            if not _eq(d[:, j], want):
                bad = {"step": j, "code": _show(d[:, j]), "documented": _show(want)}
                break
        ctx.check(bad is None, f"{tag}: u_j = F_j + F_j-1 + F_j-2 {'+ N_j-1 ' if nonlin else ''}+ A1 u_j-1 + A0 u_j-2 for every step j >= 2 "
                               "(forces already scaled by inv(A)/3: the documented recurrence)", fn, bad)
        # last step: the same recurrence at j = nt with F_nt := 2 F_last - F_last-1 (linear extrapolation)
        Fe = 2 * Fs[:, NT - 1] - Fs[:, NT - 2]
        want = Fe + Fs[:, NT - 1] + Fs[:, NT - 2] + r.N(NT - 1) + mul(A1, d[:, NT - 1]) + mul(A0, d[:, NT - 2])
        ok = _eq(r.De(), want)
        ctx.check(ok, f"{tag}: the extra step behind the last velocity is the recurrence with the force linearly extrapolated "
                      f"(F_e + F_-1 + F_-2 = 3 F_-1){' and the nonlinear term of the last step' if nonlin else ''}", fn,
                  None if ok else {"code": _show(r.De()), "documented": _show(want)})
    base = runs.get((UNC_F, False))
    for key, r in runs.items():
        if key == (UNC_F, False) or r is None or base is None or r.partial or base.partial:
            continue
        unc, nonlin = key
        mp = {}
        if not unc:
            mp.update(_to_diag_names("A1"))
            mp.update(_to_diag_names("A0"))
        if nonlin:
            for k_ in range(2):
                for j in range(NT):
                    for q in range(NZ):
                        mp[f"z{k_}_{j}_{q}"] = F.const(0)
        try:
            same = _eq(_subs_arr(r.d, mp), base.d) and _eq(_subs_arr(r.De(), mp), base.De())
        except Unsupported as e:
            ctx.error(f"tsolve: comparison of the {_cfg(unc, nonlin)} arm with the uncoupled linear arm", fn, str(e))
            continue
        ctx.check(same, f"tsolve: the {'uncoupled' if unc else 'coupled'}/{'nonlinear' if nonlin else 'linear'} arm is the uncoupled linear arm "
                        "(diagonal coefficient matrices, vanishing nonlinear terms)", fn)
    rs = runs.get((UNC_F, True))
    if ri is not None and rs is not None and not rs.partial:
        same = _eq(ri.d, rs.d) and _eq(ri.v, rs.v) and _eq(ri.a, rs.a)
        ctx.check(same, "tsolve: with index-vector partitions (d[kdof] is a copy) the same d, v, a reach the solution as with slice partitions", fn)
    runs[(UNC_F, True, "index")] = ri


def r3_differences(ctx):
    fn, runs = _tsolve_runs(ctx)
    live = {k: r for k, r in runs.items() if r is not None and len(k) == 2 and not r.partial}
    if not live:
        return
    h2, sqh = 2 * H, H * H
    bad = [k for k, r in live.items() if not (all(_eq(r.v[:, i], (r.d[:, i + 1] - r.d[:, i - 1]) / h2) for i in range(1, NT - 1)) and _eq(r.v[:, 0], r.v0))]
    ctx.check(not bad, "tsolve: interior velocities are the documented central difference (u_n+1 - u_n-1)/(2h) and the initial velocity is kept", fn,
              None if not bad else [_cfg(*k) for k in bad])
    bad = [k for k, r in live.items() if not (all(_eq(r.a[:, i], (r.d[:, i + 1] - 2 * r.d[:, i] + r.d[:, i - 1]) / sqh) for i in range(1, NT - 1))
                                              and _eq(r.a[:, 0], r.a0))]
    ctx.check(not bad, "tsolve: interior accelerations are the documented central difference (u_n+1 - 2 u_n + u_n-1)/h^2 and the start-up "
                       "acceleration is kept", fn, None if not bad else [_cfg(*k) for k in bad])
    bad = [k for k, r in live.items() if not _eq(r.a[:, NT - 1], (r.De() - 2 * r.d[:, NT - 1] + r.d[:, NT - 2]) / sqh)]
    ctx.check(not bad, "tsolve: the last velocity and acceleration use the same extrapolated step De in the documented differences", fn,
              None if not bad else [_cfg(*k) for k in bad])
    # nonlinear term placement
    for (unc, nonlin), r in live.items():
        if not nonlin:
            continue
        tag = f"tsolve ({_cfg(unc, nonlin)})"
        t = r.terms
        want = {(k_, j) for k_ in range(2) for j in range(1, NT)}
        got = [(c["k"], c["j"]) for c in t.calls]
        ok = set(got) == want and len(got) == len(want) and all(
            t.call_ok(c) and c["snap"].shape == (N, NT) and all(_eq(c["snap"][:, i], r.d[:, i]) for i in range(c["j"] + 1)) for c in t.calls)
        ctx.check(ok, f"{tag}: every nonlinear function is evaluated once per step j = 1 .. nt-1 as func(D, j, h, **optargs) on the final "
                      "displacements of steps 0 .. j (its force feeds step j+1; that of step nt-1 feeds the extra step)", fn, None if ok else got)
        z = r.me.attrs.get("z")
        ok = isinstance(z, dict) and set(z) == set(t.keys) and all(
            isinstance(z[key], I.NDArr) and z[key].shape == (NZ, NT) and all(_eq(z[key][:, j], t.z(k_, j)) for j in range(NT))
            for k_, key in enumerate(t.keys)) and r.sol.attrs.get("z") is z
        ctx.check(ok, f"{tag}: the output of every nonlinear function at step j is recorded in column j of z[key] and returned as sol.z", fn,
                  None if ok else _show(z))
    dn = ctx.src.func(NM, "SolveNewmark.def_nonlin")
    for unc in (UNC_F, CPL):
        tag = f"def_nonlin ({'uncoupled' if unc else 'coupled'})"
        t = NLTerms()
        it = I.Interp(ctx, on_opaque=t.hook)
        me = _nm_self(it, unc)
        dct = {t.keys[0]: (t.funcs[0], t.T[0]), t.keys[1]: (t.funcs[1], t.T[1], t.kwargs[1])}
        ok, _ = _guard(ctx, tag, dn, lambda: it.call_method(me, "def_nonlin", dct))
        if not ok:
            continue
        inva = _inv_a(me, unc)
        nl = me.attrs.get("nl_dct")
        ok = isinstance(nl, dict) and set(nl) == set(t.keys) and me.attrs.get("nonlin_terms") == 2 and not t.calls
        if ok:
            for k_, key in enumerate(t.keys):
                e = nl[key]
                ok = ok and isinstance(e, (tuple, list)) and len(e) == 3 and e[0] is t.funcs[k_] and _eq(e[1], inva(t.T[k_])) and \
                    isinstance(e[2], dict) and e[2] == t.kwargs[k_]
        ctx.check(ok, f"{tag}: every term keeps its function and optional arguments, its transform is pre-multiplied by inv(A) like every other "
                      "right-hand-side term, and nonlin_terms counts the terms", dn, None if ok else _show(nl))


# ---------------------------------------------------------------------------
def _isdiag(it, a, k):
    """pyyeti.ytools.isdiag on a symbolic matrix: diagonal iff every off-diagonal entry is the constant zero"""
    m = a[0]
    if not isinstance(m, I.NDArr) or m.ndim != 2 or m.shape[0] != m.shape[1]:
        return False
    return all(I.R(m.item(i, j)).is_zero() for i in range(m.shape[0]) for j in range(m.shape[1]) if i != j)


def _chk_diag(ctx, fn, tag, m, b, k, cd_as_force):
    it = I.Interp(ctx, stubs={"pyyeti.ytools.isdiag": _isdiag, "isdiag": _isdiag})
    me = I.Obj(it.cls(BASE, "_BaseODE"), "self", rfsize=0, nonrf=slice(None), rf=slice(0, 0))
    ok, _ = _guard(ctx, tag, fn, lambda: it.call_method(me, "_chk_diag_part", m, b, k, cd_as_force))
    return me if ok else None


def _tv(test, fn, env, depth=0):
    """three-valued truth of a test under {dotted name: bool}; a local assigned exactly once in `fn` stands for its defining expression"""
    d = dotted(test)
    if d is not None and d in env:
        return env[d]
    if isinstance(test, ast.Constant):
        return bool(test.value)
    if isinstance(test, ast.UnaryOp) and isinstance(test.op, ast.Not):
        r = _tv(test.operand, fn, env, depth)
        return None if r is None else (not r)
    if isinstance(test, ast.BoolOp):
        rs = [_tv(v, fn, env, depth) for v in test.values]
        if isinstance(test.op, ast.And):
            return False if any(r is False for r in rs) else (True if all(r is True for r in rs) else None)
        return True if any(r is True for r in rs) else (False if all(r is False for r in rs) else None)
    if isinstance(test, ast.Compare) and len(test.ops) == 1 and isinstance(test.comparators[0], ast.Constant) \
            and isinstance(test.comparators[0].value, bool) and isinstance(test.ops[0], (ast.Is, ast.Eq, ast.IsNot, ast.NotEq)):
        r = _tv(test.left, fn, env, depth)
        if r is None:
            return None
        r = r == test.comparators[0].value
        return r if isinstance(test.ops[0], (ast.Is, ast.Eq)) else not r
    if isinstance(test, ast.Name) and depth < 4:
        defs = [st for st in walk_no_nested(fn) if isinstance(st, ast.Assign) and any(isinstance(t, ast.Name) and t.id == test.id for t in st.targets)]
        others = [n for n in walk_no_nested(fn) if isinstance(n, ast.Name) and n.id == test.id and isinstance(n.ctx, ast.Store)]
        if len(defs) == 1 and len(others) == 1:
            return _tv(defs[0].value, fn, env, depth + 1)
    return None


def _terminates(body):
    return bool(body) and isinstance(body[-1], (ast.Return, ast.Raise))


def _unreachable(node, fn, env):
    """node cannot execute when the names of `env` have the given truth values (dominating tests and preceding guard clauses)"""
    child = node
    for a in ancestors(node):
        if isinstance(a, (ast.If, ast.IfExp)):
            body = a.body if isinstance(a.body, list) else [a.body]
            orelse = a.orelse if isinstance(a.orelse, list) else [a.orelse]
            t = _tv(a.test, fn, env)
            if any(child is x for x in body) and t is False:
                return True
            if any(child is x for x in orelse) and t is True:
                return True
        for blk in ("body", "orelse", "finalbody"):
            lst = getattr(a, blk, None)
            if isinstance(lst, list) and any(child is x for x in lst):
                for prev in lst[:[i for i, x in enumerate(lst) if x is child][0]]:
                    if isinstance(prev, ast.If):
                        t = _tv(prev.test, fn, env)
                        if (t is True and _terminates(prev.body)) or (t is False and _terminates(prev.orelse)):
                            return True
        if a is fn:
            break
        child = a
    return False


def _forwarding(ctx, it, cdf, unc_cls, name):
    """SolveCDF.<name> evaluated with SolveUnc.<name> replaced by a recorder: {parameter of SolveUnc.<name>: value}, token returned, effects"""
    c, node = cdf.find(it, name)
    uc, unode = unc_cls.find(it, name)
    if node is None or unode is None:
        raise AnchorError(f"SolveCDF.{name} / SolveUnc.{name}")
    ufunc = it.make_func(unode, uc.module, None, uc)
    params = [a.arg for a in node.args.posonlyargs + node.args.args][1:]
    nreq = len(params) - len(node.args.defaults)
    out = []
    for given in (params, params[:nreq]):
        toks = {p_: I.Opaque("arg:" + p_) for p_ in given}
        ret = I.Opaque("result of SolveUnc." + name)
        rec = {}

        def recorder(it_, args, kwargs, rec=rec, ret=ret):
            rec["n"] = rec.get("n", 0) + 1
            rec["env"] = it.bind(ufunc, [None] + list(args), kwargs)
            return ret
        me = I.Obj(cdf, "self")
        me.overrides["SolveUnc." + name] = recorder
        n0 = len(it.calls)
        res = it.call_method(me, name, **toks)
        others = [c_ for c_ in it.calls[n0:] if c_[1] not in ("SolveUnc." + name, "def:" + name)]
        dflt = it.bind(ufunc, [None] + [I.Opaque("x")] * (len(unode.args.args) - 1 - len(unode.args.defaults)), {})
        out.append({"toks": toks, "rec": rec, "res": res, "ret": ret, "clean": not me.attr_log and not others, "defaults": dflt})
    return out


def _plain_equal(a, b):
    if isinstance(a, I.Rat) or isinstance(b, I.Rat):
        return I.s_equal(a, b)
    return type(a) is type(b) and a == b


def r4_cdf_equals_unc_on_diagonal(ctx):
    fn = ctx.src.func(BASE, "_BaseODE._chk_diag_part")
    dv = lambda nm: vec(nm, 3)
    dm = lambda nm: I._np_diag(None, [vec(nm, 3)], {})
    fm = lambda nm: mat(nm, 3, 3)
    keys = ("m", "b", "k", "unc", "cdforces", "krf")

    def same(x, y):
        return all((_eq(x.attrs.get(q), y.attrs.get(q)) if isinstance(x.attrs.get(q), I.NDArr) else x.attrs.get(q) == y.attrs.get(q)) for q in keys) \
            and ("bo" in x.attrs) == ("bo" in y.attrs)

    ok_all, detail = True, []
    for nm, mk in (("vector", dv), ("diagonal matrix", dm)):
        for mk_mk in (dv, dm):
            tag = f"_chk_diag_part (damping given as {nm})"
            on = _chk_diag(ctx, fn, tag, mk_mk("m"), mk("b"), mk_mk("k"), True)
            off = _chk_diag(ctx, fn, tag, mk_mk("m"), mk("b"), mk_mk("k"), False)
            if on is None or off is None:
                ok_all = None
                continue
            if not (on.attrs.get("cdforces") is False and on.attrs.get("unc") is True and same(on, off)):
                ok_all = False
                detail.append(f"{nm}: cdforces={on.attrs.get('cdforces')!r}")
    if ok_all is not None:
        ctx.check(ok_all, "_chk_diag_part: with diagonal damping (vector or diagonal matrix) cd_as_force changes nothing and cdforces stays False - "
                          "SolveCDF takes exactly SolveUnc's path", fn, detail or None)
    b = fm("b")
    on = _chk_diag(ctx, fn, "_chk_diag_part (coupled damping, cd_as_force)", dv("m"), b, dm("k"), True)
    if on is not None:
        bo = on.attrs.get("bo")
        ok = on.attrs.get("cdforces") is True and on.attrs.get("unc") is True and _eq(on.attrs.get("b"), I._np_diag(None, [b], {})) and \
            isinstance(bo, I.NDArr) and bo.shape == (3, 3) and all(I.s_equal(bo.item(i, j), 0 if i == j else b.item(i, j)) for i in range(3) for j in range(3))
        ctx.check(ok, "_chk_diag_part: with coupled damping on otherwise diagonal equations cd_as_force sets cdforces, keeps the diagonal of the damping as "
                      "b and its off-diagonal part as bo (the C_od of the documented recurrence)", fn, None if ok else _show(bo))
    off = _chk_diag(ctx, fn, "_chk_diag_part (coupled damping, no cd_as_force)", dv("m"), fm("b"), dm("k"), False)
    on2 = _chk_diag(ctx, fn, "_chk_diag_part (coupled damping and stiffness, cd_as_force)", dv("m"), fm("b"), fm("k"), True)
    on3 = _chk_diag(ctx, fn, "_chk_diag_part (coupled damping and mass, cd_as_force)", fm("m"), fm("b"), dv("k"), True)
    if off is not None and on2 is not None and on3 is not None:
        ok = all(x.attrs.get("cdforces") is False and x.attrs.get("unc") is False for x in (off, on2, on3))
        ctx.check(ok, "_chk_diag_part: a system that is not fully uncoupled (or did not ask for cd_as_force) has cdforces False", fn,
                  None if ok else [(x.attrs.get("cdforces"), x.attrs.get("unc")) for x in (off, on2, on3)])
    it = I.Interp(ctx)
    cdf, unc_cls = it.cls(CDF, "SolveCDF"), it.cls(UNC, "SolveUnc")
    for name in ("__init__", "generator", "fsolve"):
        c = ctx.src.func(CDF, f"SolveCDF.{name}") if ctx.src.has_func(CDF, f"SolveCDF.{name}") else ctx.src.cls(CDF, "SolveCDF")
        tag = f"SolveCDF.{name}"
        ok, res = _guard(ctx, tag, c, lambda: _forwarding(ctx, it, cdf, unc_cls, name))
        if not ok:
            continue
        good = True
        for r in res:
            env = r["rec"].get("env")
            good = good and env is not None and r["rec"].get("n") == 1 and r["clean"]
            if not good:
                break
            for p_, v in env.items():
                if p_ == "self":
                    continue
                if p_ in r["toks"]:
                    good = good and v is r["toks"][p_]
                elif p_ == "cd_as_force" and name == "__init__":
                    good = good and v is True
                else:
                    good = good and p_ in r["defaults"] and _plain_equal(v, r["defaults"][p_])
            if name != "__init__":
                good = good and r["res"] is r["ret"]
        what = "is SolveUnc.__init__ with cd_as_force=True and nothing else" if name == "__init__" else "only delegates to SolveUnc"
        ctx.check(good, f"{tag} {what} (every argument, given or defaulted, reaches the parameter of the same name)", c)
    # every cdforces-specific solver in SolveUnc / _BaseODE / SolveCDF is unreachable when self.cdforces is False
    uses = []
    for rel in (UNC, BASE, CDF):
        m = ctx.src.mod(rel)
        for q, f2 in m.funcs.items():
            for n in walk_no_nested(f2):
                if isinstance(n, ast.Call) and (dotted(n.func) or "").endswith("_cdforces"):
                    uses.append((q, ast.unparse(n.func), _unreachable(n, f2, {"self.cdforces": False})))
    ok = bool(uses) and all(u[2] for u in uses)
    ctx.check(ok, "the damping-as-force solver and generator cannot be reached when self.cdforces is False", UNC + ":1", uses)


# ---------------------------------------------------------------------------
def _alpha_doc(bo, Bp):
    """alpha = C_od (I + diag(Bp) C_od)^-1 as documented (SolveCDF / the comment in SolveUnc.__init__)"""
    n = bo.shape[0]
    return bo @ I.inverse(I._np_eye(None, [n], {}) + I._np_diag(None, [Bp], {}) @ bo)


def _offdiag(name, n):
    return I.NDArr.new((n, n), [F.const(0) if i == j else F.sym(f"{name}_{i}_{j}") for i in range(n) for j in range(n)])


def _pc(n=N):
    return I.Obj(None, "pc", **{c: vec("c" + c, n) for c in ("F", "G", "A", "B", "Fp", "Gp", "Ap", "Bp")})


def r5_implicit_update(ctx):
    """V1 = v_part - Bp alpha v_part solves V1 = Fp d + Gp v + Ap (f0 - bo v0) + Bp (f1 - bo V1), alpha = bo (I + Bp bo)^-1"""
    init = ctx.src.func(UNC, "SolveUnc.__init__")
    for n, bo, what in ((2, mat("bo", 2, 2), "a generic 2-dof system"), (3, _offdiag("bo", 3), "a 3-dof system with zero-diagonal C_od")):
        tag = f"SolveUnc.__init__ ({what})"
        pc = _pc(n)

        def su_coef(it_, args, kwargs, pc=pc):
            return pc
        it = I.Interp(ctx, stubs={"pyyeti.ode._utilities.get_su_coef": su_coef, "get_su_coef": su_coef})
        me = I.Obj(it.cls(UNC, "SolveUnc"), "self", ksize=n, unc=True, systype=I.FLOAT, cdforces=True, bo=bo, m=vec("m", n), b=vec("b", n),
                   k=vec("k", n), _rb=I.Opaque("_rb"), _el=I.Opaque("_el"), rb=I.Opaque("rb"), el=I.Opaque("el"), h=H, n=n, rfsize=0, nonrfsz=n,
                   pre_eig=False, rf=slice(0, 0), nonrf=slice(None), kdof=slice(None))
        me.absent.update({"pc", "order"})                # __init__ creates them
        for nm in ("_common_precalcs", "_inv_m", "_mk_slices", "get_su_eig"):
            me.overrides[nm] = lambda it_, args, kwargs: None
        ok, _ = _guard(ctx, tag, init, lambda: it.call_method(me, "__init__", vec("m", n), vec("b", n), vec("k", n), H, cd_as_force=True))
        if not ok:
            continue
        got = me.attrs.get("pc")
        alpha = got.attrs.get("alpha") if isinstance(got, I.Obj) else None
        if not isinstance(alpha, I.NDArr) or alpha.shape != (n, n):
            ctx.fail(f"{tag}: pc.alpha is computed when cdforces is set", init, _show(alpha))
            continue
        # X (I + diag(Bp) C_od) = C_od  decides  X = C_od (I + diag(Bp) C_od)^-1 : a right division, with Bp scaling the ROWS of C_od
        lhs = alpha @ (I._np_eye(None, [n], {}) + I._np_diag(None, [pc.attrs["Bp"]], {}) @ bo)
        ok = _eq(lhs, bo)
        ctx.check(ok, f"{tag}: alpha (I + diag(Bp) C_od) = C_od, i.e. alpha = C_od (I + Bp C_od)^-1 with the documented order of the matrix "
                      "products", init, None if ok else _show(alpha))
    fn = ctx.src.func(UNC, "SolveUnc._solve_real_unc_cdforces")
    nt = 3
    for order, ip in ((1, False), (0, True)):
        tag = f"_solve_real_unc_cdforces (order {order}, {'index-vector' if ip else 'slice'} partitions)"
        pc = _pc()
        bo = _offdiag("bo", N)
        pc.attrs["alpha"] = _alpha_doc(bo, pc.attrs["Bp"])
        it = I.Interp(ctx)
        part = _ivec(*range(N)) if ip else slice(None)
        me = I.Obj(it.cls(UNC, "SolveUnc"), "self", pc=pc, bo=bo, kdof=part, nonrf=part, order=order, slices=not ip, ksize=N, nonrfsz=N, n=N, rfsize=0,
                   unc=True, cdforces=True, systype=I.FLOAT, h=H, rf=slice(0, 0), pre_eig=False)
        zero = F.const(0)
        d, v = I.NDArr.full((N, nt), zero), I.NDArr.full((N, nt), zero)
        q0, qd0 = vec("q0"), vec("qd0")
        for r in range(N):
            d.st.data[d.ix[r * nt]] = q0.flat()[r]
            v.st.data[v.ix[r * nt]] = qd0.flat()[r]
        f = mat("f", N, nt)
        ok, why = _guard(ctx, tag, fn, lambda: it.call_method(me, "_solve_real_unc_cdforces", d, v, f), partial=True)
        if not ok:
            continue
        c = pc.attrs
        good_v = good_d = True
        steps = nt - 1
        if ok == "partial":
            # cut off by the formula budget: decide on the first step if it had been stored
            done_d, done_v = {i for _, i, _, _ in d.st.log}, {i for _, i, _, _ in v.st.log}
            if not all(d.ix[r * nt + 1] in done_d and v.ix[r * nt + 1] in done_v for r in range(N)):
                ctx.error(f"{tag}: evaluation", fn, why)
                continue
            steps = 1
        for i in range(steps):
            di, vi, V1, D1 = d[:, i], v[:, i], v[:, i + 1], d[:, i + 1]
            f0 = f[:, i]
            f1 = f[:, i + 1] if order == 1 else f[:, i]
            rhs_v = c["Fp"] * di + c["Gp"] * vi + c["Ap"] * (f0 - bo @ vi) + c["Bp"] * (f1 - bo @ V1)
            rhs_d = c["F"] * di + c["G"] * vi + c["A"] * (f0 - bo @ vi) + c["B"] * (f1 - bo @ V1)
            if i == 0:
                ok = _eq(V1, rhs_v) and _eq(v[:, 0], qd0)
                ctx.check(ok, f"{tag}: the velocity update solves the commented implicit equation V1 = Fp d + Gp v + Ap (f0 - C_od v0) + Bp (f1 - C_od V1)",
                          fn, None if ok else _show(V1))
                ok = _eq(D1, rhs_d) and _eq(d[:, 0], q0)
                ctx.check(ok, f"{tag}: the displacement update is D1 = F d + G v + A (f0 - C_od v0) + B (f1 - C_od V1)", fn, None if ok else _show(D1))
            else:
                good_v = good_v and _eq(V1, rhs_v)
                good_d = good_d and _eq(D1, rhs_d)
        if ok == "partial":
            if all(o.status == "ok" for o in ctx.obls[-2:]):
                ctx.error(f"{tag}: evaluation", fn, why)
            continue
        ctx.check(good_v and good_d, f"{tag}: the next step starts from the stored displacement and velocity and the damping force carried over is C_od V1 "
                                     "(the same equations hold for the second step)", fn)


def r6_typing(ctx):
    U = O.mode_U()
    U.update({"self.A0": O.Arr("K", "K"), "self.A1": O.Arr("K", "K"), "self.Ad": O.Arr("K", "K")})
    for q in ("SolveNewmark._newmark_precalcs", "SolveNewmark._init_dva", "SolveNewmark.tsolve"):
        O.type_function(ctx, NM, q, U, "Newmark", rule="C17-R6")


RULES = [
    ("C17-R1", r1_four_branch_agreement, 16),
    ("C17-R2", r2_code_equals_documentation, 49),
    ("C17-R3", r3_differences, 9),
    ("C17-R4", r4_cdf_equals_unc_on_diagonal, 7),
    ("C17-R5", r5_implicit_update, 8),
    ("C17-R6", r6_typing, 10),
]
LEVEL = "other"
EXPLANATION = ("Static: the source of SolveNewmark and of the damping-as-force path of SolveUnc is interpreted on a 2-dof, 5-step system with symbolic "
               "entries (explicit matrices, so the order of matrix products counts) in every configuration the code distinguishes. The factored Newmark "
               "matrices equal the formulas parsed from the class docstring's LaTeX, the start-up step uses the documented u_-1 (stored for the nonlinear "
               "functions unconditionally), F_-1 and replaced F_0, every step of tsolve is the documented recurrence in all four configurations, the last "
               "velocity/acceleration come from the recurrence with the linearly extrapolated force, velocities/accelerations are the documented "
               "differences, nonlinear functions see the final history of steps 0..j; SolveCDF forwards to SolveUnc and _chk_diag_part leaves cdforces "
               "False for diagonal damping; alpha = C_od (I + Bp C_od)^-1 entry by entry and two steps of the CDF loop satisfy the implicit equations.")
MANIFEST = {
    "text": "Partial claim decided statically on values (abstract interpretation of the source on a small symbolic system): (R1) the documented recurrence at "
            "every step in the four configurations of tsolve, their agreement, and last-step extrapolation; (R2) code == documentation for A, A_1, A_0 (LaTeX "
            "parsed from the docstring; diagonal and full matrices, m None/given), start-up u_-1 / F_-1 / F_0, the 1/3 force average pre-multiplied by inv(A), "
            "zero default initial conditions, static rf solution; (R3) central differences, nonlinear term placement and recording, def_nonlin; "
            "(R4) SolveCDF == SolveUnc on diagonal damping (outcome of _chk_diag_part, argument forwarding, unreachability of the cdforces solvers); "
            "(R5) alpha = C_od (I + Bp C_od)^-1 with the order of the products, and the implicit V1, D1 equations over two steps; (R6) index-space typing. "
            "Not decided: order of convergence, boundedness, massless-DOF behaviour numerically; interleaved rf layouts (left to R6's typing).",
    "note": "Trusted: CPython ast; verifier/e2_formula.py (exact rational functions); verifier/c17_interp.py (model of the numpy/scipy subset: basic indexing "
            "views, broadcasting, matmul, transpose/swapaxes, solve, lu_factor/lu_solve); the LaTeX subset reader in verifier/c17.py.",
    "technique": "abstract interpretation of the solver source over concrete shapes and symbolic entries, compared with formulas parsed from the docstring's LaTeX "
                 "and an independent transcription of the documented recurrences; three-valued dominance for the cdforces call sites",
}
