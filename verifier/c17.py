"""C17 -- Newmark-Beta and coupled-damping-as-force recurrences (partial claim)."""
from __future__ import annotations

import ast
import re

from . import e2_formula as F
from . import ode_spaces as O
from .core import AnchorError, Unsupported
from .e1_srcmodel import dotted, walk_no_nested, parent, ancestors, utext
from .e2_eval import Evaluator, Unknown, is_unknown, need

NM, UNC, BASE = O.NM, O.UNC, O.BASE
CDF = "pyyeti/ode/solvecdf.py"

M_, B_, K_, h = F.sym("M"), F.sym("B"), F.sym("K"), F.sym("h")


# ---------------------------------------------------------------------------
# a small reader for the RST/LaTeX formulas of the class docstring
def _latex_expr(s):
    """\\frac{a}{b}, juxtaposition products, + -, ^n, single-letter symbols with optional subscripts -> Rat"""
    s = s.replace("\\left", "").replace("\\right", "").replace("&", "").replace("\\\\", "").replace("\\,", " ")
    pos = 0

    def peek():
        nonlocal pos
        while pos < len(s) and s[pos].isspace():
            pos += 1
        return s[pos] if pos < len(s) else ""

    def group():
        nonlocal pos
        assert peek() == "{", f"expected {{ at {pos} in {s!r}"
        pos += 1
        v = expr()
        assert peek() == "}", f"expected }} at {pos} in {s!r}"
        pos += 1
        return v

    def atom():
        nonlocal pos
        c = peek()
        if c == "\\":
            m = re.match(r"\\(frac|dot|ddot)", s[pos:])
            if not m:
                raise Unsupported(f"latex command at {s[pos:pos + 10]!r}")
            pos += len(m.group(0))
            if m.group(1) == "frac":
                a = group()
                b = group()
                return a / b
            inner = group()
            sub_ = re.match(r"_\{[^}]*\}|_[A-Za-z0-9]", s[pos:])
            suffix = ""
            if sub_:
                pos += len(sub_.group(0))
                suffix = sub_.group(0).replace("{", "").replace("}", "")
            return F.sym(("v" if m.group(1) == "dot" else "a") + repr(inner) + suffix)
        if c in "([":
            pos += 1
            v = expr()
            assert peek() in ")]"
            pos += 1
            return v
        if c == "{":
            return group()
        m = re.match(r"\d+", s[pos:])
        if m:
            pos += len(m.group(0))
            return F.const(int(m.group(0)))
        m = re.match(r"[A-Za-z](_\{[^}]*\}|_[A-Za-z0-9])?", s[pos:])
        if m:
            pos += len(m.group(0))
            return F.sym(m.group(0).replace("{", "").replace("}", ""))
        raise Unsupported(f"latex atom at {s[pos:pos + 10]!r}")

    def power():
        nonlocal pos
        v = atom()
        if peek() == "^":
            pos += 1
            if peek() == "{":
                e = group()
            else:
                e = atom()
            v = v ** int(need(e).const_value())
        return v

    def term():
        v = None
        neg = False
        while True:
            c = peek()
            if c == "" or c in "+-)]}":
                break
            f = power()
            v = f if v is None else v * f
        if v is None:
            raise Unsupported(f"empty term in {s!r}")
        return v

    def expr():
        nonlocal pos
        c = peek()
        sign = 1
        if c in "+-":
            sign = -1 if c == "-" else 1
            pos += 1
        v = term() * sign
        while peek() in "+-" and peek() != "":
            c = peek()
            pos += 1
            t = term()
            v = v + t if c == "+" else v - t
        return v

    v = expr()
    if peek() != "":
        raise Unsupported(f"trailing latex {s[pos:]!r}")
    return v


def documented_newmark(ctx):
    """{A, A_1, A_0} read from the `.. math::` block of the SolveNewmark docstring"""
    cls = ctx.src.cls(NM, "SolveNewmark")
    doc = ast.get_docstring(cls, clean=False) or ""
    out = {}
    for nm in ("A", "A_1", "A_0"):
        m = re.search(r"^\s*" + re.escape(nm) + r"\s*&=\s*\\left\s*\[(.*?)\\right\s*\]", doc, re.S | re.M)
        if not m:
            raise AnchorError(f"SolveNewmark docstring: definition of {nm}")
        out[nm] = _latex_expr(m.group(1))
    m = re.search(r"u_\{-1\}\s*&=\s*(.*?)\\\\", doc, re.S)
    out["u_-1"] = _latex_expr(m.group(1)) if m else None
    return out, doc


def _precalcs(ctx, m_none):
    fn = ctx.src.func(NM, "SolveNewmark._newmark_precalcs")

    def cond(test, ev):
        t = utext(test)
        return {"self.ksize==0": False, "self.misNone": m_none, "self.unc": True}.get(t)

    env = {"self.h": h, "self.b": B_, "self.k": K_}
    if not m_none:
        env["self.m"] = M_
    ev = Evaluator(env=env, cond=cond, src=ctx.src)
    ev.run(fn.body)
    return ev, fn


def r2_code_equals_documentation(ctx):
    docs, doc = documented_newmark(ctx)
    for m_none in (False, True):
        ev, fn = _precalcs(ctx, m_none)
        mm = F.const(1) if m_none else M_
        tag = f"_newmark_precalcs (m {'None' if m_none else 'given'})"
        A, A1, A0 = ev.env.get("A"), ev.env.get("A1"), ev.env.get("A0")
        for nm, val, key in (("A", A, "A"), ("A1", A1, "A_1"), ("A0", A0, "A_0")):
            if val is None or is_unknown(val):
                ctx.error(f"{tag}: {nm}", fn, repr(val))
                continue
            want = docs[key].subs({"M": mm})
            ok = val.equals(want)
            ctx.check(ok, f"{tag}: {nm} equals the documented {key} = {docs[key]}", fn, None if ok else {"code": repr(val), "documented": repr(want)})
        for nm, num in (("self.A0", A0), ("self.A1", A1)):
            v = ev.env.get(nm)
            ok = v is not None and not is_unknown(v) and num is not None and A is not None and v.equals(num / A)
            ctx.check(ok, f"{tag}: {nm} is pre-divided by A", fn, None if ok else repr(v))
        v = ev.env.get("self.Ad")
        ok = v is not None and not is_unknown(v) and A is not None and v.equals(A)
        ctx.check(ok, f"{tag}: self.Ad is A", fn)
    # the comment block inside _newmark_precalcs is a third sibling
    fn = ctx.src.func(NM, "SolveNewmark._newmark_precalcs")
    src = ctx.src.seg(fn)
    com = {}
    for nm in ("A", "A1", "A0"):
        m = re.search(r"#\s*" + nm + r"\s*=\s*(.+)", src)
        if m:
            txt = m.group(1).strip().replace("^", "**").replace(" M", "*M").replace(" B", "*B").replace(" K", "*K")
            try:
                e = Evaluator(env={"M": M_, "B": B_, "K": K_, "h": h})
                com[nm] = e.ev(ast.parse(txt, mode="eval").body)
            except SyntaxError:
                com[nm] = None
    for nm, key in (("A", "A"), ("A1", "A_1"), ("A0", "A_0")):
        v = com.get(nm)
        if v is None or is_unknown(v):
            ctx.note(f"comment formula for {nm} not parsed")
            continue
        ok = v.equals(docs[key])
        ctx.check(ok, f"_newmark_precalcs: the comment's formula for {nm} agrees with the class documentation", fn, None if ok else repr(v))
    # start-up: u_-1 = u0 - v0 h ; F_-1 = K u_-1 + B v0 ; F_0 := K u0 + B v0
    ini = ctx.src.func(NM, "SolveNewmark._init_dva")
    d0, v0 = F.sym("d0"), F.sym("v0")
    f = tuple(F.sym(f"f{i}") for i in range(4))
    Ad = F.sym("Ad")
    for unc in (True, False):
        def cond(test, ev, unc=unc):
            t = utext(test)
            return {"self.rfsize": False, "self.ksize==0": False, "self.nonlin_terms": False, "self.unc": unc,
                    "d0isNone": False, "v0isNone": False}.get(t)

        def call(node, ev):
            d = dotted(node.func) or ""
            if d == "la.lu_solve" and len(node.args) >= 2:
                a, b = ev.ev(node.args[0]), ev.ev(node.args[1])
                if isinstance(b, tuple):
                    return tuple(need(x) / need(a) for x in b)
                if is_unknown(a) or is_unknown(b):
                    return a if is_unknown(a) else b
                return need(b) / need(a)
            if d in ("self._set_initial_cond",):
                return (d0, v0)
            if d in ("self._alloc_dva",):
                return (F.sym("d"), F.sym("v"), F.sym("a"))
            if d in ("self._init_dv",):
                return F.const(0)
            return NotImplemented

        def sub(node, ev):
            t = utext(node)
            if t in ("d0[self.nonrf]",):
                return d0
            if t in ("v0[self.nonrf]",):
                return v0
            if t == "force.shape[0]":
                return F.sym("n")
            if t == "force.shape[1]":
                return F.const(4)
            if t == "self.Ad[:,None]":
                return Ad
            if t == "d[self.nonrf,1]" and isinstance(node.ctx, ast.Load):
                for b_, i_, v_, s_ in reversed(ev.stores):
                    if b_ == "d" and i_.replace(" ", "") in ("self.nonrf,1", "(self.nonrf,1)"):
                        return v_
            return NotImplemented

        N0 = F.sym("N0")   # nonlinear force of the start-up step (sum_k T_k z_k(d, 0, h)), zero when no nonlinear terms are defined
        ev = Evaluator(env={"force": f, "self.h": h, "self.k": K_, "self.b": B_, "self.Ad": Ad, "self.A1": F.sym("A1p"), "self.A0": F.sym("A0p"),
                            "self.n": F.sym("n")}, cond=cond, src=ctx.src, call=call, subscript=sub, pinned={"N": N0})
        ev.run(ini.body)
        tag = f"SolveNewmark._init_dva ({'uncoupled' if unc else 'coupled'})"
        u1 = ev.env.get("u_1")
        ok = u1 is not None and not is_unknown(u1) and u1.equals(d0 - v0 * h)
        ctx.check(ok, f"{tag}: u_-1 = u_0 - v_0 h as documented", ini, None if ok else repr(u1))
        d1 = [v for b, i, v, s in ev.stores if b == "d" and i.replace(" ", "") in ("self.nonrf,1", "(self.nonrf,1)")]
        a0 = [v for b, i, v, s in ev.stores if b == "a"]
        if not d1 or is_unknown(d1[-1]):
            ctx.error(f"{tag}: first step", ini, repr(d1))
            continue
        um1 = d0 - v0 * h
        # documented: A u_1 = (F_1 + F_0 + F_-1)/3 + A_1 u_0 + A_0 u_-1 with F_0 := K u0 + B v0, F_-1 = K u_-1 + B v0 ; A1p = A_1/A, A0p = A_0/A
        want = (f[1] + (K_ * d0 + B_ * v0) + (K_ * um1 + B_ * v0)) / (3 * Ad) + N0 + F.sym("A1p") * d0 + F.sym("A0p") * um1
        ok = d1[-1].equals(want)
        ctx.check(ok, f"{tag}: the first step uses F_0 := K u_0 + B v_0, F_-1 = K u_-1 + B v_0, u_-1 and the start-up nonlinear term N_0 in the documented recurrence", ini,
                  None if ok else {"code": repr(d1[-1]), "documented": repr(want)})
        ok = bool(a0) and not is_unknown(a0[-1]) and a0[-1].equals((d1[-1] - 2 * d0 + um1) / (h * h))
        ctx.check(ok, f"{tag}: initial acceleration is the central difference (u_1 - 2 u_0 + u_-1)/h^2", ini, None if ok else repr(a0[-1]) if a0 else None)
        frc = ev.env.get("force")
        ok = isinstance(frc, tuple) and all(not is_unknown(x) for x in frc) and all(frc[i].equals(f[i] / (3 * Ad)) for i in (1, 2, 3))
        ctx.check(ok, f"{tag}: the returned force is F/3 pre-divided by A (what the recurrence in tsolve adds directly)", ini)


def _tsolve_arms(ctx):
    fn = ctx.src.func(NM, "SolveNewmark.tsolve")
    arms = {}
    for st in ast.walk(fn):
        if isinstance(st, ast.For) and ast.unparse(st.iter).replace(" ", "") == "range(2,nt)":
            doms = []
            for a in ancestors(st):
                if isinstance(a, ast.If):
                    inb = any(st is y for x in a.body for y in ast.walk(x))
                    doms.append((ast.unparse(a.test).replace(" ", ""), inb))
            nl = not dict(doms).get("self.nonlin_terms==0", True)
            unc = dict(doms).get("self.unc", None)
            # the De statement that follows the loop in the same block
            blk = getattr(parent(st), "body") if st in getattr(parent(st), "body", []) else getattr(parent(st), "orelse")
            de = blk[blk.index(st) + 1] if blk.index(st) + 1 < len(blk) else None
            arms[(unc, nl)] = (st, de)
    return fn, arms


def r1_four_branch_agreement(ctx):
    fn, arms = _tsolve_arms(ctx)
    ok = set(arms) == {(True, False), (False, False), (True, True), (False, True)}
    if not ctx.check(ok, "SolveNewmark.tsolve: four recurrence loops (uncoupled/coupled x with/without nonlinear terms)", fn, sorted(map(str, arms))):
        return
    A1p, A0p = F.sym("A1p"), F.sym("A0p")
    forms = {}
    for key, (lp, de) in arms.items():
        def sub(node, ev):
            t = utext(node)
            tb = {"F[:,j]": F.sym("Fj"), "F[:,j-1]": F.sym("Fj1"), "F[:,j-2]": F.sym("Fj2"), "D[:,j-1]": F.sym("Dj1"), "D[:,j-2]": F.sym("Dj2"),
                  "F[:,-1]": F.sym("Fl"), "D[:,-1]": F.sym("Dl"), "D[:,-2]": F.sym("Dl2")}
            return tb.get(t, NotImplemented)

        def call(node, ev):
            if dotted(node.func) == "_get_nonlin":
                return F.sym("N_" + ast.unparse(node.args[0]).replace(" ", "").replace("-", "m"))
            return NotImplemented

        ev = Evaluator(env={"A1": A1p, "A0": A0p}, src=ctx.src, subscript=sub, call=call)
        ev.run(lp.body)
        dj = [v for b, i, v, s in ev.stores if b == "D"]
        ev.stmt(de) if de is not None else None
        forms[key] = (dj[-1] if dj else None, ev.env.get("De"))
    for key, (dj, De) in forms.items():
        unc, nl = key
        tag = f"tsolve ({'uncoupled' if unc else 'coupled'}, {'nonlinear' if nl else 'linear'})"
        N = F.sym("N_jm1") if nl else F.const(0)
        want = F.sym("Fj") + F.sym("Fj1") + F.sym("Fj2") + N + A1p * F.sym("Dj1") + A0p * F.sym("Dj2")
        ok = dj is not None and not is_unknown(dj) and dj.equals(want)
        ctx.check(ok, f"{tag}: u_j = F_j + F_j-1 + F_j-2 {'+ N_j-1 ' if nl else ''}+ A1 u_j-1 + A0 u_j-2 (forces already scaled by 1/(3A): the documented recurrence)",
                  arms[key][0], None if ok else repr(dj))
        # last step: the same recurrence at j = nt with F_nt := 2 F_last - F_last-1 (linear extrapolation)
        Nl = F.sym("N_ntm1") if nl else F.const(0)
        Fe = 2 * F.sym("Fl") - F.sym("Fl2")
        wantDe = (Fe + F.sym("Fl") + F.sym("Fl2")) + Nl + A1p * F.sym("Dl") + A0p * F.sym("Dl2")
        ok = De is not None and not is_unknown(De) and De.equals(wantDe)
        ctx.check(ok, f"{tag}: the extra step De is the recurrence with the force linearly extrapolated (F_e + F_-1 + F_-2 = 3 F_-1)"
                      f"{' and the nonlinear term of the last step' if nl else ''}", arms[key][1] or arms[key][0], None if ok else repr(De))
    base = forms[(True, False)]
    for key, (dj, De) in forms.items():
        if key == (True, False) or dj is None or base[0] is None:
            continue
        same = dj.subs({"N_jm1": 0}).equals(base[0]) and De is not None and base[1] is not None and De.subs({"N_ntm1": 0}).equals(base[1])
        ctx.check(same, f"tsolve: the {'uncoupled' if key[0] else 'coupled'}/{'nonlinear' if key[1] else 'linear'} arm is the uncoupled linear arm "
                        "(with `@` for `*` and the nonlinear term added)", arms[key][0])


def r3_differences(ctx):
    fn = ctx.src.func(NM, "SolveNewmark.tsolve")
    D = tuple(F.sym(f"D{i}") for i in range(5))
    De = F.sym("De")
    ev = Evaluator(env={"D": D, "De": De, "h": h, "V": tuple(F.sym(f"V{i}") for i in range(5)), "A": tuple(F.sym(f"A{i}") for i in range(5))},
                   src=ctx.src)
    for st in walk_no_nested(fn):
        if isinstance(st, ast.Assign) and ast.unparse(st.targets[0]) in ("h2", "sqh"):
            ev.stmt(st)
    sts = [st for st in walk_no_nested(fn) if isinstance(st, ast.Assign) and isinstance(st.targets[0], ast.Subscript)
           and ast.unparse(st.targets[0].value) in ("V", "A") and "D[" in ast.unparse(st.value)]
    for st in sts:
        ev.stmt(st)
    V, A = ev.env.get("V"), ev.env.get("A")
    n = len(D)
    okv = isinstance(V, tuple) and all(not is_unknown(V[i]) and V[i].equals((D[i + 1] - D[i - 1]) / (2 * h)) for i in range(1, n - 1))
    ctx.check(okv, "tsolve: interior velocities are the documented central difference (u_n+1 - u_n-1)/(2h)", sts[0] if sts else fn,
              None if okv else repr(V))
    oka = isinstance(A, tuple) and all(not is_unknown(A[i]) and A[i].equals((D[i + 1] - 2 * D[i] + D[i - 1]) / (h * h)) for i in range(1, n - 1))
    ctx.check(oka, "tsolve: interior accelerations are the documented central difference (u_n+1 - 2 u_n + u_n-1)/h^2", sts[0] if sts else fn,
              None if oka else repr(A))
    okl = isinstance(V, tuple) and not is_unknown(V[-1]) and V[-1].equals((De - D[-2]) / (2 * h)) and isinstance(A, tuple) and \
        not is_unknown(A[-1]) and A[-1].equals((De - 2 * D[-1] + D[-2]) / (h * h))
    ctx.check(okl, "tsolve: the last velocity and acceleration use the extrapolated step De in the same differences", sts[-1] if sts else fn)
    # nonlinear term placement
    t = utext(fn)
    ok = t.count("_get_nonlin(j-1)") == 2 and t.count("_get_nonlin(nt-1)") == 2
    ctx.check(ok, "tsolve: the nonlinear force of step j-1 feeds step j, and that of step nt-1 feeds the extra step", fn)
    gn = ctx.src.func(NM, "SolveNewmark.tsolve._get_nonlin")
    t = utext(gn)
    ok = "z=func(D,j,h,**args)" in t and "self.z[key][:,j]=z" in t and "N+=T@z" in t
    ctx.check(ok, "_get_nonlin: N_j = sum_k T_k z_k(D, j, h) and z is recorded at column j", gn)
    dn = ctx.src.func(NM, "SolveNewmark.def_nonlin")
    t = utext(dn)
    ok = "T=v[1]/self.Ad[:,None]" in t and "T=la.lu_solve(self.Ad,v[1])" in t
    ctx.check(ok, "def_nonlin: the nonlinear transforms are pre-divided by A like every other right-hand-side term", dn)


def r4_cdf_equals_unc_on_diagonal(ctx):
    fn = ctx.src.func(BASE, "_BaseODE._chk_diag_part")
    sets = [st for st in ast.walk(fn) if isinstance(st, ast.Assign) and ast.unparse(st.targets[0]) == "cdforces"]
    trues = [st for st in sets if ast.unparse(st.value) == "True"]
    ok = len(trues) == 1
    if ctx.check(ok, "_chk_diag_part: cdforces is set True at exactly one place", fn, [ast.unparse(s) for s in sets]):
        st = trues[0]
        p_ = parent(st)
        ok = isinstance(p_, ast.If) and ast.unparse(p_.test) == "cd_as_force" and st in p_.body
        gp = parent(p_)
        ok = ok and isinstance(gp, ast.If) and p_ in gp.orelse and "isdiag(b)" in ast.unparse(gp.test) and "b.ndim==1" in ast.unparse(gp.test).replace(" ", "")
        ctx.check(ok, "_chk_diag_part: cdforces becomes True only on the `elif cd_as_force` arm reached when the damping is NOT diagonal - "
                      "with diagonal damping SolveCDF takes exactly SolveUnc's path", st)
    t = utext(fn)
    ok = "else:cdforces=False" in t.replace("\n", "") and "self.cdforces=cdforces" in t
    ctx.check(ok, "_chk_diag_part: a system that is not fully uncoupled resets cdforces to False", fn)
    c = ctx.src.func(CDF, "SolveCDF.__init__")
    ok = "super().__init__(m,b,k,h,rb,rf,order,pre_eig,cd_as_force=True)" in utext(c)
    ctx.check(ok, "SolveCDF.__init__ is SolveUnc.__init__ with cd_as_force=True and nothing else", c)
    for q in ("SolveCDF.generator", "SolveCDF.fsolve"):
        f2 = ctx.src.func(CDF, q)
        rets = [ast.unparse(r.value).replace(" ", "") for r in ast.walk(f2) if isinstance(r, ast.Return)]
        ok = len(rets) == 1 and rets[0].startswith("super().")
        ctx.check(ok, f"{q} only delegates to SolveUnc", f2)
    # every cdforces-specific branch in SolveUnc / _BaseODE is behind `self.cdforces`
    uses = []
    for rel in (UNC, BASE):
        m = ctx.src.mod(rel)
        for q, f2 in m.funcs.items():
            for n in walk_no_nested(f2):
                if isinstance(n, ast.Call) and (dotted(n.func) or "").endswith("_cdforces"):
                    doms = [ast.unparse(a.test).replace(" ", "") for a in ancestors(n) if isinstance(a, ast.If) and
                            any(n is y for x in a.body for y in ast.walk(x))]
                    uses.append((q, ast.unparse(n.func), "self.cdforces" in doms))
    ok = bool(uses) and all(u[2] for u in uses)
    ctx.check(ok, "the damping-as-force solver and generator are reached only under `if self.cdforces`", UNC + ":1", uses)


def r5_implicit_update(ctx):
    """V1 = v_part - Bp alpha v_part solves V1 = Fp d + Gp v + Ap (f0 - bo v0) + Bp (f1 - bo V1), alpha = bo (I + Bp bo)^-1"""
    init = ctx.src.func(UNC, "SolveUnc.__init__")
    bo, Bp = F.sym("bo"), F.sym("Bp")

    def call(node, ev):
        d = dotted(node.func) or ""
        if d == "la.solve":
            a, b = ev.ev(node.args[0]), ev.ev(node.args[1])
            if is_unknown(a) or is_unknown(b):
                return a if is_unknown(a) else b
            return need(b) / need(a)
        if d == "np.eye":
            return F.const(1)
        return NotImplemented

    def sub(node, ev):
        if utext(node) == "self.pc.Bp[:,None]":
            return Bp
        return NotImplemented

    ev = Evaluator(env={"self.bo": bo}, src=ctx.src, call=call, subscript=sub)
    blk = [st for st in ast.walk(init) if isinstance(st, ast.If) and "self.cdforces" in ast.unparse(st.test)]
    if not blk:
        raise AnchorError("SolveUnc.__init__: cdforces block")
    ev.run(blk[0].body)
    alpha = ev.env.get("self.pc.alpha")
    ok = alpha is not None and not is_unknown(alpha) and alpha.equals(bo / (1 + Bp * bo))
    ctx.check(ok, "SolveUnc.__init__: alpha = bo (I + Bp bo)^-1 (computed as solve(tmp.T, bo.T).T with tmp = I + Bp bo)", blk[0], None if ok else repr(alpha))
    t = ast.unparse(blk[0]).replace(" ", "")
    ok = "self.pc.alpha=la.solve(tmp.T,self.bo.T).T" in t and "tmp=np.eye(self.ksize)+Bp*self.bo" in t
    ctx.check(ok, "SolveUnc.__init__: the transposes make it a right-division (X tmp = bo), Bp scales the rows of bo", blk[0])
    from . import c08
    cb = c08._batch_cdforces(ctx)
    Fd, G, A, B, Fp, Gp, Ap = (c08.COEF[x] for x in ("F", "G", "A", "B", "Fp", "Gp", "Ap"))
    Bpc = c08.COEF["Bp"]
    al = c08.BO / (1 + Bpc * c08.BO)
    for order in (1, 0):
        d1, v1, dnext, d00, loop = cb[order]
        if any(x is None or is_unknown(x) for x in (d1, v1, dnext)):
            ctx.error(f"_solve_real_unc_cdforces (order {order})", loop)
            continue
        f1 = c08.F1 if order == 1 else c08.F0
        V1 = v1.subs({"alpha": al})
        D1 = d1.subs({"alpha": al})
        rhs_v = Fp * c08.D0 + Gp * c08.V0 + Ap * (c08.F0 - c08.BO * c08.V0) + Bpc * (f1 - c08.BO * V1)
        ok = V1.equals(rhs_v)
        ctx.check(ok, f"_solve_real_unc_cdforces (order {order}): the velocity update solves the commented implicit equation "
                      "V1 = Fp d + Gp v + Ap (f0 - bo v0) + Bp (f1 - bo V1)", loop, None if ok else repr(V1))
        rhs_d = Fd * c08.D0 + G * c08.V0 + A * (c08.F0 - c08.BO * c08.V0) + B * (f1 - c08.BO * V1)
        ok = D1.equals(rhs_d)
        ctx.check(ok, f"_solve_real_unc_cdforces (order {order}): the displacement update is D1 = F d + G v + A (f0 - bo v0) + B (f1 - bo V1)", loop,
                  None if ok else repr(D1))
        ok = dnext.subs({"alpha": al}).equals(c08.BO * V1)
        ctx.check(ok, f"_solve_real_unc_cdforces (order {order}): the damping force carried to the next step is bo V1", loop)


def r6_typing(ctx):
    U = O.mode_U()
    U.update({"self.A0": O.Arr("K", "K"), "self.A1": O.Arr("K", "K"), "self.Ad": O.Arr("K", "K")})
    for q in ("SolveNewmark._newmark_precalcs", "SolveNewmark._init_dva", "SolveNewmark.tsolve"):
        O.type_function(ctx, NM, q, U, "Newmark", rule="C17-R6")


RULES = [
    ("C17-R1", r1_four_branch_agreement, 11),
    ("C17-R2", r2_code_equals_documentation, 20),
    ("C17-R3", r3_differences, 6),
    ("C17-R4", r4_cdf_equals_unc_on_diagonal, 7),
    ("C17-R5", r5_implicit_update, 8),
    ("C17-R6", r6_typing, 10),
]
LEVEL = "other"
EXPLANATION = ("Static: the Newmark matrices extracted from _newmark_precalcs equal the formulas parsed from the class docstring's LaTeX (and the comment "
               "block), the start-up step uses the documented u_-1, F_-1 and replaced F_0, all four tsolve branches are the documented recurrence, the last "
               "step is the recurrence with the linearly extrapolated force, velocities/accelerations are the documented differences (checked on a "
               "generic 5-point history); SolveCDF reaches damping-as-force code only for non-diagonal damping; the CDF update solves its implicit equations.")
MANIFEST = {
    "text": "Partial claim decided statically: (R1) four-branch agreement and last-step extrapolation; (R2) code == documentation for A, A_1, A_0 (LaTeX parsed from "
            "the docstring), start-up u_-1 / F_-1 / F_0 and 1/3 force average pre-divided by A; (R3) central differences, nonlinear term placement; "
            "(R4) SolveCDF == SolveUnc on diagonal damping by dominance; (R5) alpha = bo (I + Bp bo)^-1 and the implicit V1, D1 equations; (R6) index-space typing. "
            "Not decided: order of convergence, boundedness, massless-DOF behaviour numerically.",
    "note": "Trusted: CPython ast; verifier/e2_formula.py with commutative abstraction of matrix products; the LaTeX subset reader in verifier/c17.py.",
    "technique": "static formula extraction compared with formulas parsed from the docstring's LaTeX; symbolic small-vector evaluation of difference formulas; dominance rules",
}
