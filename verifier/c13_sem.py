"""C13 helper: a small symbolic forward interpreter for card writers / readers.

Nothing of the repo is imported or executed.  A function body is walked path by path on *values*:

 * integers are linear forms (`Lin`) over atoms (parameters, `len(x)`, `floor(L / k)`, `min(...)`, opaque applications); `x % k` is
   `x - k * floor(x / k)`, so `rows = npts // 4; r = rows * 4`, `r = npts - npts % 4` and `r = 4 * (npts // 4)` are the same value;
 * strings are sequences of parts (literal text, formatted values with their format spec, opaque strings such as the parameter `form`,
   repetitions with a symbolic count); `+`, `*`, f-strings, `.format`, `%`, `format(x, spec)`, module constants and temporaries all
   produce the same sequence;
 * everything else is a nested tuple (`("sym", name)`, `("slice", base, lo, hi, step)`, `("elem", base, index)`, `("op", name, args)`),
   so two spellings that compute the same thing are equal tuples;
 * every branch is followed (one state per path) and the tests passed on the way are kept as *facts* `(test value, polarity)`; an arm
   that ends in `return` / `raise` / `continue` leaves the negated test as a fact for what follows - a guard is recognised by what it
   implies at the point of use, not by where or how it is written;
 * loops are entered once with every name the body rebinds replaced by a fresh symbol (and `counter += positive constant` gives the
   fact `counter >= value before the loop`); the negated `while` test is a fact after the loop.

Rules read the recorded events (`call`, `assign`, `store`, `return`, `for`, `while`, `loopend`, `format`) with their facts.

Third pass - what is followed in addition (each form has a behaviour-preserving and a broken recipe in recipes_c13.py):
 * functions are values with an identity (two `def`s of one name in different arms are different functions); default values are evaluated where
   the `def` / lambda is executed; a function that outlives the call that defined it (returned by a helper, a decorator's wrapper) keeps the
   environment that call left behind (`closure`); a public function decorated with helpers of its module is evaluated as the decorated object
   called with its own parameters; a nested function rebinds the names it declares `nonlocal` (and the lists of the enclosing function it appends
   to) in the frame they live in; a function that calls itself in tail position only is evaluated as the loop it spells, any other recursion is
   Unsupported (nothing may be concluded from a call that is not followed but may write);
 * a module-level dictionary that starts empty and is touched by one function only through `D[k]`, `D[k] = v`, `k in D`, `D.get(k)`,
   `D.setdefault(k, v)` is a memo: the miss path is evaluated, a hit returns what an earlier miss stored under the same key - justified by the
   checks made at every store (the value and every test made while it was computed are functions of the key, one key has one value on all
   paths of the evaluation, call sites that bring their own way of computing the value are told apart by a literal key component);
 * `try: TABLE[key] except KeyError: ...` on a literal table forks into one state per key and the handler for any other key; a literal table with
   integer keys read with an unknown key forks the same way (the remaining case raises);
 * `match` with class patterns without sub-patterns (isinstance), captures, fixed-length sequence patterns over a tuple written in place;
 * io.StringIO objects used only as text accumulators are the string written to them so far; bound methods / functions of other modules / partial
   objects of functions that are not followed, held by a local, are the call they stand for; `yield from`; `with` on a context manager class of
   the module (__enter__ / __exit__ are run) or on a contextlib.contextmanager generator; an expression statement that is control flow in disguise
   (`a and f()`, a comprehension evaluated for its effects, `list(map(f, xs))`) is the statement it stands for - and where output would be produced
   inside an expression whose events are dropped (a comprehension's element, a later operand of `and` / `or`) the construct is Unsupported;
 * `return` inside a loop leaves it like `break` (the path carries the other arms' events and a `loopexit`); the values helper calls were given
   ahead of a statement are dropped after the statement (a loop body that is unrolled runs it again with other values).
"""
from __future__ import annotations

import ast
import re
from fractions import Fraction

from .core import Unsupported
from .e1_srcmodel import dotted, walk_no_nested

MAX_STATES = 768


# ====================================================================================================================== Lin
class Lin:
    """c + sum coef * atom ; atoms are hashable values (tuples); integer valued"""
    __slots__ = ("t", "c", "_h")

    def __init__(self, t=None, c=0):
        self.t = {k: (v if type(v) is Fraction else Fraction(v)) for k, v in t.items() if v != 0} if t else {}
        self.c = c if type(c) is Fraction else Fraction(c)
        self._h = None

    @staticmethod
    def _raw(t, c):
        """a linear form from a dict of non-zero Fraction coefficients and a Fraction constant (no conversion)"""
        x = Lin.__new__(Lin)
        x.t, x.c, x._h = t, c, None
        return x

    # -- structure
    def __hash__(self):
        if self._h is None:
            self._h = hash((frozenset(self.t.items()), self.c))
        return self._h

    def __eq__(self, o):
        return isinstance(o, Lin) and self.c == o.c and self.t == o.t

    def __repr__(self):
        if not self.t:
            return str(self.c)
        parts = []
        for k, v in sorted(self.t.items(), key=lambda kv: repr(kv[0])):
            parts.append((f"{v}*" if v != 1 else "") + show(k))
        if self.c:
            parts.append(str(self.c))
        return "(" + " + ".join(parts) + ")"

    def is_const(self):
        return not self.t

    def const(self):
        return self.c

    def atoms(self):
        return list(self.t)

    # -- arithmetic
    def __add__(self, o):
        o = lin(o)
        if not o.t:
            return Lin._raw(self.t, self.c + o.c) if o.c else self
        t = dict(self.t)
        for k, v in o.t.items():
            w = t.get(k)
            if w is None:
                t[k] = v
            else:
                w = w + v
                if w:
                    t[k] = w
                else:
                    del t[k]
        return Lin._raw(t, self.c + o.c)

    __radd__ = __add__

    def __neg__(self):
        return Lin._raw({k: -v for k, v in self.t.items()}, -self.c)

    def __sub__(self, o):
        return self + (-lin(o))

    def __rsub__(self, o):
        return lin(o) - self

    def scale(self, k):
        k = Fraction(k)
        return Lin({a: v * k for a, v in self.t.items()}, self.c * k)

    def __mul__(self, o):
        o = lin(o)
        if o.is_const():
            return self.scale(o.c)
        if self.is_const():
            return o.scale(self.c)
        a, b = sorted((self, o), key=repr)
        return Lin({("mul", a, b): 1})

    __rmul__ = __mul__


def lin(v):
    """value -> Lin (an opaque value becomes an atom)"""
    if isinstance(v, Lin):
        return v
    if isinstance(v, bool):
        return Lin(c=int(v))
    if isinstance(v, (int, Fraction)):
        return Lin(c=v)
    if isinstance(v, tuple) and v and v[0] == "k" and isinstance(v[1], (int,)) and not isinstance(v[1], bool):
        return Lin(c=v[1])
    return Lin({v: 1})


def is_int_const(v):
    return isinstance(v, Lin) and v.is_const() and v.c.denominator == 1


def ival(v):
    return int(v.c)


def floordiv(a, k):
    """floor(a / k) for a positive integer constant k; integer multiples of k are pulled out of the floor"""
    a = lin(a)
    if not (isinstance(k, int) and k > 0):
        raise Unsupported("floor division by a non-constant")
    out_t, rem_t = {}, {}
    for at, v in a.t.items():
        if v.denominator == 1 and v.numerator % k == 0:
            out_t[at] = v / k
        else:
            rem_t[at] = v
    if a.c.denominator != 1:
        raise Unsupported("floor division of a fraction")
    if not rem_t:
        q, r = divmod(int(a.c), k)
        return Lin(out_t, q)
    q, r = divmod(int(a.c), k)
    rest = Lin(rem_t, r)
    return Lin(out_t, q) + Lin({("fd", rest, k): 1})


def mod(a, k):
    a = lin(a)
    return a - floordiv(a, k).scale(k)


def show(v):
    if isinstance(v, Lin):
        return repr(v)
    if isinstance(v, S):
        return repr(v)
    if isinstance(v, tuple) and v:
        h = v[0]
        if h == "sym":
            return v[1]
        if h == "k":
            return repr(v[1])
        if h == "fd":
            return f"floor({show(v[1])}/{v[2]})"
        if h == "len":
            return f"len({show(v[1])})"
        if h == "flen":
            return f"len({show(v[1])}.format(<{v[2]} args>))"
        if h == "dim":
            return f"shape({show(v[1])})[{v[2]}]"
        if h == "slice":
            return f"{show(v[1])}[{show(v[2])}:{show(v[3])}:{show(v[4])}]"
        if h == "elem":
            return f"{show(v[1])}[{show(v[2])}]"
        if h == "op":
            return f"{v[1]}({', '.join(show(x) for x in v[2])})"
        if h == "tuple":
            return "(" + ", ".join(show(x) for x in v[1]) + ")"
        if h == "cmp":
            return f"{show(v[2])} {v[1]} {show(v[3])}"
        if h == "not":
            return f"not {show(v[1])}"
        if h == "bool":
            return "(" + f" {v[1]} ".join(show(x) for x in v[2]) + ")"
        if h == "in":
            return f"{show(v[1])} {'not in' if v[3] else 'in'} {show(v[2])}"
        if h == "attr":
            return f"{show(v[1])}.{v[2]}"
        return "(" + " ".join(show(x) for x in v) + ")"
    return repr(v)


# ====================================================================================================================== format specs
_SPEC = re.compile(r"^(?:(?P<fill>.)?(?P<align>[<>=^]))?(?P<sign>[-+ ])?(?P<z>z)?(?P<alt>#)?(?P<zero>0)?(?P<w>\d+)?(?P<grp>[_,])?(?:\.(?P<p>\d+))?(?P<t>[bcdeEfFgGnosxX%])?$",
                   re.S)
_PCT = re.compile(r"%(?P<flags>[-+ #0]*)(?P<w>\d+)?(?:\.(?P<p>\d+))?(?P<t>[diouxXeEfFgGcrsa%])")


class Spec:
    __slots__ = ("text", "width", "prec", "type", "align", "sign")

    def __init__(self, text, width, prec, typ, align="", sign=""):
        self.text, self.width, self.prec, self.type, self.align, self.sign = text, width, prec, typ, align, sign

    def __repr__(self):
        return self.text

    def canon(self):
        """spelling-independent name of the spec: width.precision type (alignment of a number does not change its length)"""
        return f"{self.width if self.width is not None else ''}{'.' + str(self.prec) if self.prec is not None else ''}{self.type}"


def parse_spec(text):
    m = _SPEC.match(text or "")
    if not m:
        return None
    return Spec(text or "", int(m.group("w")) if m.group("w") else None, int(m.group("p")) if m.group("p") else None, m.group("t") or "",
                m.group("align") or "", m.group("sign") or "")


def float_max_width(sp):
    """widest rendering of a finite double under the spec: an int, or None when unbounded, or 0 when the spec is not a floating-point one"""
    t = sp.type
    W = sp.width or 0
    if t in ("e", "E"):
        P = 6 if sp.prec is None else sp.prec
        # [-]d.PPP e [+-] ddd   (three-digit exponents exist below 1e-99 and above 1e+99); no point when P == 0
        return max(W, 1 + 1 + (1 + P if P else 0) + 1 + 1 + 3)
    if t in ("f", "F"):
        return None
    if t in ("g", "G"):
        P = 6 if sp.prec is None else (sp.prec or 1)
        return max(W, 1 + P + (1 if P > 1 else 0) + 1 + 1 + 3)
    return 0


# ====================================================================================================================== strings
class S:
    """a string value: tuple of parts
         ("lit", text)                      literal characters
         ("fv", spec text|None, value, role) a formatted value (f-string field, bound `.format` / `%` field, format(x, spec))
         ("str", value)                     an opaque string (parameter `form`, `name`, ...)
         ("fmt", value, args)               an opaque template rendered with args  (form.format(a, b))
         ("rep", S, Lin)                    repetition with a symbolic count"""
    __slots__ = ("p", "_h")

    def __init__(self, parts=()):
        out = []
        for x in parts:
            if x[0] == "fv" and x[1] is not None and isinstance(x[2], Lin) and x[2].is_const() and x[2].c.denominator == 1:
                sp = parse_spec(x[1]) if not x[1].startswith("%") else None
                try:
                    if sp is not None and sp.type in ("d", ""):
                        x = ("lit", format(int(x[2].c), x[1]))
                    elif x[1].startswith("%") and x[1][-1] in "di":
                        x = ("lit", x[1] % int(x[2].c))
                except (ValueError, TypeError):
                    pass
            elif x[0] == "fv" and x[1] is not None and isinstance(x[2], S) and x[2].text() is not None:
                sp = parse_spec(x[1])
                try:
                    if sp is not None and sp.type in ("s", ""):
                        x = ("lit", format(x[2].text(), x[1]))          # a literal string in a field: f"{'*':<8s}" is '*       '
                except (ValueError, TypeError):
                    pass
            if x[0] == "lit":
                if not x[1]:
                    continue
                if out and out[-1][0] == "lit":
                    out[-1] = ("lit", out[-1][1] + x[1])
                    continue
            out.append(x)
        self.p = tuple(out)
        self._h = None

    def __hash__(self):
        if self._h is None:
            self._h = hash(("S", self.p))
        return self._h

    def __eq__(self, o):
        return isinstance(o, S) and self.p == o.p

    def __repr__(self):
        out = []
        for x in self.p:
            if x[0] == "lit":
                out.append(repr(x[1]))
            elif x[0] == "fv":
                out.append("{" + show(x[2]) + ":" + (x[1] or "") + "}")
            elif x[0] == "str":
                out.append("<" + show(x[1]) + ">")
            elif x[0] == "fmt":
                out.append("<" + show(x[1]) + ".format(" + ", ".join(show(a) for a in x[2]) + ")>")
            elif x[0] == "rep":
                out.append(repr(x[1]) + "*" + show(x[2]))
            elif x[0] == "join":
                out.append(repr(x[1]) + ".join(" + show(x[2][1]) + " for " + show(x[2][3]) + " in " + show(x[2][2]) + ")")
        return "S[" + " ".join(out) + "]"

    def __add__(self, o):
        return S(self.p + o.p)

    def text(self):
        """the literal text if the string is one literal, else None"""
        if not self.p:
            return ""
        if len(self.p) == 1 and self.p[0][0] == "lit":
            return self.p[0][1]
        return None

    def repeat(self, n):
        if is_int_const(n) and 0 <= ival(n) <= 64:
            return S(self.p * ival(n))
        return S((("rep", self, lin(n)),))


def as_S(v):
    if isinstance(v, S):
        return v
    return S((("str", v),))


def role_of(node):
    """name-independent description of a formatted expression: `num` -> term, `num.real` -> term.real"""
    if isinstance(node, ast.Name):
        return "term"
    if isinstance(node, ast.Attribute):
        parts = []
        n = node
        while isinstance(n, ast.Attribute):
            parts.append(n.attr)
            n = n.value
        if isinstance(n, ast.Name):
            return "term." + ".".join(reversed(parts))
        return "expr"
    if isinstance(node, ast.Constant):
        return "const"
    return "expr"


_FIELD = re.compile(r"\{\{|\}\}|\{(?P<name>[^{}:!]*)(?:!(?P<conv>[rsa]))?(?::(?P<spec>[^{}]*))?\}")


def template_items(s):
    """interpret a string value as a `str.format` template:
         ("text", str) | ("field", Spec|None, name) | ("sub", value) an opaque template fragment | ("rep", items, Lin)"""
    items = []
    for x in s.p:
        if x[0] == "lit":
            pos = 0
            txt = x[1]
            for m in _FIELD.finditer(txt):
                if m.start() > pos:
                    items.append(("text", txt[pos:m.start()]))
                if m.group(0) == "{{":
                    items.append(("text", "{"))
                elif m.group(0) == "}}":
                    items.append(("text", "}"))
                else:
                    items.append(("field", parse_spec(m.group("spec") or ""), m.group("name") or ""))
                pos = m.end()
            if pos < len(txt):
                items.append(("text", txt[pos:]))
        elif x[0] == "str":
            items.append(("sub", x[1]))
        elif x[0] == "rep":
            items.append(("rep", tuple(template_items(x[1])), x[2]))
        elif x[0] == "fv":
            items.append(("done", x))
        else:
            items.append(("done", x))
    merged = []
    for it in items:
        if it[0] == "text" and merged and merged[-1][0] == "text":
            merged[-1] = ("text", merged[-1][1] + it[1])
        else:
            merged.append(it)
    return merged


def count_fields(items, sub_args=None):
    """number of positional arguments a template consumes (Lin); an opaque fragment consumes sub_args[value] (default: unknown -> None)"""
    tot = Lin()
    for it in items:
        if it[0] == "field":
            tot = tot + 1
        elif it[0] == "sub":
            k = (sub_args or {}).get(it[1])
            if k is None:
                return None
            tot = tot + k
        elif it[0] == "rep":
            inner = count_fields(it[1], sub_args)
            if inner is None:
                return None
            tot = tot + inner * it[2]
        elif it[0] == "done":
            x = it[1]
            if x[0] in ("fmt", "join") or (x[0] == "fv" and (isinstance(x[2], S) or x[1] in (None, "", "s"))):
                return None             # text produced elsewhere sits in the template: it may hold fields of its own
    return tot


def pct_items(txt):
    items = []
    pos = 0
    for m in _PCT.finditer(txt):
        if m.start() > pos:
            items.append(("text", txt[pos:m.start()]))
        if m.group("t") == "%":
            items.append(("text", "%"))
        else:
            sp = Spec(m.group(0), int(m.group("w")) if m.group("w") else None, int(m.group("p")) if m.group("p") else None,
                      {"i": "d", "u": "d"}.get(m.group("t"), m.group("t")), "<" if "-" in m.group("flags") else "", "+" if "+" in m.group("flags") else "")
            items.append(("field", sp, ""))
        pos = m.end()
    if pos < len(txt):
        items.append(("text", txt[pos:]))
    return items


# ====================================================================================================================== facts / deciding
def cmp_const(op, a, b):
    return {"Eq": a == b, "NotEq": a != b, "Lt": a < b, "LtE": a <= b, "Gt": a > b, "GtE": a >= b}.get(op)


def lin_eval(v, assign):
    """concrete value of a Lin under {atom: number}; None when an atom stays free"""
    v = lin(v)
    tot = v.c
    for at, coef in v.t.items():
        x = atom_eval(at, assign)
        if x is None:
            return None
        tot += coef * x
    return tot


def atom_eval(at, assign):
    if at in assign:
        return Fraction(assign[at])
    if isinstance(at, tuple) and at:
        if at[0] == "fd":
            x = lin_eval(at[1], assign)
            if x is None or x.denominator != 1:
                return None
            return Fraction(int(x) // at[2])
        if at[0] in ("min", "max"):
            xs = [lin_eval(a, assign) for a in at[1]]
            if any(x is None for x in xs):
                return None
            return min(xs) if at[0] == "min" else max(xs)
        if at[0] == "mul":
            a, b = lin_eval(at[1], assign), lin_eval(at[2], assign)
            if a is None or b is None:
                return None
            return a * b
        if at[0] == "op" and at[1] in ("&", "|", "^", "<<", ">>") and len(at[2]) == 2:
            a, b = lin_eval(at[2][0], assign), lin_eval(at[2][1], assign)
            if a is None or b is None or a.denominator != 1 or b.denominator != 1:
                return None
            a, b = int(a), int(b)
            return Fraction({"&": a & b, "|": a | b, "^": a ^ b, "<<": a << b if 0 <= b < 64 else 0, ">>": a >> b if 0 <= b < 64 else 0}[at[1]])
    return None


def truth(test, assign):
    """three-valued truth of a test value under a partial assignment of atoms"""
    if isinstance(test, Lin):
        x = lin_eval(test, assign)
        return None if x is None else (x != 0)
    if isinstance(test, S):
        # a string is true when it has a character: known text, or any literal piece
        if test.text() is not None:
            return bool(test.text())
        return True if any(x[0] == "lit" and x[1] for x in test.p) else None
    if not isinstance(test, tuple) or not test:
        return None
    h = test[0]
    if h == "k":
        return bool(test[1])
    if h == "tuple" and len(test) == 2 and isinstance(test[1], tuple):
        # a list / tuple whose items are known is true when it has one (generated items may be none at all)
        known = [x for x in test[1] if not (isinstance(x, tuple) and x[:1] == ("star",))]
        return True if known else (False if not test[1] else None)
    if h == "cmp":
        if test[1] in ("Is", "Eq") and (test[2] == ("k", None)) != (test[3] == ("k", None)):
            other = test[3] if test[2] == ("k", None) else test[2]
            if isinstance(other, (Lin, S)) or (isinstance(other, tuple) and other[:1] in (("obj",), ("tuple",), ("dict",), ("func",), ("lambda",), ("closure",), ("range",))):
                return False            # a number, a string, a record, a list, a function is not None
        if not isinstance(test[2], (Lin,)) and not isinstance(test[3], (Lin,)):
            if test[2] == test[3] and test[1] in ("Eq", "NotEq", "Is", "IsNot"):
                return test[1] in ("Eq", "Is")
            if _is_k(test[2]) and _is_k(test[3]) and test[1] in ("Eq", "NotEq"):
                return (test[2][1] == test[3][1]) == (test[1] == "Eq")
            return None
        a, b = lin_eval(test[2], assign), lin_eval(test[3], assign)
        if a is None or b is None:
            return None
        return cmp_const(test[1], a, b)
    if h == "in":
        x = lin_eval(test[1], assign) if isinstance(test[1], Lin) else None
        if x is None:
            return None
        vals = []
        for e in test[2]:
            y = lin_eval(e, assign) if isinstance(e, Lin) else None
            if y is None:
                return None
            vals.append(y)
        r = x in vals
        return (not r) if test[3] else r
    if h == "not":
        r = truth(test[1], assign)
        return None if r is None else (not r)
    if h == "bool":
        rs = [truth(x, assign) for x in test[2]]
        if test[1] == "and":
            if any(r is False for r in rs):
                return False
            return True if all(r is True for r in rs) else None
        if any(r is True for r in rs):
            return True
        return False if all(r is False for r in rs) else None
    return None


def _is_k(v):
    return isinstance(v, tuple) and len(v) == 2 and v[0] == "k"


def consts_in(test, out):
    """integer constants a test mentions (for the finite partition of the integers on which it is piecewise constant)"""
    if isinstance(test, Lin):
        if test.c.denominator == 1:
            out.add(int(test.c))
        for at in test.t:
            consts_in(at, out)
        return
    if isinstance(test, S):
        return
    if isinstance(test, tuple):
        for x in test:
            if isinstance(x, (Lin, tuple)):
                consts_in(x, out)
            elif isinstance(x, int) and not isinstance(x, bool):
                out.add(x)


def mentions(v, atom):
    if v == atom:
        return True
    if isinstance(v, Lin):
        return any(mentions(a, atom) for a in v.t)
    if isinstance(v, S):
        return any(mentions(x, atom) for part in v.p for x in part[1:])
    if isinstance(v, tuple):
        return any(mentions(x, atom) for x in v if isinstance(x, (tuple, Lin, S)))
    return False


def possible_values(atom, facts, extra=(), lo=None, hi=None):
    """the integers the atom can take given the facts (tests that compare it, or linear forms of it alone, with constants); returned as
    (set of representative values consistent with the facts, set of all representatives): the facts are piecewise constant between the
    constants they mention, so c-1, c, c+1 for every mentioned constant c represent every integer"""
    cs = set(extra)
    rel = [(t, pol) for t, pol in facts if mentions(t, atom)]
    for t, _ in rel:
        consts_in(t, cs)
    cand = set()
    for c in cs:
        cand.update((c - 1, c, c + 1))
    if not cand:
        cand = {0, 1}
    span = max(abs(c) for c in cand) + 2
    cand.update((-span, span))
    if lo is not None:
        cand = {c for c in cand if c >= lo}
    if hi is not None:
        cand = {c for c in cand if c <= hi}
    ok = set()
    for c in cand:
        good = True
        for t, pol in rel:
            r = truth(t, {atom: c})
            if r is not None and r != pol:
                good = False
                break
        if good:
            ok.add(c)
    return ok, cand


# ---------------------------------------------------------------------------------------------------------------------- bounds
def nonneg_atom(at):
    """atoms that cannot be negative"""
    if isinstance(at, tuple) and at:
        if at[0] in ("len", "flen", "dim"):
            return True
        if at[0] == "fd":
            lo, _ = bounds(at[1], ())
            return lo is not None and lo >= 0
    return False


def _simple_fact(t):
    """comparisons of linear forms (through not / and / or): facts that need no other fact to be turned into `linear form >= 0`"""
    if isinstance(t, Lin):
        return False
    if isinstance(t, tuple) and t:
        if t[0] == "not":
            return _simple_fact(t[1])
        if t[0] == "bool":
            return all(_simple_fact(x) for x in t[2])
        if t[0] == "cmp":
            return isinstance(t[2], Lin) and isinstance(t[3], Lin)
    return False


def fact_lins(facts, _simple_only=False):
    """facts as linear forms known to be >= 0"""
    out = []
    simple = tuple(f for f in facts if _simple_fact(f[0]))
    for t, pol in facts:
        if _simple_only and not _simple_fact(t):
            continue
        _fact_lin(t, pol, out, () if _simple_only else simple)
    if not _simple_only and len(out) <= 60:
        # a bound on floor(x / k) is a bound on x:  floor(x / k) >= q  =>  x >= k * q ;  floor(x / k) <= q  =>  x <= k * q + k - 1
        import math
        fds = {at for g in out for at in g.t if isinstance(at, tuple) and at[:1] == ("fd",)}
        zero = Lin()
        for at in fds:
            lo = hi = None
            rel = [g for g in out if at in g.t]
            for g1 in rel:
                for g2 in [zero] + out:
                    s_ = g1 + g2
                    if len(s_.t) == 1 and at in s_.t:
                        a = s_.t[at]
                        b = -s_.c / a
                        if a > 0:
                            b = math.ceil(b)
                            lo = b if lo is None else max(lo, b)
                        else:
                            b = math.floor(b)
                            hi = b if hi is None else min(hi, b)
            if lo is not None and lo >= 1:
                out.append(at[1] - at[2] * lo)
            if hi is not None:
                out.append(-at[1] + (at[2] * hi + at[2] - 1))
        # max(xs) <= U  =>  every x <= U ;  min(xs) >= L  =>  every x >= L
        for g in list(out):
            if len(g.t) == 1:
                (at, a), = g.t.items()
                if isinstance(at, tuple) and at[:1] == ("max",) and a < 0:
                    U = math.floor(-g.c / a)
                    out.extend(Lin(c=U) - x for x in at[1])
                elif isinstance(at, tuple) and at[:1] == ("min",) and a > 0:
                    L = math.ceil(-g.c / a)
                    out.extend(x - Lin(c=L) for x in at[1])
    return out


def _fact_lin(t, pol, out, base):
    """`base`: simple facts that may be used to show that a truth-tested integer is non-negative"""
    if isinstance(t, Lin):
        lo, _ = bounds(t, base, _simple_only=True)
        if pol:
            if lo is not None and lo >= 0:
                out.append(t - 1)          # a non-negative integer that is true is >= 1
        else:
            out.append(t)
            out.append(-t)
        return
    if not isinstance(t, tuple) or not t:
        return
    if t[0] == "not":
        _fact_lin(t[1], not pol, out, base)
    elif t[0] == "bool":
        if (t[1] == "and" and pol) or (t[1] == "or" and not pol):
            for x in t[2]:
                _fact_lin(x, pol, out, base)
    elif t[0] == "cmp" and isinstance(t[2], Lin) and isinstance(t[3], Lin):
        op = t[1]
        if not pol:
            op = {"Eq": "NotEq", "NotEq": "Eq", "Lt": "GtE", "LtE": "Gt", "Gt": "LtE", "GtE": "Lt"}.get(op)
        d = t[2] - t[3]
        if op == "Eq":
            out.append(d)
            out.append(-d)
        elif op == "Lt":
            out.append(-d - 1)
        elif op == "LtE":
            out.append(-d)
        elif op == "Gt":
            out.append(d - 1)
        elif op == "GtE":
            out.append(d)
        elif op == "NotEq":
            lo, hi = bounds(d, base, _simple_only=True) if base else bounds(d, ())
            if lo is not None and lo >= 0:
                out.append(d - 1)
            elif hi is not None and hi <= 0:
                out.append(-d - 1)


_FL_CACHE = {}


def _fact_lins_cached(facts, simple_only):
    key = (facts if isinstance(facts, tuple) else tuple(facts), simple_only)
    try:
        r = _FL_CACHE.get(key)
    except TypeError:
        return fact_lins(facts, simple_only)
    if r is None:
        if len(_FL_CACHE) > 4000:
            _FL_CACHE.clear()
        _FL_CACHE[key] = ()             # a re-entrant request (through a truth-tested integer) sees no facts: no cycle
        r = tuple(fact_lins(facts, simple_only))
        _FL_CACHE[key] = r
    return r


_BCACHE = {}


def bounds(v, facts, depth=0, _simple_only=False, _fl=None):
    """(lower, upper) bounds of a linear form proved from the facts; None = not proved"""
    v = lin(v)
    if v.is_const():
        return v.c, v.c
    if depth == 0 and _fl is None and not _simple_only and isinstance(facts, tuple):
        # the same question is asked again and again while a path is followed: remember the answers per fact list (kept alive by the entry)
        ent = _BCACHE.get(id(facts))
        if ent is None or ent[0] is not facts:
            if len(_BCACHE) > 3000:
                _BCACHE.clear()
            ent = _BCACHE[id(facts)] = (facts, {})
        r = ent[1].get(v)
        if r is None:
            r = ent[1][v] = _bounds(v, facts, depth, _simple_only, _fl)
        return r
    return _bounds(v, facts, depth, _simple_only, _fl)


def _bounds(v, facts, depth=0, _simple_only=False, _fl=None):
    if _fl is None:
        if _simple_only:
            facts = tuple(f for f in facts if _simple_fact(f[0]))
        _fl = _fact_lins_cached(tuple(facts), _simple_only) if facts else ()
    fl = _fl
    v0 = v
    if depth == 0 and facts and any(isinstance(at, tuple) and at[:1] in (("min",), ("max",)) for at in v.t):
        # an extreme decided by the facts at hand (it may have been formed earlier, under fewer facts)
        for at, coef in list(v.t.items()):
            if isinstance(at, tuple) and at[:1] in (("min",), ("max",)) and not any(isinstance(x, tuple) and x[:1] in (("min",), ("max",)) for a in at[1] for x in a.t):
                keep = list(at[1])
                # max(xs) >= L known and x < L  =>  x is not the maximum (min: the other way round)
                elo, ehi = atom_bounds(at, facts, [g for g in fl if len(g.t) == 1 and at in g.t], 3)
                if at[0] == "max" and elo is not None:
                    keep2 = [a for a in keep if not (lambda h: h is not None and h < elo)(bounds(a, facts, 1, _fl=fl)[1])]
                    keep = keep2 or keep
                if at[0] == "min" and ehi is not None:
                    keep2 = [a for a in keep if not (lambda l_: l_ is not None and l_ > ehi)(bounds(a, facts, 1, _fl=fl)[0])]
                    keep = keep2 or keep
                if len(keep) == 1:
                    v = v - Lin({at: coef}) + keep[0].scale(coef)
                    continue
                for i, a in enumerate(at[1]):
                    others = [b for j, b in enumerate(at[1]) if j != i]
                    if all((lambda lo_: lo_ is not None and lo_ >= 0)(bounds((b - a) if at[0] == "min" else (a - b), facts, 1, _fl=fl)[0]) for b in others):
                        keep = [a]
                        break
                if len(keep) == 1:
                    v = v - Lin({at: coef}) + keep[0].scale(coef)
        if v.is_const():
            return v.c, v.c
    lo = hi = None
    # direct: v = g + c  for a fact g >= 0   /   v = -g + c   (also for the form before an extreme was resolved: the facts may speak about that)
    for vv in ((v, v0) if v0 is not v else (v,)):
        for g in fl:
            d = vv - g
            if d.is_const():
                lo = d.c if lo is None else max(lo, d.c)
            d = vv + g
            if d.is_const():
                hi = d.c if hi is None else min(hi, d.c)
    # two facts chained (transitivity):  v = g1 + g2 + c
    if depth <= 1 and len(fl) <= 60:
        vat = set(v.t)
        rel = [g for g in fl if vat & set(g.t)]
        for i, g1 in enumerate(rel):
            vm, vp = v - g1, v + g1
            km, kp = set(vm.t), set(vp.t)
            for g2 in fl:
                if g2 is g1:
                    continue
                if km == set(g2.t):             # only then can the difference be a constant
                    d = vm - g2
                    if d.is_const():
                        lo = d.c if lo is None else max(lo, d.c)
                if kp == set(g2.t):
                    d = vp + g2
                    if d.is_const():
                        hi = d.c if hi is None else min(hi, d.c)
    # one fact taken out, the remainder bounded by structure and by the other facts:  v = (v - g) + g >= bound(v - g)  for a fact g >= 0
    if depth <= 1 and 0 < len(fl) <= 48 and (lo is None or hi is None):
        vat = set(v.t)
        for g in fl:
            shared = vat & set(g.t)
            if not shared:
                continue
            # multiples k > 0 of the fact that cancel one of the atoms of v:  v = (v - k g) + k g >= bound(v - k g)
            ks_lo = {v.t[a] / g.t[a] for a in shared if v.t[a] / g.t[a] > 0} | {Fraction(1)}
            ks_hi = {-v.t[a] / g.t[a] for a in shared if -v.t[a] / g.t[a] > 0} | {Fraction(1)}
            if lo is None or lo < 0:
                for k_ in sorted(ks_lo)[:3]:
                    d = v - g.scale(k_)
                    if vat - set(d.t):
                        rlo, _ = bounds(d, facts, depth + 1, _fl=fl)
                        if rlo is not None:
                            lo = rlo if lo is None else max(lo, rlo)
            if hi is None or hi > 0:
                for k_ in sorted(ks_hi)[:3]:
                    d = v + g.scale(k_)
                    if vat - set(d.t):
                        _, rhi = bounds(d, facts, depth + 1, _fl=fl)
                        if rhi is not None:
                            hi = rhi if hi is None else min(hi, rhi)
    # term by term
    tlo, thi = v.c, v.c
    for at, coef in v.t.items():
        alo, ahi = atom_bounds(at, facts, fl, depth)
        if coef > 0:
            tlo = None if (tlo is None or alo is None) else tlo + coef * alo
            thi = None if (thi is None or ahi is None) else thi + coef * ahi
        else:
            tlo = None if (tlo is None or ahi is None) else tlo + coef * ahi
            thi = None if (thi is None or alo is None) else thi + coef * alo
    if tlo is not None:
        lo = tlo if lo is None else max(lo, tlo)
    if thi is not None:
        hi = thi if hi is None else min(hi, thi)
    # min(xs) <= every x in xs  (max: >=): replace the extreme by each of its arguments
    if depth < 2:
        for at, coef in v.t.items():
            if isinstance(at, tuple) and at[0] in ("min", "max"):
                rest = v - Lin({at: coef})
                for x in at[1]:
                    rlo, rhi = bounds(rest + x.scale(coef), facts, depth + 1, _fl=fl)
                    upper = (at[0] == "min") == (coef > 0)      # coef*min(xs) <= coef*x  for coef > 0
                    if upper and rhi is not None:
                        hi = rhi if hi is None else min(hi, rhi)
                    if not upper and rlo is not None:
                        lo = rlo if lo is None else max(lo, rlo)
    # x - k * floor((x + c) / k)  =  ((x + c) mod k) - c
    if depth < 3:
        for at, coef in v.t.items():
            if isinstance(at, tuple) and at[0] == "fd":
                k = at[2]
                rest = v - Lin({at: coef}) + at[1].scale(coef / k)      # replace coef*fd(L,k) by (coef/k)*(L - md)
                rlo, rhi = bounds(rest, facts, depth + 1, _fl=fl)
                q = -coef / k                                            # ... + q * md,  md in [0, k-1]
                mlo, mhi = (0, q * (k - 1)) if q >= 0 else (q * (k - 1), 0)
                if rlo is not None:
                    lo = rlo + mlo if lo is None else max(lo, rlo + mlo)
                if rhi is not None:
                    hi = rhi + mhi if hi is None else min(hi, rhi + mhi)
    return lo, hi


def atom_bounds(at, facts, fl, depth):
    import math
    lo = hi = None
    if nonneg_atom(at):
        lo = Fraction(0)
    for g in fl:
        # g = a * at + c >= 0
        if len(g.t) == 1 and at in g.t:
            a = g.t[at]
            b = -g.c / a
            if a > 0:
                b = Fraction(math.ceil(b))
                lo = b if lo is None else max(lo, b)
            else:
                b = Fraction(math.floor(b))
                hi = b if hi is None else min(hi, b)
    if isinstance(at, tuple) and at and at[0] == "fd" and depth < 3:
        l2, h2 = bounds(at[1], facts, depth + 1, _fl=fl)
        if l2 is not None:
            x = Fraction(math.floor(l2 / at[2]))
            lo = x if lo is None else max(lo, x)
        if h2 is not None:
            x = Fraction(math.floor(h2 / at[2]))
            hi = x if hi is None else min(hi, x)
    if isinstance(at, tuple) and at and at[0] in ("min", "max") and depth < 3:
        bs = [bounds(a, facts, depth + 1, _fl=fl) for a in at[1]]
        los, his = [b[0] for b in bs], [b[1] for b in bs]
        if at[0] == "min":
            if all(x is not None for x in los):
                x = min(los)
                lo = x if lo is None else max(lo, x)
            hs = [x for x in his if x is not None]
            if hs:
                x = min(hs)
                hi = x if hi is None else min(hi, x)
        else:
            if all(x is not None for x in his):
                x = max(his)
                hi = x if hi is None else min(hi, x)
            ls = [x for x in los if x is not None]
            if ls:
                x = max(ls)
                lo = x if lo is None else max(lo, x)
    return lo, hi


def proves_ge0(v, facts):
    lo, _ = bounds(v, facts)
    return lo is not None and lo >= 0


def proves_zero(v, facts):
    v = lin(v)
    if v.is_const():
        return v.c == 0
    lo, hi = bounds(v, facts)
    return lo is not None and hi is not None and lo == 0 == hi


def mk_min(vals, facts, kind="min"):
    vals = [lin(v) for v in vals]
    flat = []
    for v in vals:
        if len(v.t) == 1 and v.c == 0:
            (at, coef), = v.t.items()
            if coef == 1 and isinstance(at, tuple) and at[0] == kind:
                flat.extend(at[1])
                continue
        flat.append(v)
    keep = []
    for v in flat:
        if v in keep:
            continue
        keep.append(v)
    # drop elements proved not to be the extreme one
    changed = True
    while changed and len(keep) > 1:
        changed = False
        for i, a in enumerate(keep):
            for j, b in enumerate(keep):
                if i != j:
                    d = (b - a) if kind == "min" else (a - b)      # a is the extreme one if d >= 0
                    if proves_ge0(d, facts):
                        keep.pop(j)
                        changed = True
                        break
            if changed:
                break
    if len(keep) == 1:
        return keep[0]
    return Lin({(kind, tuple(sorted(keep, key=repr))): 1})


def find_witness(symbols, facts, bad, ranges=None, limit=40, reject=None):
    """search small integer assignments of the free symbols that satisfy every fact that speaks about them and make `bad(assign)` true.
    Facts are evaluated concretely; the other symbols such a fact mentions are searched too (small range); a candidate for which a
    relevant fact cannot be evaluated is not a witness.  A witness is a counter-example *under the tests the code itself performs*.
    Returns the assignment or None."""
    symbols = list(symbols)
    if not symbols or len(symbols) > 3:
        return None
    rel = [(t, pol) for t, pol in facts if any(mentions(t, s) for s in symbols)]
    # a comparison that involves, with coefficient +-1, a quantity no other fact speaks about can always be satisfied by choosing that
    # quantity (len(d) == len(t): take len(d) = len(t)): it does not restrict the symbols searched
    def free_choice(t, pol, f):
        """the fact (t, pol) can be satisfied whatever the searched symbols are, by choosing a quantity only this fact speaks about"""
        if isinstance(t, tuple) and t[:1] == ("not",):
            return free_choice(t[1], not pol, f)
        if isinstance(t, tuple) and t[:1] == ("bool",):
            if (t[1] == "and" and not pol) or (t[1] == "or" and pol):
                return any(free_choice(x, pol, f) for x in t[2])
            return False
        if not (isinstance(t, tuple) and t[:1] == ("cmp",) and t[1] in ("Eq", "GtE") and isinstance(t[2], Lin) and isinstance(t[3], Lin)):
            return False
        d = t[2] - t[3]
        for a, coef in d.t.items():
            if a in symbols or abs(coef) != 1:
                continue
            if isinstance(a, tuple) and a[:1] in (("fd",), ("min",), ("max",), ("mul",)):
                continue
            if any(g is not f and mentions(g[0], a) for g in rel) or any(mentions(o, a) for o in d.t if o != a):
                continue
            # within a compound fact the quantity must not occur in the sibling tests either
            if sum(1 for _ in _occurrences(f[0], a)) > 1:
                continue
            return True
        return False

    changed = True
    while changed:
        changed = False
        for f in list(rel):
            if free_choice(f[0], f[1], f):
                rel.remove(f)
                changed = True
                break
    extra = []
    for t, _ in rel:
        for a in free_symbols(t):
            if a not in symbols and a not in extra:
                extra.append(a)
    # tests on opaque things (isinstance(x, str), a callable's result) cannot be searched: give up rather than ignore them
    if len(symbols) + len(extra) > 4:
        return None
    if reject is not None and any(reject(a) for a in symbols + extra):
        return None                 # a quantity that is not free to choose (the result of a call this engine does not know, ...)
    import itertools
    rng = [range(*(ranges or {}).get(s, (0, limit))) for s in symbols] + [range(*(ranges or {}).get(s, (0, 13))) for s in extra]
    allsyms = symbols + extra
    budget = 400000
    for combo in itertools.product(*rng):
        budget -= 1
        if budget < 0:
            return None
        assign = dict(zip(allsyms, combo))
        ok = True
        for t, pol in rel:
            r = truth(t, assign)
            if r is None or r != pol:
                ok = False
                break
        if ok:
            try:
                if bad(assign):
                    return {k: v for k, v in assign.items() if k in symbols}
            except Exception:  # noqa
                continue
    return None


def _occurrences(v, atom):
    if v == atom:
        yield v
        return
    if isinstance(v, Lin):
        for a in v.t:
            yield from _occurrences(a, atom)
    elif isinstance(v, tuple):
        for x in v:
            if isinstance(x, (tuple, Lin)):
                yield from _occurrences(x, atom)


def _rename_loop(v, lid, key):
    """the value with every symbol of loop `lid` (name@L<lid>, <k>@L<lid>, <i>@L<lid>) renamed to name@L<lid>~key: the same expression at another pass"""
    tag = f"@L{lid}"
    if isinstance(v, Lin):
        out = Lin(c=v.c)
        for at, coef in v.t.items():
            at2 = _rename_loop(at, lid, key)
            out = out + (at2.scale(coef) if isinstance(at2, Lin) else Lin({at2: coef}))
        return out
    if isinstance(v, S):
        return S(tuple(tuple(_rename_loop(x, lid, key) if isinstance(x, (Lin, S, tuple)) else x for x in part) for part in v.p))
    if isinstance(v, tuple):
        if v[:1] == ("sym",) and len(v) == 2 and isinstance(v[1], str) and v[1].endswith(tag):
            return ("sym", v[1] + "~" + key)
        return tuple(_rename_loop(x, lid, key) if isinstance(x, (Lin, S, tuple)) else x for x in v)
    return v


def subst(v, atom, repl):
    """the value with every occurrence of `atom` (a symbol, a length, ...) replaced by the linear form / value `repl`"""
    if isinstance(v, Lin):
        out = Lin(c=v.c)
        for at, coef in v.t.items():
            if at == atom:
                out = out + lin(repl).scale(coef)
            else:
                at2 = subst(at, atom, repl)
                if isinstance(at2, Lin):
                    out = out + at2.scale(coef)
                else:
                    out = out + Lin({at2: coef})
        return out
    if isinstance(v, S):
        return S(tuple(tuple(subst(x, atom, repl) if isinstance(x, (Lin, S, tuple)) else x for x in part) for part in v.p))
    if isinstance(v, tuple):
        if v == atom:
            return repl
        if v[:1] == ("fd",):
            inner = subst(v[1], atom, repl)
            return floordiv(inner, v[2]) if inner != v[1] else v
        if v[:1] in (("min",), ("max",)):
            args = tuple(subst(a, atom, repl) for a in v[1])
            return mk_min(list(args), (), v[0]) if args != v[1] else v
        if v[:1] == ("mul",):
            a, b = subst(v[1], atom, repl), subst(v[2], atom, repl)
            return lin(a) * lin(b) if (a, b) != (v[1], v[2]) else v
        return tuple(subst(x, atom, repl) if isinstance(x, (Lin, S, tuple)) else x for x in v)
    return v


def free_symbols(*vals):
    """the atoms without structure (symbols, lengths, dims) the values depend on"""
    out = []

    def walk(v):
        if isinstance(v, Lin):
            for at in v.t:
                walk_atom(at)
        elif isinstance(v, S):
            return
        elif isinstance(v, tuple):
            for x in v:
                if isinstance(x, (Lin, tuple)):
                    walk(x) if isinstance(x, Lin) else walk_any(x)

    def walk_any(v):
        if isinstance(v, tuple) and v and v[0] in ("cmp", "not", "bool", "in"):
            for x in v[1:]:
                if isinstance(x, Lin):
                    walk(x)
                elif isinstance(x, tuple):
                    walk_any(x)
        elif isinstance(v, tuple):
            for x in v:
                if isinstance(x, Lin):
                    walk(x)
                elif isinstance(x, tuple):
                    walk_any(x)

    def walk_atom(at):
        if isinstance(at, tuple) and at and at[0] in ("fd",):
            walk(at[1])
        elif isinstance(at, tuple) and at and at[0] in ("min", "max"):
            for x in at[1]:
                walk(x)
        elif isinstance(at, tuple) and at and at[0] == "mul":
            walk(at[1])
            walk(at[2])
        elif isinstance(at, tuple) and at and at[0] == "op" and at[1] in ("&", "|", "^", "<<", ">>"):
            for x in at[2]:
                if isinstance(x, Lin):
                    walk(x)
        else:
            if at not in out:
                out.append(at)

    for v in vals:
        if isinstance(v, Lin):
            walk(v)
        elif isinstance(v, tuple):
            walk_any(v)
    return out


# ====================================================================================================================== engine
IDENT_CALLS = {"np.atleast_1d", "np.asarray", "np.array", "np.atleast_2d", "np.ascontiguousarray", "numpy.asarray", "numpy.atleast_1d", "list", "tuple",
               "np.ravel", "np.asanyarray", "np.squeeze", "np.copy", "np.asfarray", "numpy.array", "numpy.ravel"}
IDENT_METHODS = {"ravel", "flatten", "copy", "tolist", "squeeze", "to_numpy", "astype", "view"}
DATA_FIRST = {"np.asarray", "np.array", "np.asanyarray", "np.ascontiguousarray", "numpy.asarray", "numpy.array", "np.asfarray"}       # (data, dtype, ...)


def origin(v):
    """the object a value is a view / copy of: np.atleast_1d(t).ravel() -> t"""
    while True:
        if isinstance(v, tuple) and v and v[0] == "op":
            if v[1] in IDENT_CALLS and len(v[2]) == 1:
                v = v[2][0]
                continue
            if v[1] in DATA_FIRST and len(v[2]) == 2 and not isinstance(v[2][1], (Lin, S)):
                v = v[2][0]             # np.asarray(x, float)
                continue
            if v[1].startswith(".") and v[1][1:] in IDENT_METHODS and (len(v[2]) == 1 or v[1][1:] in ("astype", "view")):
                v = v[2][0]
                continue
            if v[1] in (".reshape", "np.reshape") and len(v[2]) == 2 and v[2][1] in (Lin(c=-1), ("tuple", (Lin(c=-1),))):
                v = v[2][0]             # x.reshape(-1) is x.ravel()
                continue
        if isinstance(v, tuple) and v and v[0] == "attr" and v[2] == "values":
            v = v[1]            # DataFrame.values has the shape of the frame
            continue
        if isinstance(v, tuple) and v and v[0] == "elem" and isinstance(v[1], tuple) and v[1] and v[1][0] == "op" and v[1][1] in IDENT_CALLS \
                and is_int_const(v[2]) and 0 <= ival(v[2]) < len(v[1][2]) and len(v[1][2]) > 1:
            v = v[1][2][ival(v[2])]
            continue
        return v


class Event:
    __slots__ = ("kind", "node", "d", "facts", "loops", "seq")

    def __init__(self, kind, node, d, facts, loops, seq):
        self.kind, self.node, self.d, self.facts, self.loops, self.seq = kind, node, d, facts, loops, seq

    def __repr__(self):
        return f"<{self.kind} L{getattr(self.node, 'lineno', '?')} {self.d}>"


class State:
    __slots__ = ("env", "facts", "events", "status", "loops", "pre", "frames")

    def __init__(self, env=None, facts=(), events=None, loops=(), frames=()):
        self.env = dict(env or {})
        self.facts = tuple(facts)
        self.events = list(events or [])
        self.status = "run"       # run | return | raise | continue | break | genreturn (a generator inlined into a `for` has finished)
        self.loops = tuple(loops)
        self.pre = {}             # values of helper calls evaluated ahead of the statement that contains them: {id(call node): value}
        self.frames = tuple(frames)   # environments of the suspended callers (outermost first): closures are evaluated in the frame that defined them

    def fork(self):
        s = State(self.env, self.facts, self.events, self.loops, self.frames)
        s.status = self.status
        s.pre = dict(self.pre)
        return s

    def add_fact(self, t, pol):
        new = []
        _decompose(t, pol, new)
        self.facts = self.facts + tuple(x for x in new if x not in self.facts)


def _decompose(t, pol, out):
    out.append((t, pol))
    if isinstance(t, tuple) and t:
        if t[0] == "not":
            _decompose(t[1], not pol, out)
        elif t[0] == "bool" and ((t[1] == "and" and pol) or (t[1] == "or" and not pol)):
            for x in t[2]:
                _decompose(x, pol, out)


class _Val(ast.expr):
    """an expression already evaluated (argument of an inlined generator / partial)"""
    _fields = ()

    @staticmethod
    def of(v):
        n = _Val()
        n.v = v
        return n


class _YieldBlock(ast.stmt):
    """`yield value` of a generator inlined into `for target in gen(...): body`: bind the target and run the body of the loop"""
    _fields = ("target", "value", "body")


class _GenReturn(ast.stmt):
    """`return` of an inlined generator: the iteration is over"""
    _fields = ()


_STRBUF_CALLS = ("io.StringIO", "StringIO")


def _strbufs(fnode):
    """locals of a function that hold an io.StringIO used only as a text accumulator: bound once to `io.StringIO()` (assignment or `with ... as`), and
    otherwise only written to (`.write(text)`, `print(..., file=buf)`), read whole (`.getvalue()`) or closed.  Such a buffer is the string of what
    has been written to it so far."""
    cached = getattr(fnode, "_c13_strbufs", None)
    if cached is not None:
        return cached
    is_new = lambda v: isinstance(v, ast.Call) and (dotted(v.func) or "") in _STRBUF_CALLS and not v.args and not v.keywords
    cand = {}
    nodes = list(walk_no_nested(fnode))
    for n in nodes:
        if isinstance(n, ast.Assign) and len(n.targets) == 1 and isinstance(n.targets[0], ast.Name) and is_new(n.value):
            cand[n.targets[0].id] = cand.get(n.targets[0].id, 0) + 1
        elif isinstance(n, (ast.With, ast.AsyncWith)):
            for it in n.items:
                if is_new(it.context_expr) and isinstance(it.optional_vars, ast.Name):
                    cand[it.optional_vars.id] = cand.get(it.optional_vars.id, 0) + 1
    out = set()
    for nm, k in cand.items():
        if k != 1:
            continue
        ok = True
        for n in nodes:
            if not (isinstance(n, ast.Name) and n.id == nm):
                continue
            par = getattr(n, "_vparent", None)
            gp = getattr(par, "_vparent", None)
            if isinstance(n.ctx, ast.Store):
                if not ((isinstance(par, ast.Assign) and is_new(par.value)) or isinstance(par, ast.withitem)):
                    ok = False
            elif isinstance(par, ast.Attribute) and par.value is n and par.attr in ("write", "getvalue", "close") and isinstance(gp, ast.Call) and gp.func is par:
                pass
            elif isinstance(par, ast.keyword) and par.arg == "file" and isinstance(gp, ast.Call) and (dotted(gp.func) or "") == "print":
                pass
            else:
                ok = False
        # a nested function that touches the buffer is outside what this reads
        if ok and any(isinstance(x, ast.Name) and x.id == nm for g in nodes if isinstance(g, (ast.FunctionDef, ast.AsyncFunctionDef, ast.Lambda)) and g is not fnode
                      for x in ast.walk(g)):
            ok = False
        if ok:
            out.add(nm)
    fnode._c13_strbufs = out
    return out


def _nonlocals(fnode):
    """names a function declares `nonlocal` (it rebinds them in the function that encloses it)"""
    c = getattr(fnode, "_c13_nonlocals", None)
    if c is None:
        c = {nm for n in walk_no_nested(fnode) if isinstance(n, ast.Nonlocal) for nm in n.names}
        # ... and the lists of the enclosing function it changes in place (`pieces.append(x)` with `pieces` neither a parameter nor a local):
        # this engine keeps a list as a value of the name, so changing it is rebinding the name
        a = fnode.args
        own = {x.arg for x in a.posonlyargs + a.args + a.kwonlyargs} | ({a.vararg.arg} if a.vararg else set()) | ({a.kwarg.arg} if a.kwarg else set())
        own |= {n.id for n in walk_no_nested(fnode) if isinstance(n, ast.Name) and isinstance(n.ctx, ast.Store)} - c
        for n in walk_no_nested(fnode):
            if isinstance(n, ast.Call) and isinstance(n.func, ast.Attribute) and isinstance(n.func.value, ast.Name) and n.func.value.id not in own \
                    and n.func.attr in ("append", "extend", "insert"):
                c.add(n.func.value.id)
        fnode._c13_nonlocals = c
    return c


def _is_generator(fnode):
    return any(isinstance(n, (ast.Yield, ast.YieldFrom)) for n in walk_no_nested(fnode))


def _copy_renamed(n, ren, parent):
    """copy of a subtree with the names of `ren` renamed; positions and module are kept, the copy hangs under `parent`"""
    if isinstance(n, list):
        return [_copy_renamed(x, ren, parent) for x in n]
    if not isinstance(n, ast.AST) or isinstance(n, (ast.expr_context, ast.operator, ast.unaryop, ast.cmpop, ast.boolop)):
        return n
    new = n.__class__()
    for f in n._fields:
        setattr(new, f, _copy_renamed(getattr(n, f, None), ren, new))
    for a in ("lineno", "col_offset", "end_lineno", "end_col_offset"):
        if hasattr(n, a):
            setattr(new, a, getattr(n, a))
    new._vparent = parent
    new._vmod = getattr(n, "_vmod", None)
    if isinstance(new, ast.Name) and new.id in ren:
        new.id = ren[new.id]
    elif isinstance(new, ast.arg) and new.arg in ren:
        new.arg = ren[new.arg]
    elif isinstance(new, (ast.FunctionDef, ast.AsyncFunctionDef)) and new.name in ren:
        new.name = ren[new.name]
    elif isinstance(new, (ast.Global, ast.Nonlocal)):
        new.names = [ren.get(x, x) for x in new.names]
    return new


class Engine:
    """run one function; `strings`: names (parameters / locals) that hold strings even though the code does not show it"""

    def __init__(self, mod, fn, strings=(), params=None, follow=None, max_states=MAX_STATES, pins=None, follow_if=None):
        self.pins = dict(pins or {})          # {atom: integer}: case split decided by the rule (e.g. the rendered width of `form`)
        self.follow_if = follow_if            # predicate on a function node: only these are followed (e.g. wrappers without loops)
        self.mod = mod
        self.fn = fn
        self.strings = set(strings)
        self.seq = 0
        self.loopseq = 0
        self.max_states = max_states
        self.finals = []
        self.all_events = {}
        self._modconst = {}
        self.follow = follow
        self.locals = set()
        self.depth = 0
        self.nested = {n.name: n for n in fn.body if isinstance(n, ast.FunctionDef)}
        self.classes = {q: c for q, c in getattr(mod, "classes", {}).items() if "." not in q}       # module-level classes: small value objects / helpers
        for n in walk_no_nested(fn):
            if isinstance(n, ast.FunctionDef):
                self.nested.setdefault(n.name, n)
        a = fn.args
        env = {}
        allargs = a.posonlyargs + a.args + a.kwonlyargs
        for x in allargs:
            env[x.arg] = ("sym", x.arg)
        if a.vararg:
            env[a.vararg.arg] = ("sym", a.vararg.arg)
        if a.kwarg:
            env[a.kwarg.arg] = ("sym", a.kwarg.arg)
        # parameters whose default is a string are strings
        pos = a.posonlyargs + a.args
        for x, dv in zip(pos[len(pos) - len(a.defaults):], a.defaults):
            if self._is_str_default(dv):
                self.strings.add(x.arg)
        for x, dv in zip(a.kwonlyargs, a.kw_defaults):
            if dv is not None and self._is_str_default(dv):
                self.strings.add(x.arg)
        for n in walk_no_nested(fn):
            if isinstance(n, ast.Call) and isinstance(n.func, ast.Attribute) and n.func.attr in ("format", "join", "rstrip", "lstrip", "strip", "ljust", "rjust") \
                    and isinstance(n.func.value, ast.Name):
                self.strings.add(n.func.value.id)
        if params:
            env.update(params)
        self.env0 = env
        self.locals = {n.id for n in walk_no_nested(fn) if isinstance(n, ast.Name) and isinstance(n.ctx, ast.Store)} | set(env)
        self.strbufs = set(_strbufs(fn))          # io.StringIO accumulators of the function being evaluated
        self.strings |= self.strbufs

    def _is_str_default(self, dv):
        if isinstance(dv, ast.Constant) and isinstance(dv.value, str):
            return True
        if isinstance(dv, ast.Name):
            v = self.module_const(dv.id)
            return isinstance(v, S)
        return False

    # ------------------------------------------------------------------------------------------------------------ module constants
    def module_const(self, name):
        if name in self._modconst:
            return self._modconst[name]
        self._modconst[name] = None
        defs = [st for st in self.mod.tree.body if isinstance(st, ast.Assign) and len(st.targets) == 1 and isinstance(st.targets[0], ast.Name)
                and st.targets[0].id == name]
        if len(defs) == 1:
            saved = getattr(self, "locals", set())
            self.locals = set()               # a module-level expression does not see the function's locals
            try:
                v = self.ev(defs[0].value, State())
            except Unsupported:
                v = None
            finally:
                self.locals = saved
            if isinstance(v, (S, Lin)) or _is_k(v) or (isinstance(v, tuple) and v and v[0] in ("tuple", "dict")) \
                    or (isinstance(v, tuple) and v[:1] == ("obj",) and not self._rebound_attrs(name)):
                self._modconst[name] = v
        return self._modconst[name]

    def _class_const(self, d):
        """`Cls.NAME` for a module-level class whose body binds NAME once to a constant (a namespace of constants, an IntEnum): the constant.
        A member of a plain Enum is not its value (it does not compare equal to it): only `Cls.NAME.value` is."""
        parts = d.split(".")
        if len(parts) not in (2, 3) or parts[0] not in self.classes:
            return None
        cache = self.mod.__dict__.setdefault("_c13_classconst", {})
        if d in cache:
            return cache[d]
        cache[d] = None
        c = self.classes[parts[0]]
        bases = [(dotted(b) or "").split(".")[-1] for b in c.bases]
        is_enum = any(b.endswith("Enum") or b.endswith("Flag") for b in bases)
        int_like = any(b in ("IntEnum", "IntFlag", "StrEnum") for b in bases) or (is_enum and any(b in ("int", "str") for b in bases))
        if len(parts) == 3 and not (is_enum and parts[2] == "value"):
            return None
        if len(parts) == 2 and is_enum and not int_like:
            return None
        defs = [n for n in c.body if (isinstance(n, ast.Assign) and len(n.targets) == 1 and isinstance(n.targets[0], ast.Name) and n.targets[0].id == parts[1])
                or (isinstance(n, ast.AnnAssign) and isinstance(n.target, ast.Name) and n.target.id == parts[1] and n.value is not None)]
        stores = [n for b in c.body for n in ast.walk(b) if isinstance(n, ast.Name) and isinstance(n.ctx, ast.Store) and n.id == parts[1]]
        if len(defs) != 1 or len(stores) != 1 or not isinstance(defs[0].value, (ast.Constant, ast.UnaryOp, ast.BinOp, ast.Tuple)):
            return None
        if any(isinstance(n, ast.Attribute) and isinstance(n.ctx, (ast.Store, ast.Del)) and n.attr == parts[1] for n in ast.walk(self.mod.tree)) or \
                any(isinstance(n, ast.Call) and (dotted(n.func) or "") in ("setattr", "delattr") for n in ast.walk(self.mod.tree)):
            return None                    # the attribute may be rebound at run time
        saved = self.locals
        self.locals = set()
        try:
            v = self.ev(defs[0].value, State())
        except Unsupported:
            v = None
        finally:
            self.locals = saved
        if isinstance(v, (Lin, S)) or _is_k(v):
            cache[d] = v
        return cache[d]

    def _rebound_attrs(self, name):
        """an attribute of the module-level object `name` is assigned somewhere in the module (then the object is not the constant its constructor made)"""
        return any(isinstance(n, ast.Attribute) and isinstance(n.ctx, (ast.Store, ast.Del)) and isinstance(n.value, ast.Name) and n.value.id == name
                   for n in ast.walk(self.mod.tree))

    # ------------------------------------------------------------------------------------------------------------ events
    def emit(self, st, kind, node, **d):
        self.seq += 1
        e = Event(kind, node, d, st.facts, st.loops, self.seq)
        st.events.append(e)
        return e

    def events(self, kind=None, pred=None):
        """events of all paths, each once, in creation order"""
        seen = {}
        for st in self.finals:
            for e in st.events:
                if e.seq not in seen and (kind is None or e.kind == kind or (isinstance(kind, tuple) and e.kind in kind)) and (pred is None or pred(e)):
                    seen[e.seq] = e
        return [seen[k] for k in sorted(seen)]

    # ------------------------------------------------------------------------------------------------------------ run
    def run(self, body=None, state=None):
        st = state or State(self.env0)
        if body is None and state is None:
            outs = self._run_decorated(st)
            if outs is not None:
                self.finals = outs
                return outs
        outs = self.block(body if body is not None else self.fn.body, [st])
        self.finals = outs
        return outs

    def _run_decorated(self, st):
        """a function decorated with helpers of its module (`@_card(start=4)`): what a caller runs is the decorated object.  The decorators are
        applied (innermost first; one that is not a followed helper - functools.wraps, a decorator of another module - is taken as the identity, as
        everywhere in this engine) and the result is called with the function's own parameters.  None when no decorator is a followed helper."""
        fn = self.fn
        if not self.follow or not getattr(fn, "decorator_list", None):
            return None

        def followed(d):
            f = d.func if isinstance(d, ast.Call) else d
            return isinstance(f, ast.Name) and f.id in self.follow and f.id not in st.env
        if not any(followed(d) for d in fn.decorator_list):
            return None
        a = fn.args
        if a.vararg or a.kwarg:
            raise Unsupported(f"{fn.name}: decorated by a helper of the module and takes * / ** parameters")
        self.funcnodes = getattr(self, "funcnodes", {})
        self.funcnodes[id(fn)] = fn
        cur = ("func", fn.name, id(fn))
        saved = self.locals
        self.locals = set(st.env)                     # the decorators are evaluated at module level: no local of the function is in sight
        try:
            for d in reversed(fn.decorator_list):
                if not followed(d):
                    continue
                dv = self.ev(d, st) if isinstance(d, ast.Call) else ("sym", d.id)
                call = ast.copy_location(ast.Call(func=_Val.of(dv), args=[_Val.of(cur)], keywords=[]), d)
                call._vparent, call._vmod = getattr(d, "_vparent", None), getattr(d, "_vmod", None)
                target = self.inlinable(call, st)
                if target is None:
                    raise Unsupported(f"{fn.name}: decorator {ast.unparse(d)[:60]} cannot be followed")
                res = [(c, v) for c, v in self.inline(call, target, st) if c.status == "run"]
                if len(res) != 1:
                    raise Unsupported(f"{fn.name}: decorator {ast.unparse(d)[:60]} has {len(res)} paths")
                st, cur = res[0]
            pos = [_Val.of(self.env0[x.arg]) for x in a.posonlyargs + a.args]
            kws = [ast.keyword(arg=x.arg, value=_Val.of(self.env0[x.arg])) for x in a.kwonlyargs]
            call = ast.copy_location(ast.Call(func=_Val.of(cur), args=pos, keywords=kws), fn)
            call._vparent, call._vmod = getattr(fn, "_vparent", None), getattr(fn, "_vmod", None)
            target = self.inlinable(call, st)
            if target is None:
                raise Unsupported(f"{fn.name}: the decorated function is not something this engine can call ({show(cur)[:60]})")
            outs = []
            for c, v in self.inline(call, target, st):
                if c.status == "run":
                    self.emit(c, "return", fn, value=v)
                    c.status = "return"
                outs.append(c)
            return outs
        finally:
            self.locals = saved

    def block(self, stmts, states):
        """run statements on every live state; returns all states (live and finished)"""
        for s_ in stmts:
            nxt = []
            for st in states:
                if st.status != "run":
                    nxt.append(st)
                else:
                    nxt.extend(self.stmt(s_, st))
            states = nxt
            if len(states) > self.max_states:
                raise Unsupported(f"more than {self.max_states} paths")
        return states

    def stmt(self, node, st):
        if isinstance(node, (ast.FunctionDef, ast.AsyncFunctionDef, ast.ClassDef)):
            if isinstance(node, ast.FunctionDef):
                # the value names the definition that was executed (two `def`s of one name in different arms are different functions)
                st.env[node.name] = ("func", node.name, id(node))
                self.funcnodes = getattr(self, "funcnodes", {})
                self.funcnodes[id(node)] = node
                self.nested.setdefault(node.name, node)
                self.defdepth = getattr(self, "defdepth", {})
                self.defdepth[node.name] = len(st.frames)
                self.defdepth[id(node)] = len(st.frames)
                self._def_defaults(node.args, id(node), st)
            return [st]
        if isinstance(node, _YieldBlock):
            v = self.ev(node.value, st)
            self.assign(node.target, v, st, node.fornode)
            outs = self.block(node.body, [st])
            for o in outs:
                if o.status == "continue":
                    o.status = "run"
                elif o.status == "break":
                    raise Unsupported("break out of a loop over a generator")
            return outs
        if isinstance(node, _GenReturn):
            st.status = "genreturn"
            return [st]
        if isinstance(node, (ast.Import, ast.ImportFrom, ast.Pass, ast.Global, ast.Nonlocal)):
            return [st]
        if isinstance(node, ast.If):
            return self.if_(node, st)
        if isinstance(node, ast.Expr):
            loop = self._as_loop(node, st)
            if loop is not None:
                return self.for_(loop, st)
            plain = self._as_statements(node)
            if plain is not None:
                return self.block(plain, [st])
        if isinstance(node, (ast.For, ast.AsyncFor)):
            return self.for_(node, st)
        if isinstance(node, ast.While):
            return self.while_(node, st)
        if isinstance(node, (ast.With, ast.AsyncWith)):
            if isinstance(node, ast.With) and len(node.items) > 1:
                # with A, B: body   is   with A: with B: body
                inner = ast.copy_location(ast.With(items=node.items[1:], body=node.body, type_comment=None), node)
                inner._vparent, inner._vmod = node, getattr(node, "_vmod", None)
                outer = ast.copy_location(ast.With(items=node.items[:1], body=[inner], type_comment=None), node)
                outer._vparent, outer._vmod = getattr(node, "_vparent", None), getattr(node, "_vmod", None)
                return self.stmt(outer, st)
            if isinstance(node, ast.With) and isinstance(node.items[0].context_expr, ast.Call):
                it = node.items[0]
                gen = self._generator_of(it.context_expr, st)
                if gen is not None and any((dotted(d) or "").split(".")[-1] == "contextmanager" for d in gen[0].decorator_list) and self._yields_once(gen[0]):
                    # a generator made into a context manager yields exactly once: `with cm(...) as x: BODY` runs what `for x in cm_gen(...): BODY` runs
                    self.genseq = getattr(self, "genseq", 0) + 1
                    tgt = it.optional_vars if it.optional_vars is not None else ast.copy_location(ast.Name(id=f"_cm${self.genseq}", ctx=ast.Store()), node)
                    loop = ast.copy_location(ast.For(target=tgt, iter=it.context_expr, body=node.body, orelse=[], type_comment=None), node)
                    loop._vparent, loop._vmod = getattr(node, "_vparent", None), getattr(node, "_vmod", None)
                    r = self._for_generator(loop, gen, st)
                    if r is not None:
                        return r
            outs = []
            for s2 in self.simple_forks(node.items, st):
                managers = []
                for s3 in self.helper_forks([it.context_expr for it in node.items], s2):
                    if s3.status != "run":
                        outs.append(s3)
                        continue
                    for it in node.items:
                        v = self.ev(it.context_expr, s3)
                        s3.pre = {}
                        bound = v
                        if isinstance(v, tuple) and v[:1] == ("obj",) and v[1] in self.classes and self._method(v[1], "__exit__") is not None:
                            # an object of a class of the module: __enter__ runs now (what it returns is bound), __exit__ when the block is left
                            managers.append(v)
                            if self._method(v[1], "__enter__") is not None:
                                r = self._call_method(v, "__enter__", [], node, s3)
                                if r is None:
                                    raise Unsupported(f"context manager {v[1]}.__enter__ has several paths")
                                bound = r
                        if it.optional_vars is not None:
                            self.assign(it.optional_vars, bound, s3, node)
                    for o in self.block(node.body, [s3]):
                        if managers and o.status in ("break", "continue", "genreturn"):
                            raise Unsupported("loop control leaving a `with` block of a context manager of the module")
                        if managers and o.status in ("run", "return"):
                            keep = o.status
                            rets = [e for e in o.events if e.kind == "return"] if keep == "return" else []
                            o.status = "run"
                            for m_ in reversed(managers):
                                none = ast.copy_location(ast.Constant(value=None), node)
                                if self._call_method(m_, "__exit__", [none, none, none], node, o) is None:
                                    raise Unsupported(f"context manager {m_[1]}.__exit__ has several paths")
                            o.status = keep
                            if rets:
                                o.events = [e for e in o.events if e is not rets[-1]] + [rets[-1]]          # the block's `return` comes after __exit__
                        outs.append(o)
            return outs
        if isinstance(node, ast.Match):
            chain = self._match_as_if(node)
            if chain is None:
                raise Unsupported("match statement with patterns other than literal values, class tests without sub-patterns, captures and fixed-length sequences")
            return self.block(chain, [st])
        if isinstance(node, ast.Try):
            miss = self._memo_try(node, st)
            if miss is not None:
                # `try: return MEMO[key]  except KeyError: <compute, store, return>`: the hit returns what an earlier miss stored under the same
                # key, i.e. (the stored value being a function of the key - checked at the store) what the miss path computes
                outs = self.block(miss.body, [st])
                if node.finalbody:
                    live = self.block(node.finalbody, [s for s in outs if s.status == "run"])
                    outs = live + [s for s in outs if s.status != "run"]
                return outs
            lk = self._lookup_try(node, st)
            if lk is not None:
                # `try: x = TABLE[key]  except KeyError: ...` with a literal table: the body runs where the key is one of the table's, the handler
                # where it is none of them
                handler, hits, miss = lk
                outs = []
                for s_hit in hits:
                    o2 = self.block(node.body, [s_hit])
                    if node.orelse:
                        o2 = self.block(node.orelse, [x for x in o2 if x.status == "run"]) + [x for x in o2 if x.status != "run"]
                    outs.extend(o2)
                if miss is not None:
                    outs.extend(self.block(handler.body, [miss]))
                if node.finalbody:
                    outs = self.block(node.finalbody, [x for x in outs if x.status == "run"]) + [x for x in outs if x.status != "run"]
                return outs
            outs = self.block(node.body, [st])
            live = [s for s in outs if s.status == "run"]
            rest = [s for s in outs if s.status != "run"]
            if node.orelse:
                live = self.block(node.orelse, live)
            if node.finalbody:
                live = self.block(node.finalbody, live)
            return live + rest
        if isinstance(node, ast.Continue):
            st.status = "continue"
            return [st]
        if isinstance(node, ast.Break):
            st.status = "break"
            return [st]
        # simple statements: fork on undecided conditional expressions first
        outs = []
        for s2 in self.simple_forks(node, st):
            for s3 in self.helper_forks(node, s2):
                if s3.status == "run":
                    self.simple(node, s3)
                s3.pre = {}               # the values of the helper calls belong to this execution of the statement (a loop body may run again)
                outs.append(s3)
        return outs

    # ------------------------------------------------------------------------------------------------------------ memo dictionaries
    _MISS_EXC = {"KeyError", "LookupError", "Exception", "BaseException"}

    def _memo_info(self, name):
        """a module-level dictionary that starts empty and is touched by one function only, through lookups and stores by key (`D[k]`, `D[k] = v`,
        `k in D`, `D.get(k)`, `D.setdefault(k, v)`): a memo.  Returns {"func": that function, "sites": its call sites} or None.
        What such a dictionary holds was put there by an earlier call of that function; when every value stored is a function of its key (checked
        at each store, `_memo_store`) a lookup that hits returns exactly what the miss path computes."""
        cache = self.mod.__dict__.setdefault("_c13_memo", {})
        if name in cache:
            return cache[name]
        cache[name] = None
        tree = self.mod.tree
        defs = [st_ for st_ in tree.body if (isinstance(st_, ast.Assign) and len(st_.targets) == 1 and isinstance(st_.targets[0], ast.Name) and st_.targets[0].id == name)
                or (isinstance(st_, ast.AnnAssign) and isinstance(st_.target, ast.Name) and st_.target.id == name and st_.value is not None)]
        if len(defs) != 1:
            return None
        val = defs[0].value
        empty = (isinstance(val, ast.Dict) and not val.keys) or (isinstance(val, ast.Call) and isinstance(val.func, ast.Name) and val.func.id == "dict"
                                                               and not val.args and not val.keywords)
        if not empty:
            return None
        deft = defs[0].targets[0] if isinstance(defs[0], ast.Assign) else defs[0].target
        holder = None
        for n in ast.walk(tree):
            if isinstance(n, (ast.Global, ast.Nonlocal)) and name in n.names:
                return None
            if not (isinstance(n, ast.Name) and n.id == name) or n is deft:
                continue
            # the function the reference lives in (outermost)
            f, top = getattr(n, "_vparent", None), None
            while f is not None:
                if isinstance(f, (ast.FunctionDef, ast.AsyncFunctionDef)):
                    top = f
                f = getattr(f, "_vparent", None)
            if top is None or (holder is not None and top is not holder):
                return None
            holder = top
            par = getattr(n, "_vparent", None)
            gp = getattr(par, "_vparent", None)
            if isinstance(par, ast.Subscript) and par.value is n and not isinstance(par.slice, ast.Slice) and not isinstance(par.ctx, ast.Del):
                continue                                      # D[k] / D[k] = v
            if isinstance(par, ast.Compare) and len(par.ops) == 1 and isinstance(par.ops[0], (ast.In, ast.NotIn)) and par.comparators[0] is n:
                continue                                      # k in D
            if isinstance(par, ast.Attribute) and par.value is n and par.attr in ("get", "setdefault") and isinstance(gp, ast.Call) and gp.func is par:
                continue
            return None
        if holder is None:
            return None
        # the call sites of the holder: their keys must not collide unless the holder computes the value from the key alone
        sites = []
        for n in ast.walk(tree):
            if isinstance(n, ast.Name) and n.id == holder.name and isinstance(n.ctx, ast.Load):
                par = getattr(n, "_vparent", None)
                if not (isinstance(par, ast.Call) and par.func is n):
                    return None                               # handed around as a value
                sites.append(par)
        cache[name] = {"func": holder, "sites": sites}
        return cache[name]

    def _memo_holders(self):
        """ids of the functions of the module that keep a memo dictionary"""
        hs = self.mod.__dict__.get("_c13_memo_holders")
        if hs is None:
            hs = set()
            for st_ in self.mod.tree.body:
                tg = st_.targets[0] if isinstance(st_, ast.Assign) and len(st_.targets) == 1 else st_.target if isinstance(st_, ast.AnnAssign) else None
                if isinstance(tg, ast.Name) and isinstance(getattr(st_, "value", None), (ast.Dict, ast.Call)):
                    info = self._memo_info(tg.id)
                    if info is not None:
                        hs.add(id(info["func"]))
            self.mod.__dict__["_c13_memo_holders"] = hs
        return hs

    def _memo_name(self, node):
        """the memo dictionary an expression names, or None"""
        if isinstance(node, ast.Name) and node.id not in self.locals and self._memo_info(node.id) is not None:
            return node.id
        return None

    def _memo_try(self, node, st):
        """the handler that is the miss path of `try: <one pure statement reading MEMO[key]>  except KeyError: ...`, or None"""
        if len(node.body) != 1 or not isinstance(node.body[0], (ast.Return, ast.Assign, ast.AnnAssign, ast.Expr)):
            return None
        stmt = node.body[0]
        reads = [n for n in ast.walk(stmt) if isinstance(n, ast.Subscript) and isinstance(n.ctx, ast.Load) and self._memo_name(n.value) is not None]
        if not reads or any(isinstance(n, (ast.Call, ast.Await, ast.Yield, ast.YieldFrom, ast.NamedExpr)) for n in ast.walk(stmt)):
            return None
        for h in node.handlers:
            ts = [h.type] if not isinstance(h.type, ast.Tuple) else list(h.type.elts)
            if h.type is None or any((dotted(t) or "").split(".")[-1] in self._MISS_EXC for t in ts):
                return h
        return None

    def _lookup_try(self, node, st):
        """(handler, states in which the key is one of the table's keys, state in which it is none or None) for
        `try: <one pure statement with one lookup LITERAL_TABLE[integer key]>  except KeyError: ...`; None for anything else"""
        if len(node.body) != 1 or not isinstance(node.body[0], (ast.Return, ast.Assign, ast.AnnAssign, ast.Expr)):
            return None
        stmt = node.body[0]
        if any(isinstance(n, (ast.Call, ast.Await, ast.Yield, ast.YieldFrom, ast.NamedExpr, ast.IfExp, ast.BoolOp)) for n in ast.walk(stmt)):
            return None
        subs = [n for n in ast.walk(stmt) if isinstance(n, ast.Subscript) and isinstance(n.ctx, ast.Load)]
        if len(subs) != 1 or isinstance(subs[0].slice, (ast.Slice, ast.Tuple)):
            return None
        handler = None
        for h in node.handlers:
            ts = [h.type] if not isinstance(h.type, ast.Tuple) else list(h.type.elts)
            if h.type is None or any((dotted(t) or "").split(".")[-1] in self._MISS_EXC for t in ts):
                handler = h
                break
        if handler is None:
            return None
        try:
            table = self.ev(subs[0].value, st)
            key = self.ev(subs[0].slice, st)
        except Unsupported:
            return None
        if not (isinstance(table, tuple) and table[:1] == ("dict",) and table[1] and isinstance(key, Lin) and all(is_int_const(k) for k, _ in table[1])):
            return None
        hits, miss = [], st
        for k, _ in table[1]:
            if miss is None:
                break
            t = ("cmp", "Eq") + tuple(sorted((k, key), key=repr))
            r = self.decide(t, miss)
            if r is True:
                hits.append(miss)
                miss = None
            elif r is None:
                h_ = miss.fork()
                h_.add_fact(t, True)
                miss.add_fact(t, False)
                hits.append(h_)
        return handler, hits, miss

    def _key_determined(self, v, comps, st, depth=0):
        """the value is a function of the key components `comps` (and of module-level things)"""
        if depth > 40:
            return False
        if v in comps:
            return True
        if isinstance(v, (int, str, bool, float, Fraction)) or v is None:
            return True
        if isinstance(v, Lin):
            return all(self._key_determined(at, comps, st, depth + 1) for at in v.t)
        if isinstance(v, S):
            return all(self._key_determined(x, comps, st, depth + 1) for part in v.p for x in part[1:] if isinstance(x, (Lin, S, tuple)))
        if isinstance(v, tuple):
            if v[:1] == ("sym",):
                root = str(v[1]).split("@")[0].split(".")[0]
                if "@" in str(v[1]):
                    return False                              # a loop symbol
                return root not in st.env and not any(root in fr for fr in st.frames)        # a name of the module, not of a frame
            if v[:1] == ("k",):
                return True
            if v[:1] == ("op",) and len(v) > 3 and any(isinstance(x, tuple) and x[:1] == ("@site",) for x in v[3]):
                return False                                  # a new object per call
            if v[:1] in (("func",), ("lambda",), ("partial",), ("closure",)):
                return False
            return all(self._key_determined(x, comps, st, depth + 1) for x in v if isinstance(x, (Lin, S, tuple)))
        return False

    def _memo_store(self, name, key, value, st, node):
        """a store MEMO[key] = value: remembered for later reads on this path; the value (and every test made while it was computed) must be a
        function of the key, else a later hit could return something else than the miss path computes - then nothing is concluded (Unsupported)"""
        info = self._memo_info(name)
        comps = set()

        def collect(k):
            comps.add(k)
            if isinstance(k, tuple) and k[:1] == ("tuple",):
                for x in k[1]:
                    collect(x)
            if isinstance(k, tuple) and k[:1] == ("not",):
                collect(k[1])
        collect(key)
        logs = getattr(self, "_memo_logs", [])
        active = [lg for fn_, lg in logs if fn_ is info["func"]]
        if active:
            if not self._key_determined(value, comps, st):
                raise Unsupported(f"memo {name}: the value stored is not a function of the key ({show(value)[:80]} under {show(key)[:80]})")
            for t in active[-1]:
                if not self._key_determined(t, comps, st):
                    raise Unsupported(f"memo {name}: the value stored depends on a test that is not a function of the key ({show(t)[:80]})")
            # two call sites whose keys may coincide would share entries computed in different ways
            sites = info["sites"]
            if len(sites) > 1 and not self._memo_sites_apart(info):
                raise Unsupported(f"memo {name}: keys of different call sites of {info['func'].name} are not told apart by a literal component")
            # ... and one key has one value on every path of this evaluation (the key read with what the path knows: a test in it decided, a
            # quantity it fixes replaced by its value)
            nk = self._memo_key_norm(key, st)
            seen = self.__dict__.setdefault("_memo_seen", {}).setdefault(name, [])
            for k2, v2 in seen:
                if k2 == nk and v2 != value:
                    raise Unsupported(f"memo {name}: two different values are stored under one key ({show(nk)[:80]}): {show(v2)[:60]} / {show(value)[:60]}")
            if (nk, value) not in seen:
                seen.append((nk, value))
        st.env[("<memo>", name)] = tuple(x for x in st.env.get(("<memo>", name), ()) if x[0] != key) + ((key, value),)

    def _memo_key_norm(self, k, st):
        if isinstance(k, tuple) and k[:1] == ("tuple",):
            return ("tuple", tuple(self._memo_key_norm(x, st) for x in k[1]))
        if isinstance(k, Lin) and not k.is_const():
            lo, hi = bounds(k, st.facts)
            return Lin(c=lo) if lo is not None and lo == hi else k
        if isinstance(k, tuple) and k[:1] in (("cmp",), ("not",), ("bool",), ("in",), ("sym",), ("op",), ("elem",), ("attr",)):
            r = self.decide(k, st)                  # a test, or anything the path has tested for truth
            return ("k", r) if r is not None else k
        return k

    def _memo_sites_apart(self, info):
        if "apart" not in info:
            f = info["func"]
            npos = len(f.args.posonlyargs + f.args.args)
            tags = []
            for c in info["sites"]:
                if any(isinstance(a, ast.Starred) for a in c.args) or any(k.arg is None for k in c.keywords):
                    tags.append(None)
                else:
                    tags.append([a.value if isinstance(a, ast.Constant) else Ellipsis for a in c.args])
            ok = all(t is not None for t in tags)
            for i in range(len(tags)):
                for j in range(i + 1, len(tags)):
                    if not ok:
                        break
                    a, b = tags[i], tags[j]
                    differ = any(x is not Ellipsis and y is not Ellipsis and x != y for x, y in zip(a, b))
                    if not differ and not (len(a) != len(b) and f.args.vararg is not None and min(len(a), len(b)) >= npos):
                        ok = False
            info["apart"] = ok
        return info["apart"]

    def _memo_read(self, name, key, st):
        """MEMO[key] read after a store under the same key on this path; None when there was none"""
        for k, v in st.env.get(("<memo>", name), ()):
            if k == key:
                return v
        return None

    # ------------------------------------------------------------------------------------------------------------ helpers of the same module
    MAX_DEPTH = 7

    def _resolve_callable(self, v, nm, st, depth=0):
        """value called -> (function node, arguments already bound, keywords already bound, closure key) or None"""
        if depth > 3:
            return None
        if isinstance(v, tuple) and v:
            if v[0] == "func":
                f = getattr(self, "funcnodes", {}).get(v[2]) if len(v) > 2 else self.nested.get(v[1])
                return (f, (), {}, v[2] if len(v) > 2 else v[1]) if f is not None else None
            if v[0] == "closure":
                # a function that outlived the call that defined it: it sees the environment that call left behind
                r = self._resolve_callable(v[1], None, st, depth + 1)
                return (r[0], r[1], r[2], ("closure", v[2], r[3])) if r is not None else None
            if v[0] == "lambda":
                lam = getattr(self, "lambdas", {}).get(v[1])
                if lam is None:
                    return None
                f = getattr(lam, "_c13_def", None)
                if f is None:
                    ret = ast.copy_location(ast.Return(value=lam.body), lam)
                    f = ast.copy_location(ast.FunctionDef(name="<lambda>", args=lam.args, body=[ret], decorator_list=[], returns=None, type_comment=None), lam)
                    f._vparent = getattr(lam, "_vparent", None)
                    f._vmod = getattr(lam, "_vmod", None)
                    ret._vparent, ret._vmod = f, f._vmod
                    f._c13_closure = True
                    lam._c13_def = f
                return (f, (), {}, v[1])
            if v[0] == "partial":
                r = self._resolve_callable(v[1], None, st, depth + 1)
                if r is None:
                    return None
                kw = dict(r[2])
                kw.update(dict(v[3]))
                return (r[0], tuple(r[1]) + tuple(v[2]), kw, r[3])
            if v[0] == "sym" and v[1] in (self.follow or {}) and v[1] not in self.locals:
                return (self.follow[v[1]], (), {}, None)          # a helper of the module passed around as a value
            return None
        if v is None and nm is not None and nm not in self.locals:
            f = (self.follow or {}).get(nm)
            if f is None and self.follow:
                f = self._module_alias(nm)
            return (f, (), {}, None) if f is not None else None
        return None

    _CACHE_DECOS = {"lru_cache", "cache"}

    def _module_alias(self, nm, depth=0):
        """a module-level name bound once to a followed helper - directly (`g = _f`) or through a cache (`g = functools.lru_cache(maxsize=None)(_f)`,
        `g = functools.cache(_f)`: the cached function returns what the function returns, a helper that is followed being a function of its arguments)"""
        if depth > 3:
            return None
        defs = [st_ for st_ in self.mod.tree.body if isinstance(st_, ast.Assign) and len(st_.targets) == 1 and isinstance(st_.targets[0], ast.Name)
                and st_.targets[0].id == nm]
        if len(defs) != 1 or any(isinstance(n, ast.Name) and isinstance(n.ctx, ast.Store) and n.id == nm and n is not defs[0].targets[0] for n in ast.walk(self.mod.tree)):
            return None
        v = defs[0].value
        if isinstance(v, ast.Call) and len(v.args) == 1 and not v.keywords:
            fn_ = v.func
            if isinstance(fn_, ast.Call):
                fn_ = fn_.func                      # lru_cache(maxsize=None)(f)
            if (dotted(fn_) or "").split(".")[-1] in self._CACHE_DECOS:
                v = v.args[0]
        if isinstance(v, ast.Name):
            return (self.follow or {}).get(v.id) or self._module_alias(v.id, depth + 1)
        return None

    def _callee(self, call, st):
        if self.follow is None or self.depth >= self.MAX_DEPTH or not isinstance(call, ast.Call):
            return None
        for k in call.keywords:
            if k.arg is None and not (isinstance(k.value, ast.Name) and st.env.get(k.value.id) == ("op", "dict", ())):
                return None                                   # **mapping: only the empty one a `**kwargs` parameter received
        if isinstance(call.func, _Val):
            return self._resolve_callable(call.func.v, None, st)
        for a in call.args:
            if isinstance(a, ast.Starred):
                v = st.env.get(a.value.id) if isinstance(a.value, ast.Name) else None
                if not (isinstance(v, tuple) and v[:1] == ("tuple",) and not any(isinstance(x, tuple) and x[:1] == ("star",) for x in v[1])):
                    return None
        if isinstance(call.func, ast.Name):
            nm = call.func.id
            v = st.env.get(nm)
            if v is None and nm not in self.locals and nm in self.classes:
                return self._ctor(nm)
            if isinstance(v, tuple) and v[:1] == ("class",) and v[1] in self.classes:
                return self._ctor(v[1])
            if isinstance(v, tuple) and v[:1] == ("obj",):
                m_ = self._method(v[1], "__call__")
                return (m_[0], (v,), {}, None) if m_ is not None and m_[1] == "method" else None
            return self._resolve_callable(v, nm if nm not in st.env else None, st)
        if isinstance(call.func, ast.Attribute) and not any(isinstance(x, (ast.NamedExpr, ast.Lambda, ast.ListComp, ast.GeneratorExp, ast.DictComp, ast.SetComp, ast.IfExp))
                                                          for x in ast.walk(call.func.value)) \
                and (self.classes or False):
            base = call.func.value
            if isinstance(base, ast.Name) and base.id not in st.env and base.id not in self.locals and base.id in self.classes:
                owner = ("class", base.id)
            elif isinstance(base, ast.Name) and base.id not in st.env:
                return None
            else:
                try:
                    owner = self.ev(base, st)
                except Unsupported:
                    return None
            if isinstance(owner, tuple) and owner[:1] in (("class",), ("obj",)) and owner[1] in self.classes:
                m_ = self._method(owner[1], call.func.attr)
                if m_ is None:
                    # a function kept in a field of the record (`self._init_func(...)`)
                    fv = next((v_ for k_, v_ in owner[2] if k_ == call.func.attr), None) if owner[0] == "obj" else None
                    return self._resolve_callable(fv, None, st) if isinstance(fv, tuple) else None
                fnode, kind = m_
                if kind == "property" and not getattr(call, "_c13_getter", False):
                    return None                 # the value of the property is what is called
                if kind == "static":
                    return (fnode, (), {}, None)
                if kind == "class":
                    return (fnode, (("class", owner[1]),), {}, None)
                return (fnode, (owner,), {}, None) if owner[0] == "obj" else (fnode, (), {}, None)
        return None

    def _mro(self, q, seen=None):
        """the class and the classes of the module it inherits from, nearest first (depth first, left to right: exact for single inheritance)"""
        seen = seen if seen is not None else []
        c = self.classes.get(q)
        if c is None or q in seen:
            return seen
        seen.append(q)
        for b in c.bases:
            if isinstance(b, ast.Name) and b.id in self.classes:
                self._mro(b.id, seen)
        return seen

    def _method(self, q, name):
        """(function node, 'method' | 'static' | 'class' | 'property') of a method defined in the body of class q or of a class of the module it inherits
        from"""
        for q2 in self._mro(q):
            for n in self.classes[q2].body:
                if isinstance(n, ast.FunctionDef) and n.name == name:
                    decos = {(dotted(d) or "").split(".")[-1] for d in n.decorator_list}
                    if decos & {"setter", "deleter"}:
                        continue
                    return n, ("static" if "staticmethod" in decos else "class" if "classmethod" in decos
                               else "property" if decos & {"property", "cached_property"} else "method")
        return None

    def _class_attr(self, q, name):
        """the expression a class body (or that of a base class of the module) binds `name` to, or None"""
        for q2 in self._mro(q):
            for n in self.classes[q2].body:
                if isinstance(n, ast.Assign) and len(n.targets) == 1 and isinstance(n.targets[0], ast.Name) and n.targets[0].id == name:
                    return n.value
                if isinstance(n, ast.AnnAssign) and isinstance(n.target, ast.Name) and n.target.id == name and n.value is not None:
                    return n.value
        return None

    def _ctor(self, q):
        m_ = self._method(q, "__init__")
        return (m_[0] if m_ is not None else None, (), {}, None, ("ctor", q))

    def _construct_plain(self, call, q, st):
        """an object of a class without __init__ (NamedTuple, dataclass): its annotated attributes, in order, from the arguments"""
        c = self.classes[q]
        names, defaults = [], {}
        for n in c.body:
            if isinstance(n, ast.AnnAssign) and isinstance(n.target, ast.Name):
                names.append(n.target.id)
                if n.value is not None:
                    defaults[n.target.id] = n.value
        for q2 in self._mro(q)[1:]:
            for n in self.classes[q2].body:
                if isinstance(n, ast.AnnAssign) and isinstance(n.target, ast.Name) and n.target.id not in names:
                    names.append(n.target.id)
                    if n.value is not None:
                        defaults[n.target.id] = n.value
        if not names:
            if call.args or call.keywords:
                raise Unsupported(f"class {q}: no annotated attributes")
            return ("obj", q, ())
        vals = {}
        pos = []
        for a in call.args:
            v = self.ev(a, st)
            if isinstance(v, tuple) and v[:1] == ("star",) and isinstance(v[1], tuple) and v[1][:1] == ("tuple",):
                pos.extend(v[1][1])
            elif isinstance(v, tuple) and v[:1] == ("star",):
                raise Unsupported(f"class {q}: starred argument")
            else:
                pos.append(v)
        if len(pos) > len(names):
            raise Unsupported(f"class {q}: too many arguments")
        for nm, v in zip(names, pos):
            vals[nm] = v
        for k in call.keywords:
            if k.arg is None:
                raise Unsupported(f"class {q}: ** argument")
            vals[k.arg] = self.ev(k.value, st)
        for nm in names:
            if nm not in vals:
                if nm not in defaults:
                    raise Unsupported(f"class {q}: attribute {nm} not given")
                vals[nm] = self.ev(defaults[nm], State())
        return ("obj", q, tuple((nm, vals[nm]) for nm in names))

    def inlinable(self, call, st):
        """the function a call runs, when its body is followed (a generator function is not run by its call)"""
        r = self._callee(call, st)
        if r is None:
            return None
        if r[0] is None:
            return r if len(r) > 4 else None          # a constructor without __init__
        if _is_generator(r[0]) or (self.follow_if is not None and not self.follow_if(r[0])):
            return None
        if self._calls_itself(r[0]):
            # a function that calls itself in tail position only is the loop it spells; any other recursion is not followed - and since the
            # function may write, nothing can be concluded then
            loop = self._tail_loop(r[0])
            if loop is None:
                raise Unsupported(f"recursive function {r[0].name} (not only in tail position)")
            r = (loop,) + tuple(r[1:])
        elif any(f is r[0] for f in getattr(self, "_inline_stack", ())):
            raise Unsupported(f"mutually recursive function {r[0].name}")
        return r

    @staticmethod
    def _calls_itself(fnode):
        c = getattr(fnode, "_c13_selfrec", None)
        if c is None:
            c = fnode._c13_selfrec = any(isinstance(n, ast.Call) and isinstance(n.func, ast.Name) and n.func.id == fnode.name
                                         for b in fnode.body for n in ast.walk(b)) and not any(
                isinstance(n, ast.Name) and isinstance(n.ctx, ast.Store) and n.id == fnode.name for b in fnode.body for n in ast.walk(b))
        return c

    def _tail_loop(self, fnode):
        """`def f(p): ...; f(e)` with every call of itself in tail position  ->  `def f(p): while True: ...; p = e; continue` (what falls off the end
        returns).  None when a call of itself is anywhere else (inside an expression, a loop, before other statements)."""
        if hasattr(fnode, "_c13_tail"):
            return fnode._c13_tail
        fnode._c13_tail = None
        name = fnode.name
        a = fnode.args
        if a.vararg or a.kwarg:
            return None
        pos = [x.arg for x in a.posonlyargs + a.args]
        params = pos + [x.arg for x in a.kwonlyargs]
        defaults = dict(zip(pos[len(pos) - len(a.defaults):], a.defaults))
        defaults.update({x.arg: d for x, d in zip(a.kwonlyargs, a.kw_defaults) if d is not None})
        if any(not isinstance(d, ast.Constant) for d in defaults.values()):
            return None

        class No(Exception):
            pass

        def is_self(n):
            return isinstance(n, ast.Call) and isinstance(n.func, ast.Name) and n.func.id == name

        def has_self(n):
            return any(is_self(x) for x in ast.walk(n))

        def mk(node, like):
            ast.copy_location(node, like)
            node._vmod = getattr(like, "_vmod", None)
            for ch in ast.walk(node):
                if not hasattr(ch, "lineno") and isinstance(ch, (ast.expr, ast.stmt)):
                    ast.copy_location(ch, like)
            return node

        def rebind(call, like):
            if any(isinstance(x, ast.Starred) for x in call.args) or any(k.arg is None for k in call.keywords) or len(call.args) > len(pos):
                raise No()
            if any(has_self(x) for x in call.args) or any(has_self(k.value) for k in call.keywords):
                raise No()
            new = dict(zip(pos, call.args))
            for k in call.keywords:
                if k.arg not in params or k.arg in new:
                    raise No()
                new[k.arg] = k.value
            for p_ in params:
                if p_ not in new:
                    if p_ not in defaults:
                        raise No()
                    new[p_] = defaults[p_]
            changed = [p_ for p_ in params if not (isinstance(new[p_], ast.Name) and new[p_].id == p_)]
            out = []
            uses = lambda e, nm: any(isinstance(x, ast.Name) and x.id == nm for x in ast.walk(e))
            sequential = all(not uses(new[q], p_) for i, p_ in enumerate(changed) for q in changed[i + 1:])
            if sequential:
                for p_ in changed:
                    out.append(mk(ast.Assign(targets=[ast.Name(id=p_, ctx=ast.Store())], value=new[p_], type_comment=None), like))
            elif changed:
                out.append(mk(ast.Assign(targets=[ast.Tuple(elts=[ast.Name(id=p_, ctx=ast.Store()) for p_ in changed], ctx=ast.Store())],
                                         value=ast.Tuple(elts=[new[p_] for p_ in changed], ctx=ast.Load()), type_comment=None), like))
            out.append(mk(ast.Continue(), like))
            return out

        def conv(stmts, tail):
            out = []
            for i, s_ in enumerate(stmts):
                last = tail and i == len(stmts) - 1
                if isinstance(s_, ast.Return) and s_.value is not None and is_self(s_.value):
                    out.extend(rebind(s_.value, s_))
                    continue
                if isinstance(s_, ast.Expr) and is_self(s_.value):
                    nxt = stmts[i + 1] if i + 1 < len(stmts) else None
                    if not (last or (isinstance(nxt, ast.Return) and nxt.value is None)):
                        raise No()
                    out.extend(rebind(s_.value, s_))
                    continue
                if has_self(s_):
                    if isinstance(s_, ast.If) and last and not has_self(s_.test):
                        out.append(mk(ast.If(test=s_.test, body=conv(s_.body, True), orelse=conv(s_.orelse, True)), s_))
                        continue
                    raise No()
                out.append(s_)
            if tail and not (out and isinstance(out[-1], (ast.Return, ast.Continue, ast.Raise))):
                out.append(mk(ast.Return(value=None), stmts[-1] if stmts else fnode))
            return out
        try:
            body = conv(list(fnode.body), True)
        except No:
            return None
        loop = mk(ast.While(test=ast.Constant(value=True), body=body, orelse=[]), fnode)
        new = mk(ast.FunctionDef(name=name, args=fnode.args, body=[loop], decorator_list=[], returns=None, type_comment=None), fnode)
        new._vparent = getattr(fnode, "_vparent", None)
        loop._vparent = new
        new._c13_closure = bool(getattr(fnode, "_c13_closure", False) or fnode in self.nested.values() or id(fnode) in getattr(self, "funcnodes", {}))
        new._c13_selfrec = False
        new._c13_origin = fnode
        fnode._c13_tail = new
        return new

    def _generator_of(self, call, st):
        r = self._callee(call, st)
        if r is None or r[0] is None or len(r) > 4 or not _is_generator(r[0]) or (self.follow_if is not None and not self.follow_if(r[0])):
            return None
        return r

    def _def_defaults(self, args, key, st):
        """the default values of a `def` / lambda, evaluated where and when it is executed; kept in the defining environment"""
        try:
            pos = tuple(self.ev(d, st) for d in args.defaults)
            kw = tuple(self.ev(d, st) if d is not None else None for d in args.kw_defaults)
        except Unsupported:
            return
        if pos or any(x is not None for x in kw):
            st.env[("<defaults>", key)] = (pos, kw)

    def _close_over(self, val, env, depth):
        """a function value defined in the activation that is being left (depth `depth`) keeps that activation's final environment"""
        dd = getattr(self, "defdepth", {})
        found = [False]

        def here(v):
            return isinstance(v, tuple) and ((v[:1] == ("func",) and len(v) > 2 and dd.get(v[2]) == depth) or (v[:1] == ("lambda",) and dd.get(v[1]) == depth))

        def scan(v):
            if here(v):
                found[0] = True
            elif isinstance(v, tuple) and v[:1] != ("closure",):
                for x in v:
                    if isinstance(x, tuple):
                        scan(x)
        scan(val)
        if not found[0]:
            return val
        self._closure_envs = getattr(self, "_closure_envs", {})
        cid = len(self._closure_envs) + 1
        env2 = self._closure_envs[cid] = {}

        def conv(v):
            if here(v):
                return ("closure", v, cid)
            if isinstance(v, tuple) and v[:1] != ("closure",):
                return tuple(conv(x) if isinstance(x, tuple) else x for x in v)
            return v
        for k, v in env.items():
            env2[k] = conv(v) if isinstance(v, tuple) else v
        return conv(val)

    def _closure_env(self, fnode, key, st):
        """the environment a nested function / lambda sees besides its parameters: that of the frame that defined it"""
        if isinstance(key, tuple) and key[:1] == ("closure",):
            return self._closure_envs[key[1]]
        if not (fnode in self.nested.values() or getattr(fnode, "_c13_closure", False) or id(fnode) in getattr(self, "funcnodes", {})):
            return {}
        dd = getattr(self, "defdepth", {}).get(key)
        if dd is None or dd >= len(st.frames):
            return st.env
        return st.frames[dd]

    def _bind(self, call, target, st):
        """parameter values of a call: positional (bound ones first), starred concrete lists, keywords, defaults"""
        fnode, pre_args, pre_kws, key = target[:4]
        args = list(pre_args)
        for a in call.args:
            v = self.ev(a, st)
            if isinstance(v, tuple) and v[:1] == ("star",) and isinstance(v[1], tuple) and v[1][:1] == ("tuple",):
                args.extend(v[1][1])
            else:
                args.append(v)
        kws = dict(pre_kws)
        kws.update({k.arg: self.ev(k.value, st) for k in call.keywords if k.arg is not None})          # `**{}` adds nothing (checked by _callee)
        a = fnode.args
        pos = a.posonlyargs + a.args
        if len(args) > len(pos) and not a.vararg:
            raise Unsupported(f"call of {fnode.name}: too many arguments")
        bound = {}
        for p_, v in zip(pos, args):
            bound[p_.arg] = v
        if a.vararg:
            bound[a.vararg.arg] = ("tuple", tuple(args[len(pos):]))
        for k, v in kws.items():
            bound[k] = v
        dpos = pos[len(pos) - len(a.defaults):]
        # defaults were evaluated when the `def` / lambda was executed, in the environment of that moment
        ikey = key[2] if isinstance(key, tuple) and key[:1] == ("closure",) else key
        rec = None
        try:
            rec = self._closure_env(fnode, key, st).get(("<defaults>", ikey))
        except (KeyError, AttributeError, IndexError):
            rec = None
        if rec is not None and (len(rec[0]) != len(a.defaults) or len(rec[1]) != len(a.kw_defaults)):
            rec = None
        for i_, (p_, dv) in enumerate(zip(dpos, a.defaults)):
            if p_.arg not in bound:
                bound[p_.arg] = rec[0][i_] if rec is not None and rec[0][i_] is not None else self.ev(dv, State())
        for i_, (p_, dv) in enumerate(zip(a.kwonlyargs, a.kw_defaults)):
            if p_.arg not in bound and dv is not None:
                bound[p_.arg] = rec[1][i_] if rec is not None and rec[1][i_] is not None else self.ev(dv, State())
        if a.kwarg and a.kwarg.arg not in bound:
            bound[a.kwarg.arg] = ("op", "dict", ())
        for p_ in pos + a.kwonlyargs:
            if p_.arg not in bound:
                raise Unsupported(f"call of {fnode.name}: parameter {p_.arg} not bound")
        return bound, args, kws

    def inline(self, call, target, st):
        """run the callee's body on the argument values; returns [(caller state, returned value)] - one per path of the callee"""
        fnode, _, _, key = target[:4]
        ctor = target[4][1] if len(target) > 4 else None
        if ctor is not None and fnode is None:
            c = State(st.env, st.facts, st.events, st.loops, st.frames)
            c.pre = dict(st.pre)
            return [(c, self._construct_plain(call, ctor, st))]
        if ctor is not None:
            target = (fnode, (("obj", ctor, ()),), target[2], key)          # __init__(self, ...): what it stores in self.* makes the object
        bound, args, kws = self._bind(call, target, st)
        pre_self = target[1][0] if ctor is None and target[1] and isinstance(target[1][0], tuple) and target[1][0][:1] == ("obj",) \
            and isinstance(call.func, ast.Attribute) else None
        env = dict(self._closure_env(fnode, key, st))
        env.update(bound)
        sub = State(env, st.facts, st.events, st.loops, st.frames + (st.env,))
        self.emit(sub, "enter", call, func=fnode.name, args=args, kws=kws)
        saved_locals, saved_nested = self.locals, self.nested
        saved_bufs = self.strbufs
        self.strbufs = set(_strbufs(getattr(fnode, "_c13_origin", fnode)))
        self.strings |= self.strbufs
        self.locals = {n.id for n in walk_no_nested(fnode) if isinstance(n, ast.Name) and isinstance(n.ctx, ast.Store)} | set(env)
        self.nested = dict(self.nested)
        for n in fnode.body:
            if isinstance(n, ast.FunctionDef):
                self.nested[n.name] = n
        self.depth += 1
        self._inline_stack = getattr(self, "_inline_stack", []) + [fnode]
        self._memo_logs = getattr(self, "_memo_logs", [])
        logged = id(fnode) in self._memo_holders()
        if logged:
            self._memo_logs.append((fnode, []))           # the tests made while a memo function runs: what it stores must not depend on more than the key
        try:
            outs = self.block(fnode.body, [sub])
        finally:
            self.depth -= 1
            self._inline_stack = self._inline_stack[:-1]
            if logged:
                self._memo_logs.pop()
            self.locals, self.nested = saved_locals, saved_nested
            self.strbufs = saved_bufs
        res = []
        nl = _nonlocals(getattr(fnode, "_c13_origin", fnode))
        depth_here = len(st.frames)
        for o in outs:
            # the caller's frames as the callee leaves them: a name the callee (or one it called) declares `nonlocal` is rebound where it lives
            base_env = o.frames[depth_here] if len(o.frames) > depth_here else st.env
            frames = tuple(o.frames[:depth_here]) if len(o.frames) >= depth_here else st.frames
            if nl and o.status in ("run", "return", "raise"):
                upd = {n_: o.env[n_] for n_ in nl if n_ in o.env}
                ikey = key[2] if isinstance(key, tuple) and key[:1] == ("closure",) else key
                dd = getattr(self, "defdepth", {}).get(ikey)
                if isinstance(key, tuple) and key[:1] == ("closure",):
                    self._closure_envs[key[1]].update(upd)
                elif dd is None or dd >= depth_here:
                    base_env = dict(base_env)
                    base_env.update(upd)
                else:
                    fl = list(frames)
                    fl[dd] = dict(fl[dd])
                    fl[dd].update(upd)
                    frames = tuple(fl)
            changed = None
            if ctor is None and pre_self is not None and o.status in ("run", "return", "raise"):
                me = (fnode.args.posonlyargs + fnode.args.args)[0].arg
                cur = o.env.get(me)
                if isinstance(cur, tuple) and cur[:1] == ("obj",) and cur != pre_self and cur[1] == pre_self[1]:
                    changed = cur
            if changed is not None:
                # a method that changed its object: the record being a value, what holds it (a name, an attribute path) is rebound
                rp = dotted(call.func.value) if isinstance(call.func, ast.Attribute) else None
                if rp is not None and (rp.split(".")[0] in base_env):
                    base_env = dict(base_env)
                    self._store_path(base_env, rp, changed)
                elif not (isinstance(call.func, ast.Attribute) and isinstance(call.func.value, _Val)):
                    raise Unsupported(f"method {fnode.name} changes an object that no name holds")
            c = State(base_env, o.facts, o.events, st.loops, frames)
            c.pre = dict(st.pre)
            if changed is not None and rp is not None and (rp.split(".")[0] in base_env):
                for k_, v_ in changed[2]:
                    if dict(pre_self[2]).get(k_) != v_:
                        self.emit(c, "assign", call, name=f"{rp}.{k_}", value=v_)
            val = ("k", None)
            if o.status == "return":
                rets = [e for e in o.events if e.kind == "return"]
                val = rets[-1].d["value"] if rets else ("k", None)
                val = self._close_over(val, o.env, len(st.frames) + 1)
                o.events = [e for e in o.events if e is not rets[-1]] if rets else o.events
                c.events = list(o.events)
                c.status = "run"
            if ctor is not None and o.status in ("run", "return"):
                selfname = (fnode.args.posonlyargs + fnode.args.args)[0].arg
                made = o.env.get(selfname)
                fields = list(made[2]) if isinstance(made, tuple) and made[:1] == ("obj",) else []
                for k_, v_ in o.env.items():
                    if isinstance(k_, str) and k_.startswith(selfname + ".") and "." not in k_[len(selfname) + 1:] and k_[len(selfname) + 1:] not in dict(fields):
                        fields.append((k_[len(selfname) + 1:], v_))
                val = ("obj", ctor, tuple(fields))
            elif o.status == "raise":
                c.status = "raise"
            elif o.status in ("continue", "break", "genreturn"):
                raise Unsupported("loop control leaving an inlined function")
            self.emit(c, "leave", call, func=fnode.name, value=val)
            res.append((c, val))
        return res

    def _match_as_if(self, node):
        """`match x: case 1: A; case 2 | 3: B; case _: C` (literal values, `_`, guards) as the if / elif chain it is"""
        def conj(ts):
            ts = [t for t in ts if not (isinstance(t, ast.Constant) and t.value is True)]
            return ast.Constant(value=True) if not ts else ts[0] if len(ts) == 1 else ast.BoolOp(op=ast.And(), values=ts)

        def test_of(pat, subj, binds):
            """the test a pattern makes on the subject expression `subj`; names it captures go to `binds` [(name, expression)]"""
            if isinstance(pat, ast.MatchValue):
                return ast.Compare(left=subj, ops=[ast.Eq()], comparators=[pat.value])
            if isinstance(pat, ast.MatchSingleton):
                return ast.Compare(left=subj, ops=[ast.Is()], comparators=[ast.Constant(value=pat.value)])
            if isinstance(pat, ast.MatchOr):
                inner = []
                ts = [test_of(p_, subj, inner) for p_ in pat.patterns]
                return None if any(t is None for t in ts) or inner else ast.BoolOp(op=ast.Or(), values=ts)
            if isinstance(pat, ast.MatchAs):
                t = ast.Constant(value=True) if pat.pattern is None else test_of(pat.pattern, subj, binds)
                if t is not None and pat.name is not None:
                    binds.append((pat.name, subj))
                return t
            if isinstance(pat, ast.MatchClass) and not pat.patterns and not pat.kwd_patterns and isinstance(pat.cls, (ast.Name, ast.Attribute)):
                # `case str():` is isinstance(subject, str)
                return ast.Call(func=ast.Name(id="isinstance", ctx=ast.Load()), args=[subj, pat.cls], keywords=[])
            if isinstance(pat, ast.MatchSequence) and isinstance(subj, (ast.Tuple, ast.List)) and not any(isinstance(p_, ast.MatchStar) for p_ in pat.patterns) \
                    and not any(isinstance(e_, ast.Starred) for e_ in subj.elts):
                # a tuple written in place matched against a sequence pattern: element by element (never, when the lengths differ)
                if len(subj.elts) != len(pat.patterns):
                    return ast.Constant(value=False)
                ts = [test_of(p_, e_, binds) for p_, e_ in zip(pat.patterns, subj.elts)]
                return None if any(t is None for t in ts) else conj(ts)
            if isinstance(pat, ast.MatchSequence) and isinstance(subj, (ast.Name, ast.Attribute, ast.Subscript)) \
                    and not any(isinstance(p_, ast.MatchStar) for p_ in pat.patterns):
                # a sequence pattern on a value that is a tuple (a shape, an item of a tuple, ...): the length, then element by element
                ln = ast.Compare(left=ast.Call(func=ast.Name(id="len", ctx=ast.Load()), args=[subj], keywords=[]), ops=[ast.Eq()],
                                 comparators=[ast.Constant(value=len(pat.patterns))])
                ts = [test_of(p_, ast.Subscript(value=subj, slice=ast.Constant(value=i_), ctx=ast.Load()), binds) for i_, p_ in enumerate(pat.patterns)]
                return None if any(t is None for t in ts) else conj([ln] + ts)
            return None

        class _Sub(ast.NodeTransformer):
            def __init__(self, mp):
                self.mp = mp

            def visit_Name(self, n):
                return self.mp.get(n.id, n) if isinstance(n.ctx, ast.Load) else n

        # the subject is evaluated once: anything but a plain expression (a call, ...) is bound to a temporary first - as a whole, or item by item
        # for a tuple written in place
        plain = (ast.Name, ast.Attribute, ast.Constant, ast.Subscript, ast.Compare, ast.BoolOp, ast.UnaryOp)
        pre_subject = []

        def temp(expr):
            self.genseq = getattr(self, "genseq", 0) + 1
            nm = f"_match${self.genseq}"
            self.locals = set(self.locals) | {nm}
            a_ = ast.Assign(targets=[ast.Name(id=nm, ctx=ast.Store())], value=expr, type_comment=None)
            for n in ast.walk(a_):
                if not hasattr(n, "lineno") and isinstance(n, (ast.expr, ast.stmt)):
                    ast.copy_location(n, node)
            a_._vparent, a_._vmod = getattr(node, "_vparent", None), getattr(node, "_vmod", None)
            pre_subject.append(a_)
            return ast.copy_location(ast.Name(id=nm, ctx=ast.Load()), node)
        subject = node.subject
        if isinstance(subject, ast.Tuple) and not any(isinstance(e_, ast.Starred) for e_ in subject.elts):
            subject = ast.copy_location(ast.Tuple(elts=[e_ if isinstance(e_, plain) else temp(e_) for e_ in subject.elts], ctx=ast.Load()), subject)
        elif not isinstance(subject, plain):
            if isinstance(subject, (ast.Lambda, ast.GeneratorExp, ast.ListComp, ast.Await, ast.Yield, ast.YieldFrom, ast.NamedExpr, ast.Starred)):
                return None
            subject = temp(subject)
        orelse = []
        for case in reversed(node.cases):
            binds = []
            t = test_of(case.pattern, subject, binds)
            if t is None:
                return None
            body = case.body
            if binds:
                if len({nm for nm, _ in binds}) != len(binds):
                    return None
                # a captured name is the (pure) subject expression: in the guard it is replaced by it, in the body it is bound first
                pre = []
                for nm, ex in binds:
                    a_ = ast.Assign(targets=[ast.Name(id=nm, ctx=ast.Store())], value=ex, type_comment=None)
                    pre.append(a_)
                body = pre + list(case.body)
            if case.guard is not None:
                g = _Sub(dict(binds)).visit(_copy_renamed(case.guard, {}, getattr(case.guard, "_vparent", None))) if binds else case.guard
                t = conj([t, g])
            cur = ast.If(test=t, body=body, orelse=orelse)
            for st_ in body[:len(binds)]:
                for n in ast.walk(st_):
                    if not hasattr(n, "lineno"):
                        ast.copy_location(n, case.pattern)
                st_._vparent, st_._vmod = cur, getattr(node, "_vmod", None)
            for n in ast.walk(t):
                if not hasattr(n, "lineno"):
                    ast.copy_location(n, case.pattern)
            ast.copy_location(cur, case.pattern)
            cur._vparent, cur._vmod = getattr(node, "_vparent", None), getattr(node, "_vmod", None)
            orelse = [cur]
        return pre_subject + orelse

    @staticmethod
    def _yields_once(fnode):
        """one `yield` statement, outside any loop (directly in the body, or in the body of a `try` or `with` there)"""
        ys = [n for n in walk_no_nested(fnode) if isinstance(n, (ast.Yield, ast.YieldFrom))]
        if len(ys) != 1 or isinstance(ys[0], ast.YieldFrom):
            return False
        p = getattr(ys[0], "_vparent", None)
        if not isinstance(p, ast.Expr):
            return False
        p = getattr(p, "_vparent", None)
        while p is not None and p is not fnode:
            if not isinstance(p, (ast.Try, ast.With)):
                return False
            p = getattr(p, "_vparent", None)
        return p is fnode

    def _call_method(self, obj, name, argnodes, node, st, getter=False):
        """run method `name` of an object of a module class in state `st` (which is updated); its value, or None when it has not exactly one path"""
        call = ast.copy_location(ast.Call(func=ast.Attribute(value=_Val.of(obj), attr=name, ctx=ast.Load()), args=list(argnodes), keywords=[]), node)
        call._c13_getter = getter
        call._vparent, call._vmod = getattr(node, "_vparent", None), getattr(node, "_vmod", None)
        ast.copy_location(call.func, node)
        ast.copy_location(call.func.value, node)
        target = self.inlinable(call, st)
        if target is None:
            raise Unsupported(f"method {name} of {obj[1]} cannot be followed")
        res = [(c, v) for c, v in self.inline(call, target, st) if c.status == "run"]
        if len(res) != 1:
            return None
        c, v = res[0]
        st.env, st.facts, st.events, st.frames = c.env, c.facts, c.events, c.frames
        return v

    def _as_statements(self, node):
        """an expression statement that is control flow in disguise, as the statements it stands for (None for anything else):
             a and b          ->  if a: b                    a or b  ->  if not a: b
             [g(x) for x in xs if c]   (a list / set comprehension evaluated for its effects)  ->  for x in xs: if c: g(x)
             list(map(g, xs)) / tuple(...) / collections.deque(map(g, xs), maxlen=0)           ->  for item in xs: g(item)"""
        v = node.value

        def put(n, like=node):
            for x in ast.walk(n):
                if isinstance(x, (ast.expr, ast.stmt)) and not hasattr(x, "lineno"):
                    ast.copy_location(x, like)
            n._vparent, n._vmod = getattr(node, "_vparent", None), getattr(node, "_vmod", None)
            return n

        def has_call(x):
            return any(isinstance(y, ast.Call) for y in ast.walk(x))
        if isinstance(v, ast.BoolOp) and has_call(v.values[-1]):
            body = [put(ast.Expr(value=v.values[-1]))]
            for t in reversed(v.values[:-1]):
                test = t if isinstance(v.op, ast.And) else ast.UnaryOp(op=ast.Not(), operand=t)
                body = [put(ast.If(test=test, body=body, orelse=[]))]
            return body
        if isinstance(v, (ast.ListComp, ast.SetComp)) and has_call(v.elt) and not any(g.is_async for g in v.generators):
            body = [put(ast.Expr(value=v.elt))]
            for g in reversed(v.generators):
                for c in reversed(g.ifs):
                    body = [put(ast.If(test=c, body=body, orelse=[]))]
                body = [put(ast.For(target=g.target, iter=g.iter, body=body, orelse=[], type_comment=None))]
            return body
        if isinstance(v, ast.Call) and (dotted(v.func) or "") in ("list", "tuple", "set", "collections.deque", "deque") and len(v.args) == 1 \
                and isinstance(v.args[0], ast.Call) and (dotted(v.args[0].func) or "") == "map" and len(v.args[0].args) == 2 and not v.args[0].keywords \
                and ((dotted(v.func) or "").endswith("deque") == any(k.arg == "maxlen" for k in v.keywords)):
            fn_, xs = v.args[0].args
            self.genseq = getattr(self, "genseq", 0) + 1
            tmp = f"item${self.genseq}m"
            self.locals = set(self.locals) | {tmp}
            call = ast.Call(func=fn_, args=[ast.Name(id=tmp, ctx=ast.Load())], keywords=[])
            return [put(ast.For(target=ast.Name(id=tmp, ctx=ast.Store()), iter=xs, body=[ast.Expr(value=call)], orelse=[], type_comment=None))]
        return None

    @staticmethod
    def _output_like(e):
        return e.kind == "call" and (e.d.get("attr") in ("write", "writelines", "vecwrite") or (e.d.get("name") or "").split(".")[-1] in ("print", "vecwrite"))

    def _as_loop(self, node, st):
        """`xs.extend(f(a) for a in gen(...))`, `f.writelines(gen(...))` with `gen` a generator function of the module: the loop they stand for -
        `for a in gen(...): xs.append(f(a))` - so that the generator can be followed like in a `for` statement.  None for anything else."""
        c = node.value
        if not (isinstance(c, ast.Call) and isinstance(c.func, ast.Attribute) and c.func.attr in ("extend", "writelines") and len(c.args) == 1 and not c.keywords):
            return None
        arg = c.args[0]
        one = {"extend": "append", "writelines": "write"}[c.func.attr]
        if isinstance(arg, (ast.GeneratorExp, ast.ListComp)) and len(arg.generators) == 1 and not arg.generators[0].ifs and not arg.generators[0].is_async \
                and isinstance(arg.generators[0].iter, ast.Call) and self._generator_of(arg.generators[0].iter, st) is not None:
            target, it, elt = arg.generators[0].target, arg.generators[0].iter, arg.elt
        elif isinstance(arg, ast.Call) and self._generator_of(arg, st) is not None:
            self.genseq = getattr(self, "genseq", 0) + 1
            target = ast.Name(id=f"item${self.genseq}", ctx=ast.Store())
            it, elt = arg, ast.Name(id=target.id, ctx=ast.Load())
        else:
            return None
        call = ast.Call(func=ast.Attribute(value=c.func.value, attr=one, ctx=ast.Load()), args=[elt], keywords=[])
        loop = ast.For(target=target, iter=it, body=[ast.Expr(value=call)], orelse=[], type_comment=None)
        for n in [loop, call, call.func, loop.body[0]] + ([target, elt] if not hasattr(target, "lineno") else []):
            ast.copy_location(n, node)
            n._vparent, n._vmod = getattr(node, "_vparent", None), getattr(node, "_vmod", None)
        return loop

    # ------------------------------------------------------------------------------------------------------------ generators
    def _for_generator(self, node, target, st):
        """`for T in gen(args): BODY` with `gen` a generator function of the module: the generator's body is run in the caller's frame (its
        names made unique) and every `yield v` becomes `T = v; BODY`.  None when the generator uses a construct this cannot express."""
        fnode, _, _, key = target[:4]
        if self.depth >= self.MAX_DEPTH:
            return None
        self.genseq = getattr(self, "genseq", 0) + 1
        tag = f"${self.genseq}"
        try:
            bound, args, kws = self._bind(node.iter, target, st)
        except Unsupported:
            return None
        names = set(bound) | {n.id for n in walk_no_nested(fnode) if isinstance(n, ast.Name) and isinstance(n.ctx, ast.Store)}
        names |= {n.name for n in walk_no_nested(fnode) if isinstance(n, (ast.FunctionDef, ast.AsyncFunctionDef))}
        ren = {nm: nm + tag for nm in names}
        body = _copy_renamed(list(fnode.body), ren, fnode)
        ok = [True]

        def conv(stmts, tail):
            out = []
            for i, s_ in enumerate(stmts):
                last = tail and i == len(stmts) - 1
                if isinstance(s_, ast.Expr) and isinstance(s_.value, ast.YieldFrom):
                    # `yield from xs`  is  `for item in xs: yield item`
                    self.genseq = getattr(self, "genseq", 0) + 1
                    tmp = f"item${self.genseq}y"
                    y_ = ast.Expr(value=ast.Yield(value=ast.Name(id=tmp, ctx=ast.Load())))
                    loop_ = ast.For(target=ast.Name(id=tmp, ctx=ast.Store()), iter=s_.value.value, body=[y_], orelse=[], type_comment=None)
                    for n_ in (loop_, loop_.target, y_, y_.value, y_.value.value):
                        ast.copy_location(n_, s_)
                        n_._vmod = getattr(s_, "_vmod", None)
                    loop_._vparent = getattr(s_, "_vparent", None)
                    loop_.target._vparent, y_._vparent, y_.value._vparent, y_.value.value._vparent = loop_, loop_, y_, y_.value
                    self.locals = set(self.locals) | {tmp}
                    s_ = loop_
                if isinstance(s_, ast.Expr) and isinstance(s_.value, ast.Yield):
                    yb = _YieldBlock()
                    yb.target, yb.body = node.target, node.body
                    yb.value = s_.value.value if s_.value.value is not None else ast.copy_location(ast.Constant(value=None), s_)
                    yb.fornode = node
                    ast.copy_location(yb, s_)
                    yb._vparent, yb._vmod = getattr(s_, "_vparent", None), getattr(s_, "_vmod", None)
                    out.append(yb)
                    continue
                if isinstance(s_, ast.Return):
                    if s_.value is not None:
                        ok[0] = False
                    if not last:
                        gr = ast.copy_location(_GenReturn(), s_)
                        gr._vparent, gr._vmod = getattr(s_, "_vparent", None), getattr(s_, "_vmod", None)
                        out.append(gr)
                    continue
                if isinstance(s_, (ast.If,)):
                    s_.body, s_.orelse = conv(s_.body, last), conv(s_.orelse, last)
                elif isinstance(s_, (ast.For, ast.While)):
                    s_.body, s_.orelse = conv(s_.body, False), conv(s_.orelse, False)
                elif isinstance(s_, (ast.With,)):
                    s_.body = conv(s_.body, False)
                elif isinstance(s_, ast.Try):
                    s_.body, s_.orelse, s_.finalbody = conv(s_.body, False), conv(s_.orelse, False), conv(s_.finalbody, False)
                if isinstance(s_, (ast.FunctionDef, ast.AsyncFunctionDef, ast.ClassDef)):
                    out.append(s_)
                    continue
                out.append(s_)
            return out
        body = conv(body, True)
        # any yield left (inside an expression, `yield from`, a yield in an except handler) is outside what this expresses
        for b in body:
            for n in ast.walk(b):
                if isinstance(n, _YieldBlock):
                    continue
                if isinstance(n, (ast.Yield, ast.YieldFrom, ast.Await)):
                    ok[0] = False
        if not ok[0]:
            return None
        # the caller's loop body must not `break` out of the generator
        def has_break(stmts):
            for s_ in stmts:
                if isinstance(s_, ast.Break):
                    return True
                if isinstance(s_, (ast.If, ast.With, ast.Try)):
                    parts = list(getattr(s_, "body", [])) + list(getattr(s_, "orelse", [])) + list(getattr(s_, "finalbody", []))
                    for h in getattr(s_, "handlers", []):
                        parts += h.body
                    if has_break(parts):
                        return True
            return False
        if has_break(node.body):
            return None
        closure = self._closure_env(fnode, key, st)
        pre = []
        for nm, v in bound.items():
            vn = _Val()
            vn.v = v
            ast.copy_location(vn, node.iter)
            tn = ast.copy_location(ast.Name(id=ren[nm], ctx=ast.Store()), node.iter)
            asg = ast.copy_location(ast.Assign(targets=[tn], value=vn), node.iter)
            for x in (vn, tn, asg):
                x._vparent, x._vmod = getattr(node.iter, "_vparent", None), getattr(node.iter, "_vmod", None)
            pre.append(asg)
        if closure is not st.env:
            for k, v in closure.items():
                st.env.setdefault(k, v)
        saved_locals, saved_nested = self.locals, self.nested
        saved_bufs = self.strbufs
        self.strbufs = set(self.strbufs) | {ren.get(b, b) for b in _strbufs(fnode)}
        self.strings |= self.strbufs
        self.locals = set(self.locals) | set(ren.values())
        self.nested = dict(self.nested)
        for n in body:
            if isinstance(n, ast.FunctionDef):
                self.nested[n.name] = n
        self.emit(st, "enter", node.iter, func=fnode.name, args=args, kws=kws)
        self.depth += 1
        try:
            outs = self.block(pre + body, [st])
        finally:
            self.depth -= 1
            self.locals, self.nested = saved_locals, saved_nested
            self.strbufs = saved_bufs
        live, rest = [], []
        for o in outs:
            if o.status in ("run", "genreturn"):
                o.status = "run"
                live.append(o)
            else:
                rest.append(o)
        if node.orelse:
            live = self.block(node.orelse, live)
        return live + rest

    def helper_forks(self, node, st):
        """states in which every call of a followed helper inside the expression(s) has been evaluated (one state per path of the helper)"""
        if self.follow is None and not self.nested:
            return [st]
        nodes = node if isinstance(node, list) else [node]
        calls = []

        def post(n):
            if isinstance(n, (ast.Lambda, ast.ListComp, ast.GeneratorExp, ast.SetComp, ast.DictComp, ast.IfExp, ast.BoolOp)):
                return            # evaluated conditionally / repeatedly: not ahead of time
            for c in ast.iter_child_nodes(n):
                post(c)
            if isinstance(n, ast.Call):
                calls.append(n)
        for root in nodes:
            if isinstance(root, ast.AST):
                post(root)
        states = [st]
        for c in calls:
            nxt = []
            for s in states:
                if s.status != "run" or id(c) in s.pre:
                    nxt.append(s)
                    continue
                fnode = self.inlinable(c, s)
                if fnode is None:
                    nxt.append(s)
                    continue
                for s3, v in self.inline(c, fnode, s):
                    s3.pre = dict(s.pre)
                    s3.pre[id(c)] = v
                    nxt.append(s3)
            states = nxt
            if len(states) > self.max_states:
                raise Unsupported(f"more than {self.max_states} paths")
        return states

    def simple_forks(self, node, st):
        """states in which every conditional expression of the statement is decided"""
        nodes = node if isinstance(node, list) else [node]
        # conditional expressions, and their older spelling  (b, a)[test]
        ifexps = [n.test for root in nodes for n in ast.walk(root) if isinstance(n, ast.IfExp)]
        ifexps += [n.slice for root in nodes for n in ast.walk(root) if isinstance(n, ast.Subscript) and _is_test_node(n.slice)
                   and isinstance(n.value, (ast.Tuple, ast.List)) and len(n.value.elts) == 2]
        states = [st]

        def fork_on(tests, states):
            for ie_test in tests:
                nxt = []
                for s in states:
                    try:
                        t = self.ev(ie_test, s)
                    except Unsupported:
                        nxt.append(s)
                        continue
                    r = self.decide(t, s)
                    if r is not None:
                        nxt.append(s)
                        continue
                    self._forkable(t)
                    a, b = s, s.fork()
                    a.add_fact(t, True)
                    b.add_fact(t, False)
                    nxt.extend((a, b))
                states = nxt
            return states
        # True / False used as numbers:  n * (a == b),  1 + 2 * flag + (x > y),  "*" * wide
        flags, tests = [], []
        for root in nodes:
            for n in (ast.walk(root) if isinstance(root, ast.AST) else ()):
                if isinstance(n, ast.BinOp) and isinstance(n.op, (ast.Add, ast.Sub, ast.Mult)):
                    for o in (n.left, n.right):
                        if _is_test_node(o):
                            tests.append(o)
                        elif isinstance(o, ast.Name) and self._is_bool(st.env.get(o.id)) and not _is_k(st.env.get(o.id)):
                            flags.append(_Val.of(st.env[o.id]))
                        elif isinstance(o, ast.Call) and ((dotted(o.func) or "") in self.BOOL_CALLS
                                                          or (isinstance(o.func, ast.Attribute) and "." + o.func.attr in self.BOOL_CALLS)):
                            flags.append(o)             # a predicate called in place: 2 * np.iscomplexobj(m)
        # flags held by variables first, then the tests written in place, innermost first: a test is read in each state, after what it depends on
        # has been decided there
        states = fork_on(flags + ifexps + tests[::-1], states)
        # lookups in a literal table keyed by conditions, TABLE[wide, extra]: the conditions are read in each state (a conditional expression inside
        # the key is decided by then)
        # ... and pairs indexed by a truth value that is not spelled as a test: PAIR[flag], TABLE[is_complex][is_double]  (inner lookups first)
        tables = [n for root in nodes for n in (ast.walk(root) if isinstance(root, ast.AST) else ())
                  if isinstance(n, ast.Subscript) and not isinstance(n.slice, ast.Slice) and not any(isinstance(x, (ast.Call, ast.NamedExpr, ast.Lambda)) for x in ast.walk(n.value))]
        for n in reversed(tables):
            nxt = []
            for s in states:
                try:
                    b = self.ev(n.value, s)
                except Unsupported:
                    b = None
                if isinstance(b, tuple) and b[:1] == ("dict",):
                    nxt.extend(fork_on([_Val.of(c) for c in self._key_tests(n.slice, s, self._bool_positions(b))], [s]))
                elif isinstance(b, tuple) and b[:1] == ("tuple",) and len(b[1]) == 2:
                    try:
                        iv = self.index(n.slice, s)
                    except Unsupported:
                        iv = None
                    nxt.extend(fork_on([_Val.of(iv)], [s]) if _truthlike(iv) else [s])
                else:
                    nxt.append(s)
            states = nxt
        # a literal table with integer keys read with a key that is not known: one state per key (the lookup raises KeyError for any other value;
        # TABLE.get(key) goes on with the default)
        gets = [x for root in nodes for x in (ast.walk(root) if isinstance(root, ast.AST) else ())
                if isinstance(x, ast.Call) and isinstance(x.func, ast.Attribute) and x.func.attr == "get" and 1 <= len(x.args) <= 2 and not x.keywords
                and not any(isinstance(y, (ast.Call, ast.NamedExpr, ast.Lambda)) for y in ast.walk(x.func.value))]
        for n in reversed([x for x in tables if isinstance(x.ctx, ast.Load) and not isinstance(x.slice, (ast.Tuple, ast.Slice))] + gets):
            nxt = []
            is_get = isinstance(n, ast.Call)
            for s in states:
                try:
                    b = self.ev(n.func.value if is_get else n.value, s)
                    key = self.ev(n.args[0] if is_get else n.slice, s) if isinstance(b, tuple) and b[:1] == ("dict",) else None
                except Unsupported:
                    b = key = None
                if not (isinstance(b, tuple) and b[:1] == ("dict",) and b[1] and isinstance(key, Lin) and not key.is_const() and all(is_int_const(k) for k, _ in b[1])
                        and len(b[1]) <= 8) or (not is_get and self._in_lookup_try(n)):
                    nxt.append(s)
                    continue
                miss = s
                for k, _ in b[1]:
                    t = ("cmp", "Eq") + tuple(sorted((k, key), key=repr))
                    r = self.decide(t, miss)
                    if r is True:
                        nxt.append(miss)
                        miss = None
                        break
                    if r is None:
                        h_ = miss.fork()
                        h_.add_fact(t, True)
                        miss.add_fact(t, False)
                        nxt.append(h_)
                if miss is not None:
                    if not is_get:
                        self.emit(miss, "raise", n)
                        miss.status = "raise"
                    nxt.append(miss)
            states = nxt
        return states

    def _in_lookup_try(self, n):
        """the lookup is the statement of a `try` whose handler catches the KeyError (handled by _lookup_try)"""
        p = getattr(n, "_vparent", None)
        while p is not None and not isinstance(p, ast.stmt):
            p = getattr(p, "_vparent", None)
        t = getattr(p, "_vparent", None) if p is not None else None
        return isinstance(t, ast.Try) and p in t.body and len(t.body) == 1

    def _key_tests(self, sl, st, boolpos=None):
        """the truth values among the components of a lookup key (any non-constant component where the table's keys are True / False)"""
        try:
            v = self.index(sl, st)
        except Unsupported:
            return []
        if isinstance(v, tuple) and v[:1] == ("tuple",):
            comps = [(c, isinstance(boolpos, dict) and boolpos.get(i)) for i, c in enumerate(v[1])]
        else:
            comps = [(v, boolpos is True)]
        return [c for c, isb in comps if isinstance(c, tuple) and (c[:1] in (("cmp",), ("not",), ("bool",), ("in",)) or (isb and not _is_k(c) and not isinstance(c, (Lin, S))))]

    def simple(self, node, st):
        if isinstance(node, ast.Assign):
            v = self.ev(node.value, st)
            for t in node.targets:
                self.assign(t, v, st, node)
        elif isinstance(node, ast.AnnAssign):
            if node.value is not None:
                self.assign(node.target, self.ev(node.value, st), st, node)
        elif isinstance(node, ast.AugAssign):
            load = _as_load(node.target)
            cur, inc = self.ev(load, st), self.ev(node.value, st)
            if isinstance(node.op, ast.Add) and isinstance(inc, tuple) and inc[:1] == ("tuple",) and not isinstance(cur, (Lin, S)):
                # list += [...]  is  list.extend([...])
                self.emit(st, "call", node, name=None, recv=cur, attr="extend", args=[inc], kws={}, value=("k", None))
                if isinstance(cur, tuple) and cur[:1] == ("tuple",):
                    self.assign(node.target, ("tuple", cur[1] + inc[1]), st, node)
                return
            v = self.binop(node.op, cur, inc, st, node)
            self.assign(node.target, v, st, node)
        elif isinstance(node, ast.Expr):
            self.ev(node.value, st)
        elif isinstance(node, ast.Return):
            v = self.ev(node.value, st) if node.value is not None else ("k", None)
            self.emit(st, "return", node, value=v)
            st.status = "return"
        elif isinstance(node, ast.Raise):
            self.emit(st, "raise", node)
            st.status = "raise"
        elif isinstance(node, ast.Assert):
            t = self.ev(node.test, st)
            st.add_fact(t, True)
        elif isinstance(node, ast.Delete):
            pass
        else:
            raise Unsupported(f"statement {type(node).__name__}")

    def assign(self, target, v, st, node):
        if isinstance(target, ast.Name):
            st.env[target.id] = v
            self.emit(st, "assign", node, name=target.id, value=v)
            if isinstance(v, tuple) and v[:1] == ("obj",) and isinstance(node, ast.Assign) and isinstance(node.value, ast.Call) and v[1] in self.classes:
                for k_, v_ in v[2]:
                    self.emit(st, "assign", node, name=f"{target.id}.{k_}", value=v_)          # the fields the constructor gave the record
        elif isinstance(target, (ast.Tuple, ast.List)):
            n = len(target.elts)
            if isinstance(v, tuple) and v[:1] == ("obj",):
                v = ("tuple", tuple(x for _, x in v[2]))          # a, b = namedtuple
            stars = [i for i, t in enumerate(target.elts) if isinstance(t, ast.Starred)]
            if isinstance(v, tuple) and v and v[0] == "tuple" and len(stars) == 1 and len(v[1]) >= n - 1 \
                    and not any(isinstance(x, tuple) and x[:1] == ("star",) for x in v[1]):
                i, m_ = stars[0], len(v[1]) - (n - 1)          # a, b, *rest = (x, y, z, w)
                for t, x in zip(target.elts[:i], v[1][:i]):
                    self.assign(t, x, st, node)
                self.assign(target.elts[i].value, ("tuple", tuple(v[1][i:i + m_])), st, node)
                for t, x in zip(target.elts[i + 1:], v[1][i + m_:]):
                    self.assign(t, x, st, node)
            elif isinstance(v, tuple) and v and v[0] == "tuple" and len(v[1]) == n:
                for t, x in zip(target.elts, v[1]):
                    self.assign(t, x, st, node)
            else:
                for i, t in enumerate(target.elts):
                    if isinstance(t, ast.Starred):
                        self.assign(t.value, ("op", "rest", (v, Lin(c=i))), st, node)
                    else:
                        self.assign(t, self._elem(v, Lin(c=i)), st, node)
        elif isinstance(target, ast.Subscript):
            base = self.ev(target.value, st)
            idx = self.index(target.slice, st)
            mname = self._memo_name(target.value)
            if mname is not None:
                self._memo_store(mname, idx, v, st, node)
            self.emit(st, "store", node, base=base, index=idx, value=v, name=dotted(target.value))
        elif isinstance(target, ast.Attribute):
            d = dotted(target)
            if d:
                self._store_path(st.env, d, v)          # a field of a record of a module class, or a plain dotted entry
            self.emit(st, "assign", node, name=d, value=v)
        elif isinstance(target, ast.Starred):
            self.assign(target.value, v, st, node)

    # ------------------------------------------------------------------------------------------------------------ control flow
    def decide(self, t, st):
        r = truth(t, {})
        if r is not None:
            return r
        for _, lg in getattr(self, "_memo_logs", ()):
            if t not in lg:
                lg.append(t)
        if isinstance(t, tuple) and t and t[0] == "not":
            r = self.decide(t[1], st)
            if r is not None:
                return not r
        if isinstance(t, tuple) and t and t[0] == "in" and isinstance(t[1], Lin) and t[2] and all(isinstance(x, Lin) for x in t[2]):
            rs = [self.decide(("cmp", "Eq") + tuple(sorted((t[1], x), key=repr)), st) for x in t[2]]
            if any(r is True for r in rs):
                return not t[3]
            if all(r is False for r in rs):
                return bool(t[3])
        if isinstance(t, tuple) and t and t[0] == "bool":
            rs = [self.decide(x, st) for x in t[2]]
            if t[1] == "and":
                if any(r is False for r in rs):
                    return False
                if all(r is True for r in rs):
                    return True
            else:
                if any(r is True for r in rs):
                    return True
                if all(r is False for r in rs):
                    return False
        for ft, pol in st.facts:
            if ft == t:
                return pol
            if isinstance(t, tuple) and t and t[0] == "not" and ft == t[1]:
                return not pol
            if isinstance(ft, tuple) and ft and ft[0] == "not" and ft[1] == t:
                return not pol
        if isinstance(t, tuple) and t and t[0] == "cmp" and isinstance(t[2], Lin) and isinstance(t[3], Lin) and t[1] in ("Eq", "NotEq", "Gt", "GtE", "Lt", "LtE"):
            # decided by what the facts prove about the difference
            lo, hi = bounds(t[2] - t[3], st.facts)
            op = t[1]
            if lo is not None and hi is not None and lo == hi:
                return cmp_const(op, lo, 0)
            if lo is not None and lo > 0:
                return {"Eq": False, "NotEq": True, "Gt": True, "GtE": True, "Lt": False, "LtE": False}[op]
            if hi is not None and hi < 0:
                return {"Eq": False, "NotEq": True, "Gt": False, "GtE": False, "Lt": True, "LtE": True}[op]
            if lo is not None and lo == 0 and op in ("GtE", "Lt"):
                return op == "GtE"
            if hi is not None and hi == 0 and op in ("LtE", "Gt"):
                return op == "LtE"
        return None

    def if_(self, node, st):
        outs = []
        starts = []
        for s in self.simple_forks(node.test, st):
            for s3 in self.helper_forks(node.test, s):
                if s3.status != "run":
                    outs.append(s3)
                else:
                    starts.append((s3, None))
        for s, t in starts:
            if t is None:
                t = self.ev(node.test, s)
            s.pre = {}
            self.emit(s, "test", node, test=t)
            r = self.decide(t, s)
            if r is True:
                outs.extend(self.block(node.body, [s]))
            elif r is False:
                outs.extend(self.block(node.orelse, [s]))
            else:
                self._forkable(t)
                a, b = s, s.fork()
                a.add_fact(t, True)
                b.add_fact(t, False)
                # an arm whose tests contradict each other about some integer (form == 9 ... form in (6,)) is not followed
                fa, fb = self.feasible(a, t), self.feasible(b, t)
                if fa or not fb:
                    outs.extend(self.block(node.body, [a]))
                if fb or not fa:
                    outs.extend(self.block(node.orelse, [b]))
        return outs

    def _forkable(self, t):
        """a test that cannot be decided is followed both ways as if it were independent of everything else.  That is wrong for a test on something
        computed from an object this engine built itself (an attribute / method of an object of a module class that was not followed): its outcome is
        tied to the fields of the object, and following the impossible arm would `prove` things about code that is never run."""
        def has_obj(v, depth=0):
            if depth > 30:
                return False
            if isinstance(v, Lin):
                return any(has_obj(a, depth + 1) for a in v.t)
            if isinstance(v, tuple) and v:
                if v[0] == "obj" and len(v) == 3 and v[1] in self.classes:
                    return True
                return any(has_obj(x, depth + 1) for x in v if isinstance(x, (tuple, Lin)))
            return False
        if has_obj(t):
            raise Unsupported(f"a test on something computed from an object of a class of the module by code that is not followed: {show(t)[:100]}")

    def feasible(self, st, t):
        try:
            for at in free_symbols(t)[:4]:
                ok, cand = possible_values(at, st.facts)
                if not ok:
                    return False
        except Exception:  # noqa
            return True
        return True

    def _assigned(self, body):
        names = set()
        incs = {}
        direct = set()
        objmut = {}
        mm = self._mutating_methods() if self.classes else {}
        for root in body:
            for n in ast.walk(root):
                if isinstance(n, (ast.FunctionDef, ast.AsyncFunctionDef, ast.Lambda)):
                    continue
                if isinstance(n, ast.Name) and isinstance(n.ctx, ast.Store):
                    direct.add(n.id)
                # records of module classes changed in place: x.method() of a method that rebinds fields, x.field = ..., x.field.append(...)
                if isinstance(n, ast.Call) and isinstance(n.func, ast.Attribute) and isinstance(n.func.value, ast.Name) and n.func.attr in mm:
                    objmut.setdefault(n.func.value.id, set()).update(mm[n.func.attr])
                if isinstance(n, ast.Attribute) and isinstance(n.ctx, (ast.Store, ast.Del)) and isinstance(n.value, ast.Name):
                    objmut.setdefault(n.value.id, set()).add(n.attr)
                if isinstance(n, ast.Call) and isinstance(n.func, ast.Attribute) and isinstance(n.func.value, ast.Attribute) and isinstance(n.func.value.value, ast.Name) \
                        and n.func.attr in ("append", "extend", "insert", "pop", "clear", "remove", "sort", "add", "update"):
                    objmut.setdefault(n.func.value.value.id, set()).add(n.func.value.attr)
                if isinstance(n, ast.Name) and isinstance(n.ctx, ast.Store):
                    names.add(n.id)
                if isinstance(n, ast.Call) and isinstance(n.func, ast.Name) and n.func.id in self.nested:
                    names |= self._nonlocals_of(self.nested[n.func.id])        # a nested function rebinds what it declares `nonlocal`
                if isinstance(n, ast.Call) and isinstance(n.func, ast.Attribute) and isinstance(n.func.value, ast.Name) and n.func.attr == "write" \
                        and n.func.value.id in self.strbufs:
                    names.add(n.func.value.id)              # text accumulated in an io.StringIO: the buffer is the string so far
                if isinstance(n, ast.Call) and (dotted(n.func) or "") == "print":
                    for k in n.keywords:
                        if k.arg == "file" and isinstance(k.value, ast.Name) and k.value.id in self.strbufs:
                            names.add(k.value.id)
                if isinstance(n, ast.Call) and isinstance(n.func, ast.Attribute) and isinstance(n.func.value, ast.Name) and \
                        n.func.attr in ("append", "extend", "insert", "pop", "add", "update", "sort", "clear", "remove", "popleft", "appendleft", "extendleft",
                                        "discard", "popitem", "setdefault", "reverse", "rotate"):
                    names.add(n.func.value.id)
                if isinstance(n, (ast.Assign, ast.AugAssign)) and isinstance(n.targets[0] if isinstance(n, ast.Assign) else n.target, ast.Subscript):
                    t = n.targets[0] if isinstance(n, ast.Assign) else n.target
                    b = t.value
                    while isinstance(b, (ast.Subscript, ast.Attribute)):
                        b = b.value
                    if isinstance(b, ast.Name):
                        pass        # element stores do not rebind the name
        # monotone counters: every store to the name inside the loop is `v += c` / `v = v + c` with a constant c of one sign
        info = {nm: [set(), set(), True] for nm in names}          # signs, magnitudes, still a counter
        for root in body:
            for n in ast.walk(root):
                if isinstance(n, ast.AugAssign) and isinstance(n.target, ast.Name) and n.target.id in info:
                    rec = info[n.target.id]
                    if isinstance(n.op, (ast.Add, ast.Sub)) and isinstance(n.value, ast.Constant) and isinstance(n.value.value, int) and n.value.value != 0:
                        rec[0].add((n.value.value > 0) == isinstance(n.op, ast.Add))
                        rec[1].add(abs(n.value.value))
                    else:
                        rec[2] = False
                elif isinstance(n, ast.Assign):
                    stored = {x.id for t in n.targets for x in ast.walk(t) if isinstance(x, ast.Name)}
                    for nm in stored & set(info):
                        rec = info[nm]
                        v = n.value
                        if len(n.targets) == 1 and isinstance(n.targets[0], ast.Name) and isinstance(v, ast.BinOp) and isinstance(v.op, (ast.Add, ast.Sub)) \
                                and isinstance(v.left, ast.Name) and v.left.id == nm and isinstance(v.right, ast.Constant) and isinstance(v.right.value, int) \
                                and v.right.value != 0:
                            rec[0].add((v.right.value > 0) == isinstance(v.op, ast.Add))
                            rec[1].add(abs(v.right.value))
                        else:
                            rec[2] = False
                elif isinstance(n, (ast.For, ast.AsyncFor)):
                    for x in ast.walk(n.target):
                        if isinstance(x, ast.Name) and x.id in info:
                            info[x.id][2] = False
                elif isinstance(n, (ast.With, ast.AsyncWith)):
                    for it in n.items:
                        if it.optional_vars is not None:
                            for x in ast.walk(it.optional_vars):
                                if isinstance(x, ast.Name) and x.id in info:
                                    info[x.id][2] = False
        for nm, (signs, mags, ok) in info.items():
            if ok and len(signs) == 1:
                # the sign says which way the counter moves; the magnitude is the step when every update uses the same one (else 1)
                incs[nm] = (+1 if True in signs else -1) * (next(iter(mags)) if len(mags) == 1 else 1)
        self._objmut = {nm: at for nm, at in objmut.items() if nm not in direct}
        names |= set(self._objmut)
        return names, incs

    @staticmethod
    def _obj_with(obj, attr, val):
        """the record with one field replaced (or added)"""
        fields = [(k_, (val if k_ == attr else v_)) for k_, v_ in obj[2]]
        if not any(k_ == attr for k_, _ in obj[2]):
            fields.append((attr, val))
        return ("obj", obj[1], tuple(fields))

    def _store_path(self, env, path, val):
        """bind the dotted path `x.a.b` to a value: the name itself, the plain dotted entry (attributes of things that are not records are kept that
        way), or the field of the record the prefix holds - the record being a value, its holder is rebound to the changed record"""
        parts = path.split(".")
        if len(parts) == 1:
            env[path] = val
            return True
        head = ".".join(parts[:-1])
        holder = env.get(head)
        if holder is None and len(parts) > 2:
            holder = self._load_path(env, head)
        if isinstance(holder, tuple) and holder[:1] == ("obj",):
            return self._store_path(env, head, self._obj_with(holder, parts[-1], val))
        env[path] = val
        return True

    def _load_path(self, env, path):
        parts = path.split(".")
        cur = env.get(parts[0])
        for i, a_ in enumerate(parts[1:], 1):
            d = ".".join(parts[:i + 1])
            if d in env:
                cur = env[d]
                continue
            if isinstance(cur, tuple) and cur[:1] == ("obj",):
                cur = next((v_ for k_, v_ in cur[2] if k_ == a_), None)
            else:
                return None
        return cur

    def _mutated_attrs(self, q, meth, seen=None):
        """the attributes of self a method of class q (own or inherited) may rebind or change in place, those of the methods of self it calls included"""
        seen = seen if seen is not None else set()
        m_ = self._method(q, meth)
        if m_ is None or (q, meth) in seen:
            return set()
        seen.add((q, meth))
        f = m_[0]
        cached = getattr(f, "_c13_mut", None)
        if cached is not None:
            return cached
        a = f.args.posonlyargs + f.args.args
        if not a or m_[1] in ("static", "class"):
            return set()
        me = a[0].arg
        out = set()
        for n in walk_no_nested(f):
            if isinstance(n, ast.Attribute) and isinstance(n.value, ast.Name) and n.value.id == me:
                par = getattr(n, "_vparent", None)
                if isinstance(n.ctx, (ast.Store, ast.Del)):
                    out.add(n.attr)
                elif isinstance(par, ast.Attribute) and par.value is n and par.attr in ("append", "extend", "insert", "pop", "clear", "remove", "sort", "add", "update",
                                                                                       "appendleft", "popleft") \
                        and isinstance(getattr(par, "_vparent", None), ast.Call) and par._vparent.func is par:
                    out.add(n.attr)
                elif isinstance(par, ast.Subscript) and par.value is n and isinstance(par.ctx, (ast.Store, ast.Del)):
                    out.add(n.attr)
                elif isinstance(par, ast.Call) and par.func is n:
                    out |= self._mutated_attrs(q, n.attr, seen)
        f._c13_mut = out
        return out

    def _mutating_methods(self):
        """{method name: attributes it may change} over the classes of the module (a call `x.m()` in a loop body may change x)"""
        c = self.mod.__dict__.get("_c13_mutmeths")
        if c is None:
            c = {}
            for q in self.classes:
                for n in self.classes[q].body:
                    if isinstance(n, ast.FunctionDef) and n.name != "__init__":
                        at = self._mutated_attrs(q, n.name)
                        if at:
                            c.setdefault(n.name, set()).update(at)
            self.mod.__dict__["_c13_mutmeths"] = c
        return c

    def _nonlocals_of(self, fnode, seen=None):
        """what a call of the nested function may rebind in the enclosing function: its `nonlocal` names and those of the nested functions it calls"""
        seen = seen if seen is not None else set()
        if id(fnode) in seen:
            return set()
        seen.add(id(fnode))
        out = set(_nonlocals(fnode))
        for n in walk_no_nested(fnode):
            if isinstance(n, ast.Call) and isinstance(n.func, ast.Name) and n.func.id in self.nested and self.nested[n.func.id] is not fnode:
                out |= self._nonlocals_of(self.nested[n.func.id], seen)
        return out

    def _havoc(self, st, names, incs, tag):
        pre = {}
        om = getattr(self, "_objmut", {})
        for nm in sorted(names):
            old = st.env.get(nm)
            pre[nm] = old
            if nm in om and isinstance(old, tuple) and old[:1] == ("obj",):
                # a record changed in place inside the loop: only the fields that can change become unknown
                new = old
                for at in sorted(om[nm]):
                    new = self._obj_with(new, at, ("sym", f"{nm}.{at}@{tag}"))
                st.env[nm] = new
                continue
            if nm in om and not (isinstance(old, tuple) and old[:1] == ("obj",)) and old is None:
                continue                    # not a local of this frame (an attribute path handled elsewhere)
            new = ("sym", f"{nm}@{tag}")
            st.env[nm] = new
            if nm in incs and _intlike(old):
                old = pre[nm] = lin(old)              # a counter that starts from another integer variable (`end = start`) is a linear form too
                if incs[nm] > 0:
                    st.add_fact(("cmp", "GtE", lin(new), old), True)
                else:
                    st.add_fact(("cmp", "LtE", lin(new), old), True)
        return pre

    def _concrete_iter(self, it):
        """the values a concrete iterable produces (range with constant bounds, literal tuple / list), else None"""
        if isinstance(it, tuple) and it[:1] == ("range",) and all(is_int_const(x) for x in it[1:]) and ival(it[3]) != 0:
            return [Lin(c=x) for x in range(ival(it[1]), ival(it[2]), ival(it[3]))][:65]
        if isinstance(it, tuple) and it[:1] == ("tuple",) and not any(isinstance(x, tuple) and x[:1] == ("star",) for x in it[1]):
            return list(it[1])
        return None

    def _for_unrolled(self, node, st, vals):
        """a loop over a concrete iterable, pass by pass (no loop symbols: what the body does to a list or a counter is known exactly)"""
        live, done = [st], []
        for v in vals:
            nxt = []
            for s in live:
                self.assign(node.target, v, s, node)
                for o in self.block(node.body, [s]):
                    if o.status in ("run", "continue"):
                        o.status = "run"
                        nxt.append(o)
                    elif o.status == "break":
                        o.status = "run"
                        done.append(o)          # `else` of the loop is skipped
                    else:
                        done.append(o)
            live = nxt
            if len(live) + len(done) > self.max_states:
                raise Unsupported(f"more than {self.max_states} paths")
        if node.orelse:
            live = self.block(node.orelse, live)
        return live + done

    def for_(self, node, st):
        outs = []
        gen = self._generator_of(node.iter, st) if isinstance(node.iter, ast.Call) else None
        if gen is not None:
            r = self._for_generator(node, gen, st)
            if r is not None:
                return r
        for s in self.simple_forks(node.iter, st):
            it = self.ev(node.iter, s)
            vals = self._concrete_iter(it)
            if vals is not None and len(vals) <= 12 and (len(vals) <= 2 or not any(
                    isinstance(n, (ast.If, ast.While, ast.For, ast.Try, ast.IfExp, ast.With, ast.Break, ast.Continue)) for b in node.body for n in ast.walk(b))):
                outs.extend(self._for_unrolled(node, s, vals))
                continue
            self.loopseq += 1
            lid = self.loopseq
            names, incs = self._assigned(node.body + node.orelse)
            tnames = {x.id for x in ast.walk(node.target) if isinstance(x, ast.Name)}
            pre = self._havoc(s, names - tnames, incs, f"L{lid}")
            post = s.fork()
            body = s
            body.loops = body.loops + (lid,)
            k = ("sym", f"<k>@L{lid}")
            tv = self._iter_elem(it, k, body, lid)
            self.assign(node.target, tv, body, node)
            tvals = {x: body.env.get(x) for x in tnames}
            tpre = {x: post.env.get(x) for x in tnames}            # what the loop variable holds if the loop does not run
            self.emit(body, "for", node, iter=it, target=tv, targets=tvals, loop=lid, index=k, pre=pre)
            ends = self.block(node.body, [body])
            n_ev = len(post.events)
            merged = list(post.events)
            seen = {e.seq for e in merged}
            for e_state in ends:
                if e_state.status in ("run", "continue"):
                    self.emit(e_state, "loopend", node, loop=lid, env={nm: e_state.env.get(nm) for nm in names})
                for e in e_state.events:
                    if e.seq not in seen:
                        seen.add(e.seq)
                        merged.append(e)
            merged.sort(key=lambda e: e.seq)
            # paths that return / raise inside the body end there; a `return` leaves the loop like a `break` does (the pass it is in stands for any
            # pass: the passes before it are those of the other arms)
            for e_state in ends:
                if e_state.status in ("return", "raise", "genreturn"):
                    e_state.loops = post.loops
                    if e_state.status == "return":
                        self._loop_left_by_return(e_state, merged, node, lid, names)
                    outs.append(e_state)
            for e_state in ends:
                if e_state.status == "break":
                    e_state.status = "run"
                    e_state.loops = post.loops
                    have = {e.seq for e in e_state.events}
                    e_state.events = sorted(e_state.events + [e for e in merged if e.seq not in have], key=lambda e: e.seq)
                    self.emit(e_state, "loopexit", node, loop=lid, env={nm: e_state.env.get(nm) for nm in names}, by="break")
                    outs.append(e_state)
            post.events = merged
            self._havoc(post, names | tnames, incs, f"L{lid}'")
            self._built_lists(post, ends, names, pre, lid, it)
            # a string built up by `s += piece` in every pass is the string before the loop followed by the pieces
            normal = [e_state for e_state in ends if e_state.status in ("run", "continue")]
            if len(normal) == 1 and len(ends) == 1:
                for nm in names:
                    before, after = pre.get(nm), normal[0].env.get(nm)
                    if isinstance(before, S) and isinstance(after, S) and after.p and after.p[0] == ("str", ("sym", f"{nm}@L{lid}")):
                        post.env[nm] = before + S((("join", "", ("comp", S(after.p[1:]), it, tv, lid)),))
            for nm in names:
                # the counter facts relate the value after the loop to the value before it
                if nm in incs and isinstance(pre.get(nm), Lin):
                    op = "GtE" if incs[nm] > 0 else "LtE"
                    post.add_fact(("cmp", op, lin(post.env[nm]), pre[nm]), True)
            posts = [post]
            # `for i in range(lo, hi, k)`: after the loop i is the last value of the range - lo + k * floor((hi - 1 - lo) / k) - or what it was before
            # when the range is empty.  Code that goes on from the loop variable (a remainder written after the full lines) needs that value.
            if isinstance(it, tuple) and it[:1] == ("range",) and is_int_const(it[3]) and ival(it[3]) > 0 and isinstance(node.target, ast.Name) \
                    and not any(e_state.status == "break" for e_state in ends) and self._used_outside(node, node.target.id):
                tn = node.target.id
                lo_, hi_, k_ = lin(it[1]), lin(it[2]), ival(it[3])
                ran_t = ("not", ("cmp", "GtE", lo_, hi_))
                rr = self.decide(ran_t, post)
                last = lo_ + floordiv(hi_ - 1 - lo_, k_).scale(k_)
                ran_s, not_s = (post if rr is not False else None), (post.fork() if rr is None else (post if rr is False else None))
                posts = []
                if ran_s is not None:
                    if rr is None:
                        ran_s.add_fact(ran_t, True)
                    ran_s.env[tn] = last
                    self.emit(ran_s, "loopexit", node, loop=lid, env={nm: ran_s.env.get(nm) for nm in names}, ran=True, last=last)
                    posts.append(ran_s)
                if not_s is not None:
                    if rr is None:
                        not_s.add_fact(ran_t, False)
                    if tpre.get(tn) is not None:
                        not_s.env[tn] = tpre[tn]
                    self.emit(not_s, "loopexit", node, loop=lid, env={nm: not_s.env.get(nm) for nm in names}, ran=False, last=None)
                    posts.append(not_s)
            if node.orelse:
                outs.extend(self.block(node.orelse, posts))
            else:
                outs.extend(posts)
        return outs

    def _loop_left_by_return(self, e_state, merged, node, lid, names):
        """a path that returns from inside a loop: like one that leaves by `break` it carries the events of the other arms (the passes before the last
        one) and a `loopexit` event placed before the `return` event"""
        rets = [e for e in e_state.events if e.kind == "return"]
        if not rets or lid not in rets[-1].loops:
            return                       # the return belongs to a function that was inlined and has already been consumed
        ret = rets[-1]
        have = {e.seq for e in e_state.events}
        evs = [e for e in e_state.events if e is not ret] + [e for e in merged if e.seq not in have]
        e_state.events = sorted(evs, key=lambda e: e.seq)
        st_loops = e_state.loops
        self.emit(e_state, "loopexit", node, loop=lid, env={nm: e_state.env.get(nm) for nm in names}, by="break", returned=True)
        self.seq += 1
        e_state.events.append(Event("return", ret.node, ret.d, ret.facts, st_loops, self.seq))

    def _used_outside(self, loop, name):
        """the name is read somewhere in the enclosing function outside the loop (so the value the loop leaves in it may matter)"""
        fn = getattr(loop, "_vparent", None)
        while fn is not None and not isinstance(fn, (ast.FunctionDef, ast.AsyncFunctionDef)):
            fn = getattr(fn, "_vparent", None)
        if fn is None:
            return False
        inside = {id(n) for n in ast.walk(loop)}
        return any(isinstance(n, ast.Name) and n.id == name and isinstance(n.ctx, ast.Load) and id(n) not in inside for n in ast.walk(fn))

    def _iter_elem(self, it, k, st, lid):
        """value(s) bound to the loop target for iteration index k"""
        if isinstance(it, tuple) and it and it[0] == "range":
            lo, hi, step = it[1], it[2], it[3]
            v = ("sym", f"<i>@L{lid}")
            if is_int_const(step) and ival(step) > 0:
                st.add_fact(("cmp", "GtE", lin(v), lo), True)
                st.add_fact(("cmp", "Lt", lin(v), hi), True)
                if ival(step) > 1 and _divisible(lin(hi) - lin(lo), ival(step)):
                    st.add_fact(("cmp", "GtE", lin(hi) - ival(step), lin(v)), True)      # the values are lo + k * step < hi, and step divides hi - lo
            return lin(v)
        if isinstance(it, tuple) and it and it[0] == "op" and it[1] == "zip":
            return ("tuple", tuple(self._iter_elem(a, k, st, lid) for a in it[2]))
        if isinstance(it, tuple) and it and it[0] == "op" and it[1] == "enumerate" and it[2]:
            start = it[2][1] if len(it[2]) > 1 else (dict(it[3]).get("start", Lin()) if len(it) > 3 else Lin())
            st.add_fact(("cmp", "GtE", lin(k), Lin()), True)
            st.add_fact(("not", ("cmp", "GtE", lin(k), self.length(it[2][0], st))), True)
            return ("tuple", (lin(k) + lin(start), self._iter_elem(it[2][0], k, st, lid)))
        if isinstance(it, tuple) and it and it[0] == "op" and it[1] == ".items" and len(it[2]) == 1:
            key = ("elem", ("op", ".keys", it[2]), lin(k))
            return ("tuple", (key, ("elem", it[2][0], key)))
        if isinstance(it, tuple) and it and it[0] == "op" and it[1] == ".values" and len(it[2]) == 1:
            return ("elem", it[2][0], ("elem", ("op", ".keys", it[2]), lin(k)))
        if isinstance(it, tuple) and it and it[0] == "op" and it[1] == ".keys" and len(it[2]) == 1:
            return ("elem", it, lin(k))
        if isinstance(it, tuple) and it[:1] in (("slice",), ("comp",), ("built",)):
            return self._elem(it, lin(k))          # the k-th element of x[a::s] is x[a + s * k]; of a comprehension: its element expression
        return ("elem", it, lin(k))

    def while_(self, node, st):
        outs = []
        self.loopseq += 1
        lid = self.loopseq
        test_node, body_nodes = node.test, list(node.body)
        if not node.orelse:
            # `while A: if C: break; REST`  is  `while A and not C: REST`
            while len(body_nodes) > 1 and isinstance(body_nodes[0], ast.If) and not body_nodes[0].orelse and len(body_nodes[0].body) == 1 \
                    and isinstance(body_nodes[0].body[0], ast.Break):
                c = body_nodes[0].test
                negc = c.operand if isinstance(c, ast.UnaryOp) and isinstance(c.op, ast.Not) else ast.copy_location(ast.UnaryOp(op=ast.Not(), operand=c), c)
                if isinstance(test_node, ast.Constant) and test_node.value is True:
                    test_node = negc
                elif isinstance(test_node, ast.BoolOp) and isinstance(test_node.op, ast.And):
                    test_node = ast.copy_location(ast.BoolOp(op=ast.And(), values=list(test_node.values) + [negc]), test_node)
                else:
                    test_node = ast.copy_location(ast.BoolOp(op=ast.And(), values=[test_node, negc]), test_node)
                body_nodes = body_nodes[1:]
        names, incs = self._assigned(body_nodes + node.orelse)
        s = st
        pre = self._havoc(s, names, incs, f"L{lid}")
        for s1 in self.simple_forks(test_node, s):
            t = self.ev(test_node, s1)
            post = s1.fork()
            body = s1
            body.loops = body.loops + (lid,)
            r = self.decide(t, body)
            ends = []
            wev = None
            if r is not False:
                body.add_fact(t, True)
                # a counter that moves in steps of k from lo and is tested against hi with k | hi - lo is at most hi - k inside the loop
                for nm, c in incs.items():
                    if c > 1 and _intlike(pre.get(nm)):
                        symv = lin(("sym", f"{nm}@L{lid}"))
                        hi = None
                        for tt in (t[2] if isinstance(t, tuple) and t[:2] == ("bool", "and") else (t,)):
                            if isinstance(tt, tuple) and tt[:1] == ("not",) and isinstance(tt[1], tuple) and tt[1][:2] == ("cmp", "GtE") and tt[1][2] == symv:
                                hi = tt[1][3]
                            elif isinstance(tt, tuple) and tt[:2] == ("cmp", "GtE") and tt[3] == symv and isinstance(tt[2], Lin):
                                hi = tt[2] + 1
                        if isinstance(hi, Lin) and _divisible(hi - lin(pre[nm]), c):
                            body.add_fact(("cmp", "GtE", hi - c, symv), True)
                wev = self.emit(body, "while", node, test=t, loop=lid, pre=pre, env={nm: body.env.get(nm) for nm in names}, iter=None, target=None)
                ends = self.block(body_nodes, [body])
                self._counted(wev, t, ends, names, pre, lid)
            merged = list(post.events)
            seen = {e.seq for e in merged}
            for e_state in ends:
                if e_state.status in ("run", "continue"):
                    self.emit(e_state, "loopend", node, loop=lid, env={nm: e_state.env.get(nm) for nm in names})
                for e in e_state.events:
                    if e.seq not in seen:
                        seen.add(e.seq)
                        merged.append(e)
            merged.sort(key=lambda e: e.seq)
            for e_state in ends:
                if e_state.status in ("return", "raise", "genreturn"):
                    e_state.loops = post.loops
                    if e_state.status == "return":
                        self._loop_left_by_return(e_state, merged, node, lid, names)
                    outs.append(e_state)
            # a path that leaves by `break` goes on with what it knows at the break (the pass it is in stands for any pass)
            for e_state in ends:
                if e_state.status == "break":
                    e_state.status = "run"
                    e_state.loops = post.loops
                    have = {e.seq for e in e_state.events}
                    e_state.events = sorted(e_state.events + [e for e in merged if e.seq not in have], key=lambda e: e.seq)
                    self.emit(e_state, "loopexit", node, loop=lid, env={nm: e_state.env.get(nm) for nm in names}, by="break")
                    outs.append(e_state)          # `else` of a loop is skipped after a break
            post.events = merged
            if r is True and truth(t, {}) is True:
                continue                           # `while True:` is left only through break / return
            self._havoc(post, names, incs, f"L{lid}'")
            self._built_lists(post, ends, names, pre, lid)
            for nm in names:
                if nm in incs and isinstance(pre.get(nm), Lin):
                    op = "GtE" if incs[nm] > 0 else "LtE"
                    post.add_fact(("cmp", op, lin(post.env[nm]), pre[nm]), True)
            try:
                t2 = self.ev(test_node, post)
                post.add_fact(t2, False)
            except Unsupported:
                pass
            # a counted loop (`c = lo; while c < hi: ...; c += k`, no other way out) whose range is a whole number of steps ends with c == hi
            if wev is not None and wev.d.get("counter") and isinstance(wev.d.get("iter"), tuple):
                _, lo_, hi_, step_ = wev.d["iter"]
                if (ival(step_) == 1 or _divisible(lin(hi_) - lin(lo_), ival(step_))) and proves_ge0(lin(hi_) - lin(lo_), post.facts):
                    post.env[wev.d["counter"]] = lin(hi_)
            # ... and one that counts down in steps of k while c >= b, from c0 >= b - k, ends with c0 - k * floor((c0 - b + k) / k)  (c0 mod k for b = k)
            if wev is not None and wev.d.get("down"):
                nm_, c0, b_, k_ = wev.d["down"]
                if proves_ge0(c0 - b_ + k_, post.facts):
                    post.env[nm_] = c0 - floordiv(c0 - b_ + k_, k_).scale(k_)
            self.emit(post, "loopexit", node, loop=lid, env={nm: post.env.get(nm) for nm in names})
            if node.orelse:
                outs.extend(self.block(node.orelse, [post]))
            else:
                outs.append(post)
        return outs

    def _built_lists(self, post, ends, names, pre, lid, it=None):
        """`xs = []; <loop>: ...; xs.append(item)` - exactly one append in every pass, no other way out of the pass: after the loop xs is the list of
        the items, item k being the appended expression at pass k (its loop symbols stand for that pass)"""
        normal = [e for e in ends if e.status in ("run", "continue")]
        if not normal or any(e.status == "break" for e in ends):
            return
        for nm in names:
            before = pre.get(nm)
            if not (isinstance(before, tuple) and before[:1] == ("tuple",) and not any(isinstance(x, tuple) and x[:1] == ("star",) for x in before[1])):
                continue
            if before[1] and not (isinstance(it, tuple) and it[:1] == ("range",)):
                continue
            sym = ("sym", f"{nm}@L{lid}")
            items = set()
            for e_state in normal:
                apps = [e for e in e_state.events if e.kind == "call" and lid in e.loops and e.d.get("recv") == sym and e.d["attr"] in ("append", "extend", "insert", "pop", "clear", "remove")]
                if len(apps) != 1 or apps[0].d["attr"] != "append" or len(apps[0].d["args"]) != 1 or apps[0].loops[-1] != lid:
                    items = None
                    break
                items.add(apps[0].d["args"][0])
            if items and len(items) == 1:
                built = ("built", next(iter(items)), lid, it if isinstance(it, tuple) and it[:1] == ("range",) else None)
                # a list that held known items before the loop: those, followed by the generated ones
                post.env[nm] = built if not before[1] else ("tuple", before[1] + (("star", _built_as_comp(built)),))

    def _counted(self, wev, t, ends, names, pre, lid):
        """`c = lo; while c < hi: ...; c += k` (every pass, no other way out) is `for c in range(lo, hi, k)`: recorded on the `while` event as
        iter / target, so that rules read both spellings the same way"""
        if any(e.status == "break" for e in ends):
            return
        normal = [e for e in ends if e.status in ("run", "continue")]
        if not normal:
            return
        for nm in sorted(names):
            sym = ("sym", f"{nm}@L{lid}")
            symv = lin(sym)
            steps = {(e.env.get(nm) - symv) if isinstance(e.env.get(nm), Lin) else None for e in normal}
            if len(steps) != 1:
                continue
            step = next(iter(steps))
            if step is None or not is_int_const(step) or ival(step) == 0 or not _intlike(pre.get(nm)):
                continue
            # the test as a bound on the counter:  c < hi  (counting up)  or  c >= lo  (counting down)
            lt = ge = None
            if isinstance(t, tuple) and t[:1] == ("not",) and isinstance(t[1], tuple) and t[1][:2] == ("cmp", "GtE") \
                    and isinstance(t[1][2], Lin) and isinstance(t[1][3], Lin):
                a, b = t[1][2], t[1][3]                      # a < b
                if a.t.get(sym) == 1 and sym not in b.t:
                    lt = b - (a - symv)
                elif b.t.get(sym) == 1 and sym not in a.t:
                    ge = a - (b - symv) + 1
            elif isinstance(t, tuple) and t[:2] == ("cmp", "GtE") and isinstance(t[2], Lin) and isinstance(t[3], Lin):
                a, b = t[2], t[3]                            # a >= b
                if b.t.get(sym) == 1 and sym not in a.t:
                    lt = a - (b - symv) + 1
                elif a.t.get(sym) == 1 and sym not in b.t:
                    ge = b - (a - symv)
            bound = lt if ival(step) > 0 else ge
            if not isinstance(bound, Lin) or any("@L%d" % lid in show(a_) for a_ in bound.t):
                continue
            if ival(step) > 0:
                wev.d["iter"] = ("range", lin(pre[nm]), bound, step)
                wev.d["target"] = symv
                wev.d["counter"] = nm
            else:
                wev.d["down"] = (nm, lin(pre[nm]), bound, -ival(step))        # c = pre; while c >= bound: ...; c -= k
            return

    # ------------------------------------------------------------------------------------------------------------ expressions
    def index(self, sl, st):
        if isinstance(sl, ast.Slice):
            lo = self.ev(sl.lower, st) if sl.lower is not None else Lin()
            hi = self.ev(sl.upper, st) if sl.upper is not None else ("k", None)
            step = self.ev(sl.step, st) if sl.step is not None else Lin(c=1)
            return ("sl", lo, hi, step)
        if isinstance(sl, ast.Tuple):
            return ("tuple", tuple(self.index(e, st) for e in sl.elts))
        return self.ev(sl, st)

    def _elem(self, base, idx):
        """base[idx] on values"""
        if isinstance(base, tuple) and base and base[0] == "attr" and base[2] == "shape" and is_int_const(idx):
            if ival(idx) == 0:
                return lin(("len", origin(base[1])))
            return lin(("dim", origin(base[1]), ival(idx)))
        if isinstance(base, tuple) and base and base[0] == "op" and base[1] in ("np.shape", "numpy.shape") and is_int_const(idx) and len(base[2]) == 1:
            if ival(idx) == 0:
                return lin(("len", origin(base[2][0])))
            return lin(("dim", origin(base[2][0]), ival(idx)))
        if isinstance(base, tuple) and base and base[0] == "tuple" and is_int_const(idx) and -len(base[1]) <= ival(idx) < len(base[1]):
            return base[1][ival(idx)]
        if isinstance(base, tuple) and base[:1] == ("obj",) and is_int_const(idx) and -len(base[2]) <= ival(idx) < len(base[2]):
            return base[2][ival(idx)][1]
        if isinstance(base, tuple) and base[:1] == ("range",) and is_int_const(base[3]) and ival(base[3]) > 0 and isinstance(idx, Lin):
            if idx.is_const() and idx.c == -1:
                return lin(base[1]) + floordiv(lin(base[2]) - 1 - lin(base[1]), ival(base[3])).scale(ival(base[3]))      # the last value (of a range that has one)
            if not (idx.is_const() and idx.c < 0):
                return lin(base[1]) + idx.scale(ival(base[3]))
        col = None
        full = ("sl", Lin(), ("k", None), Lin(c=1))
        if isinstance(idx, tuple) and idx[:1] == ("tuple",) and len(idx[1]) == 2 and idx[1][0] == full and is_int_const(idx[1][1]):
            col = (base, ival(idx[1][1]))                      # m[:, k]
        elif isinstance(base, tuple) and base[:2] == ("op", "T") and len(base[2]) == 1 and is_int_const(idx):
            col = (base[2][0], ival(idx))                      # m.T[k]
        if col is not None and isinstance(col[0], tuple) and col[0][:1] == ("op",) and col[0][1] in (".reshape", "np.reshape") and col[1] >= 0:
            args = col[0][2]
            shape = args[1][1] if len(args) == 2 and isinstance(args[1], tuple) and args[1][:1] == ("tuple",) else args[1:]
            src = args[0]
            if len(shape) == 2 and is_int_const(shape[1]) and ival(shape[1]) > col[1] and isinstance(src, tuple) and src[:1] == ("slice",) and src[4] == Lin(c=1) \
                    and isinstance(src[2], Lin) and isinstance(src[3], Lin):
                P = ival(shape[1])
                whole = (lin(shape[0]) * P == src[3] - src[2]) or (shape[0] == Lin(c=-1) and _divisible(src[3] - src[2], P))
                if whole:
                    return ("slice", src[1], src[2] + col[1], src[3], Lin(c=P))        # x[a:b].reshape(-1, P)[:, k] is x[a + k : b : P]
        if isinstance(idx, tuple) and idx and idx[0] == "sl":
            return ("slice", base, idx[1], idx[2], idx[3])
        if isinstance(base, tuple) and base[:1] == ("built",) and (isinstance(idx, Lin) or (isinstance(idx, tuple) and idx[:1] == ("sym",))):
            x = base[1]
            x = subst(x, ("sym", f"<k>@L{base[2]}"), lin(idx))                       # the pass number is the position in the list
            if len(base) > 3 and base[3] is not None:
                _, lo_, _, step_ = base[3]
                x = subst(x, ("sym", f"<i>@L{base[2]}"), lin(lo_) + lin(idx) * lin(step_))         # ... and fixes the variable of a range loop
            return _rename_loop(x, base[2], show(lin(idx)))
        if isinstance(base, tuple) and base[:1] == ("comp",) and len(base) == 5 and (isinstance(idx, Lin) or (isinstance(idx, tuple) and idx[:1] == ("sym",))) \
                and not (isinstance(base[2], tuple) and base[2][:1] == ("range",)):
            # the k-th item of (f(x) for x in xs) is f(xs[k]): the element expression with the pass number replaced
            return subst(base[1], ("sym", f"<k>@L{base[4]}"), lin(idx))
        if isinstance(base, tuple) and base[:1] == ("slice",) and is_int_const(base[4]) and ival(base[4]) >= 1 and isinstance(base[2], Lin) \
                and (isinstance(idx, Lin) or (isinstance(idx, tuple) and idx[:1] == ("sym",))) \
                and not (isinstance(idx, Lin) and idx.is_const() and idx.c < 0) and not (base[2].is_const() and base[2].c < 0):
            return ("elem", base[1], base[2] + lin(idx).scale(ival(base[4])))          # x[a::s][i] is x[a + s * i] (indices counted from the front)
        return ("elem", base, idx)

    def _slice_of_slice(self, base, idx):
        """x[a:h][lo:hi:s] -> x[a + lo : ... : s] for a contiguous inner slice and indices counted from the front (as everywhere in this engine, an index
        that is not a negative constant counts from the front)"""
        _, b0, a, h1, s1 = base
        _, lo, hi, step = idx
        neg = lambda v: isinstance(v, Lin) and v.is_const() and v.c < 0
        if s1 != Lin(c=1) or not isinstance(lo, Lin) or not isinstance(a, Lin) or neg(lo) or neg(a) or not isinstance(step, Lin):
            return None
        if _is_k(hi) and hi[1] is None:
            nh = h1
        elif isinstance(hi, Lin) and not neg(hi):
            if _is_k(h1) and h1[1] is None:
                nh = a + hi
            elif isinstance(h1, Lin) and not neg(h1):
                nh = mk_min([a + hi, h1], ())
            else:
                return None
        else:
            return None
        return ("slice", b0, a + lo, nh, step)

    def _key_norm(self, idx, st, boolpos=None):
        """a lookup key with its truth-valued components decided where the facts decide them"""
        if isinstance(idx, tuple) and idx[:1] == ("tuple",):
            return ("tuple", tuple(self._key_norm(x, st, (boolpos or {}).get(i) if isinstance(boolpos, dict) else None) for i, x in enumerate(idx[1])))
        if isinstance(idx, tuple) and (idx[:1] in (("cmp",), ("not",), ("bool",), ("in",)) or (boolpos is True and not _is_k(idx))):
            r = self.decide(idx, st)
            return ("k", r) if r is not None else idx
        return idx

    @staticmethod
    def _bool_positions(table):
        """which key positions of a literal table hold True / False: {position: True} for tuple keys, True for plain boolean keys, None otherwise"""
        keys = [k for k, _ in table[1]]
        isb = lambda k: _is_k(k) and isinstance(k[1], bool)
        if keys and all(isb(k) for k in keys):
            return True
        if keys and all(isinstance(k, tuple) and k[:1] == ("tuple",) for k in keys):
            n = len(keys[0][1])
            if all(len(k[1]) == n for k in keys):
                return {i: True for i in range(n) if all(isb(k[1][i]) for k in keys)} or None
        return None

    def _lookup(self, table, idx, st):
        key = self._key_norm(idx, st, self._bool_positions(table))
        for k, v in table[1]:
            if k == key:
                return v
        if isinstance(key, Lin) and not key.is_const() and st.facts:
            for k, v in table[1]:
                if isinstance(k, Lin) and self.decide(("cmp", "Eq") + tuple(sorted((k, key), key=repr)), st) is True:
                    return v                     # the tests passed on the way say which key it is
        return ("elem", table, key)

    STR_METHODS = {".replace", ".rstrip", ".lstrip", ".strip", ".upper", ".lower", ".ljust", ".rjust", ".center", ".expandtabs", ".zfill", ".join", ".format"}

    def is_str(self, v):
        if isinstance(v, S) or (isinstance(v, tuple) and v and v[0] == "sym" and v[1].split("@")[0] in self.strings):
            return True
        # a string method applied to a string gives a string
        return isinstance(v, tuple) and v[:1] == ("op",) and v[1] in self.STR_METHODS and len(v[2]) >= 1 and self.is_str(v[2][0])

    BOOL_CALLS = {"np.iscomplexobj", "np.isrealobj", "isinstance", "callable", "hasattr", "np.allclose", "np.array_equal", "np.any", "np.all",
                  ".any", ".all", ".startswith", ".endswith", "np.isscalar", "np.issubdtype"}

    def _is_bool(self, v):
        """a value that is True or False: a test, or the result of a predicate"""
        return isinstance(v, tuple) and (v[:1] in (("cmp",), ("not",), ("bool",), ("in",)) or (v[:1] == ("op",) and v[1] in self.BOOL_CALLS)
                                         or (_is_k(v) and isinstance(v[1], bool)))

    def _boolnum(self, v, st):
        """True / False used as a number (n * (a == b), 1 + flag): 1 / 0 where the facts decide it"""
        if self._is_bool(v):
            r = self.decide(v, st) if not _is_k(v) else v[1]
            if r is not None:
                return Lin(c=int(r))
        return v

    def binop(self, op, a, b, st, node=None):
        if isinstance(op, (ast.Add, ast.Sub, ast.Mult)):
            a, b = self._boolnum(a, st), self._boolnum(b, st)
        if isinstance(op, ast.Add):
            if self.is_str(a) or self.is_str(b):
                return as_S(a) + as_S(b)
            if isinstance(a, tuple) and a and a[0] == "tuple" and isinstance(b, tuple) and b and b[0] == "tuple":
                return ("tuple", a[1] + b[1])
            if isinstance(a, tuple) and a[:1] in (("tuple",), ("comp",)) and isinstance(b, tuple) and b[:1] in (("tuple",), ("comp",)):
                # [known] + [generated]: a list of known items and generated ones
                return ("tuple", (a[1] if a[0] == "tuple" else (("star", a),)) + (b[1] if b[0] == "tuple" else (("star", b),)))
            return lin(a) + lin(b)
        if isinstance(op, ast.Sub):
            return lin(a) - lin(b)
        if isinstance(op, ast.Mult):
            if self.is_str(a) and not self.is_str(b):
                return as_S(a).repeat(lin(b))
            if self.is_str(b) and not self.is_str(a):
                return as_S(b).repeat(lin(a))
            if isinstance(a, tuple) and a and a[0] == "tuple" and is_int_const(b) and 0 <= ival(b) <= 64:
                return ("tuple", a[1] * ival(b))
            return lin(a) * lin(b)
        if isinstance(op, ast.FloorDiv):
            b2 = lin(b)
            if is_int_const(b2) and ival(b2) > 0:
                return floordiv(a, ival(b2))
            return lin(("op", "//", (lin(a), b2)))
        if isinstance(op, ast.Mod):
            if isinstance(a, S):
                return self.pct_format(a, b, st, node)
            b2 = lin(b)
            if is_int_const(b2) and ival(b2) > 0:
                return mod(a, ival(b2))
            return lin(("op", "%", (lin(a), b2)))
        name = {ast.BitAnd: "&", ast.BitOr: "|", ast.BitXor: "^", ast.LShift: "<<", ast.RShift: ">>", ast.Div: "/", ast.Pow: "**",
                ast.MatMult: "@"}.get(type(op), type(op).__name__)
        a2, b2 = lin(a), lin(b)
        # shifts and low-bit masks are arithmetic:  x >> k = x // 2**k,  x << k = x * 2**k,  x & (2**k - 1) = x % 2**k,  x & ~(2**k - 1) = x - x % 2**k
        if name in ("<<", ">>") and is_int_const(b2) and 0 <= ival(b2) <= 30 and not is_int_const(a2):
            return floordiv(a2, 2 ** ival(b2)) if name == ">>" else a2.scale(2 ** ival(b2))
        if name == "&" and (is_int_const(a2) != is_int_const(b2)):
            x, k = (a2, ival(b2)) if is_int_const(b2) else (b2, ival(a2))
            if k > 0 and (k + 1) & k == 0:
                return mod(x, k + 1)
            if k < 0 and (-k) & (-k - 1) == 0:
                return x - mod(x, -k)
        if name in ("&", "|", "^", "<<", ">>") and is_int_const(a2) and is_int_const(b2):
            x = atom_eval(("op", name, (a2, b2)), {})
            if x is not None:
                return Lin(c=x)
        if name in ("&", "|", "^"):
            a2, b2 = sorted((a2, b2), key=repr)
        return lin(("op", name, (a2, b2)))

    def pct_format(self, tmpl, args, st, node):
        """template % values: the same bookkeeping as template.format(*values)"""
        def conv(s_):
            out = []
            for x in s_.p:
                if x[0] == "lit":
                    out.extend(pct_items(x[1]))
                elif x[0] == "rep":
                    out.append(("rep", tuple(conv(x[1])), x[2]))
                elif x[0] == "str":
                    out.append(("sub", x[1]))
                else:
                    out.append(("done", x))
            return out
        items = conv(tmpl)
        if isinstance(args, tuple) and args[:1] == ("tuple",):
            vals = list(args[1])
        elif isinstance(args, tuple) and args[:1] == ("op",) and args[1] in ("tuple", "list") and len(args[2]) == 1:
            vals = [("star", args[2][0])]
        else:
            vals = [args]
        if not all(it[0] in ("text", "field", "rep", "done") for it in items):
            return lin(("op", "%", (tmpl, args)))
        argnodes = None
        if node is not None and isinstance(getattr(node, "right", None), ast.Tuple):
            argnodes = node.right.elts
        elif node is not None and getattr(node, "right", None) is not None:
            argnodes = [node.right]
        nargs = Lin()
        for a in vals:
            nargs = nargs + (self.length(a[1], st) if isinstance(a, tuple) and a[:1] == ("star",) else 1)
        parts = []
        state = {"i": 0, "starred": False}
        for it in items:
            if it[0] == "text":
                parts.append(("lit", it[1]))
            elif it[0] == "field":
                v, role = None, "expr"
                i = state["i"]
                state["i"] += 1
                if not state["starred"] and i < len(vals):
                    if isinstance(vals[i], tuple) and vals[i][:1] == ("star",):
                        state["starred"] = True
                        v = ("elem", vals[i][1], Lin())
                    else:
                        v = vals[i]
                        role = role_of(argnodes[i]) if argnodes and i < len(argnodes) else "expr"
                if v is not None and it[1].canon() == "s" and self.is_str(v):
                    parts.extend(as_S(v).p)                 # "%s" % text
                    continue
                parts.append(("fv", it[1].canon(), v, role))
            elif it[0] == "rep":
                state["starred"] = True
                parts.append(("rep", S(tuple(("lit", j[1]) if j[0] == "text" else ("fv", j[1].canon(), None, "expr") for j in it[1] if j[0] in ("text", "field"))), it[2]))
            else:
                parts.append(it[1])
        res = S(parts)
        self.emit(st, "format", node, template=tmpl, items=items, args=vals, nfields=count_fields(items), nargs=nargs, value=res)
        return res

    def ev(self, node, st):
        if node is None:
            return ("k", None)
        if isinstance(node, ast.Constant):
            v = node.value
            if isinstance(v, bool):
                return ("k", v)
            if isinstance(v, int):
                return Lin(c=v)
            if isinstance(v, str):
                return S((("lit", v),))
            if isinstance(v, float) and v == int(v) and abs(v) < 1e9:
                return ("k", v)
            return ("k", v if not isinstance(v, (bytes,)) else repr(v))
        if isinstance(node, ast.Name):
            if node.id in st.env:
                return st.env[node.id]
            if node.id not in self.locals:
                mc = self.module_const(node.id)
                if mc is not None:
                    return mc
                if node.id in self.classes and self.follow is not None:
                    return ("class", node.id)
            if node.id in ("None", "True", "False"):
                return ("k", {"None": None, "True": True, "False": False}[node.id])
            return ("sym", node.id)
        if isinstance(node, ast.JoinedStr):
            parts = []
            for v in node.values:
                if isinstance(v, ast.Constant):
                    parts.append(("lit", v.value))
                elif isinstance(v, ast.FormattedValue):
                    spec = None
                    if v.format_spec is None:
                        spec = ""
                    elif all(isinstance(x, ast.Constant) for x in v.format_spec.values):
                        spec = "".join(x.value for x in v.format_spec.values)
                    else:
                        sv = self.ev(v.format_spec, st)
                        spec = sv.text() if isinstance(sv, S) else None
                    val = self.ev(v.value, st)
                    if spec == "" and v.conversion == -1 and self.is_str(val):
                        parts.extend(as_S(val).p)
                    else:
                        sp = parse_spec(spec) if spec is not None else None
                        parts.append(("fv", sp.text if sp else spec, val, role_of(v.value)))
            return S(parts)
        if isinstance(node, ast.Attribute):
            d = dotted(node)
            if d is not None and d in st.env:
                return st.env[d]
            if d is not None:
                root = d.split(".")[0]
                if root not in st.env:
                    cc = self._class_const(d) if root not in self.locals else None
                    if cc is None and root not in self.locals and "." in d:
                        mo = self.module_const(root)
                        if isinstance(mo, tuple) and mo[:1] == ("obj",):
                            # an attribute of a module-level object made by a class of the module
                            cur = mo
                            for a_ in d.split(".")[1:]:
                                nxt = next((v_ for k_, v_ in cur[2] if k_ == a_), None) if isinstance(cur, tuple) and cur[:1] == ("obj",) else None
                                if nxt is None:
                                    cur = None
                                    break
                                cur = nxt
                            if cur is not None:
                                return cur
                    return cc if cc is not None else ("sym", d)
            base = self.ev(node.value, st)
            if isinstance(base, tuple) and base[:1] == ("obj",):
                for k_, v_ in base[2]:
                    if k_ == node.attr:
                        return v_
                if base[1] in self.classes and isinstance(node.ctx, ast.Load):
                    m_ = self._method(base[1], node.attr)
                    if m_ is not None and m_[1] == "property":
                        r = self._call_method(base, node.attr, [], node, st, getter=True)
                        if r is None:
                            raise Unsupported(f"property {base[1]}.{node.attr} has several paths")
                        return r
                    ca = self._class_attr(base[1], node.attr) if m_ is None else None
                    if ca is not None:
                        saved = self.locals
                        self.locals = set()
                        try:
                            return self.ev(ca, State())
                        finally:
                            self.locals = saved
            if node.attr == "T":
                return ("op", "T", (base,))
            if node.attr == "size" and not isinstance(base, S):
                return lin(("len", origin(base)))
            return ("attr", base, node.attr)
        if isinstance(node, ast.Subscript):
            base = self.ev(node.value, st)
            idx = self.index(node.slice, st)
            mname = self._memo_name(node.value)
            if mname is not None:
                got = self._memo_read(mname, idx, st)
                if got is not None:
                    return got
            if isinstance(base, tuple) and base[:1] == ("tuple",) and len(base[1]) == 2 and (_is_test_node(node.slice) or _truthlike(idx)):
                r = self.decide(idx, st)              # (b, a)[test]  is  a if test else b
                if r is not None:
                    return base[1][1] if r else base[1][0]
                return ("ite", idx, base[1][1], base[1][0])
            if isinstance(base, tuple) and base[:1] == ("dict",):
                return self._lookup(base, idx, st)
            if isinstance(idx, Lin) and not idx.is_const() and not isinstance(base, S):
                _, hi_ = bounds(idx, st.facts)
                if hi_ is not None and hi_ < 0:
                    idx = idx + self.length(base, st)          # x[j] with j < 0 is x[len(x) + j]
            if isinstance(idx, tuple) and idx[:1] == ("sl",) and isinstance(base, tuple) and base[:1] == ("slice",):
                r = self._slice_of_slice(base, idx)
                if r is not None:
                    return r
            return self._elem(base, idx)
        if isinstance(node, ast.BinOp):
            a = self.ev(node.left, st)
            b = self.ev(node.right, st)
            return self.binop(node.op, a, b, st, node)
        if isinstance(node, ast.UnaryOp):
            v = self.ev(node.operand, st)
            if isinstance(node.op, ast.Not):
                r = truth(v, {})
                if r is not None:
                    return ("k", not r)
                if isinstance(v, tuple) and v and v[0] == "not":
                    return v[1]
                return ("not", v)
            if isinstance(node.op, ast.USub):
                if _is_k(v) and isinstance(v[1], float):
                    return ("k", -v[1])
                return -lin(v)
            if isinstance(node.op, ast.UAdd):
                return v
            if isinstance(v, Lin):
                return -v - 1          # ~x == -x - 1
            return ("op", "~", (v,))
        if isinstance(node, ast.Compare):
            if len(node.ops) == 1 and isinstance(node.ops[0], (ast.In, ast.NotIn)) and self._memo_name(node.comparators[0]) is not None:
                # `key in MEMO`: the miss is followed (a hit returns what a miss stored, see _memo_info) - unless this path stored the key itself
                here = self._memo_read(self._memo_name(node.comparators[0]), self.ev(node.left, st), st) is not None
                return ("k", here == isinstance(node.ops[0], ast.In))
            vals = [self.ev(node.left, st)] + [self.ev(c, st) for c in node.comparators]
            tests = []
            for i, op in enumerate(node.ops):
                a, b = vals[i], vals[i + 1]
                on = type(op).__name__
                if on in ("In", "NotIn"):
                    elts = None
                    if isinstance(b, tuple) and b and b[0] == "dict":
                        b = ("tuple", tuple(k for k, _ in b[1]))
                    if isinstance(b, tuple) and b[:1] == ("range",) and all(is_int_const(x) for x in b[1:]) and ival(b[3]) != 0 \
                            and len(range(ival(b[1]), ival(b[2]), ival(b[3]))) <= 64 and isinstance(a, Lin):
                        b = ("tuple", tuple(Lin(c=x) for x in range(ival(b[1]), ival(b[2]), ival(b[3]))))      # n in range(16, 33, 16)
                    if isinstance(b, tuple) and b and b[0] in ("tuple", "set"):
                        elts = tuple(sorted(b[1], key=repr))
                        if elts and all(isinstance(x, Lin) or (_is_k(x) and isinstance(x[1], float) and x[1] == int(x[1])) for x in elts) and not isinstance(a, S):
                            elts = tuple(sorted((_num(x) for x in elts), key=repr))
                            a = _num(a)            # membership in a set of numbers: the left side is a number too
                    t_ = ("in", a, elts, False) if elts is not None else ("cmp", "In", a, b)
                    tests.append(("not", t_) if on == "NotIn" else t_)
                    continue
                if on in ("Eq", "NotEq", "Lt", "LtE", "Gt", "GtE") and not isinstance(a, S) and not isinstance(b, S) \
                        and not (_is_k(a) and not isinstance(a[1], (int, float))) and not (_is_k(b) and not isinstance(b[1], (int, float))) \
                        and not (_is_k(a) and isinstance(a[1], bool)) and not (_is_k(b) and isinstance(b[1], bool)):
                    a2, b2 = _num(a), _num(b)
                    # canonical forms: only `x >= y` and `x == y` (sorted sides) exist;  a > b is not (b >= a),  a < b is not (a >= b),
                    # a <= b is b >= a,  a != b is not (a == b)
                    if on == "Lt":
                        tests.append(("not", ("cmp", "GtE", a2, b2)))
                    elif on == "LtE":
                        tests.append(("cmp", "GtE", b2, a2))
                    elif on == "Gt":
                        tests.append(("not", ("cmp", "GtE", b2, a2)))
                    elif on == "GtE":
                        tests.append(("cmp", "GtE", a2, b2))
                    else:
                        a2, b2 = sorted((a2, b2), key=repr)
                        t_ = ("cmp", "Eq", a2, b2)
                        tests.append(t_ if on == "Eq" else ("not", t_))
                else:
                    neg = on in ("NotEq", "IsNot")
                    kb = lambda v_: _is_k(v_) and isinstance(v_[1], bool)
                    if on in ("Eq", "NotEq", "Is", "IsNot") and (kb(a) != kb(b)) and self._is_bool(b if kb(a) else a):
                        # a truth value compared with True / False is itself or its negation
                        tv, kv = (b, a[1]) if kb(a) else (a, b[1])
                        t_ = tv if kv else (tv[1] if isinstance(tv, tuple) and tv[:1] == ("not",) else ("not", tv))
                        tests.append((t_[1] if isinstance(t_, tuple) and t_[:1] == ("not",) else ("not", t_)) if neg else t_)
                        continue
                    if on in ("Eq", "NotEq", "Is", "IsNot"):
                        a, b = sorted((a, b), key=repr)
                        on = "Eq" if on in ("Eq", "NotEq") else "Is"
                    t_ = ("cmp", on, a, b)
                    tests.append(("not", t_) if neg else t_)
            if len(tests) == 1:
                return tests[0]
            return ("bool", "and", tuple(tests))
        if isinstance(node, ast.BoolOp):
            vals = []
            for i_, v_ in enumerate(node.values):
                n0 = len(st.events)
                vals.append(self.ev(v_, st))
                if i_ and any(self._output_like(e) for e in st.events[n0:]):
                    raise Unsupported("output under `and` / `or` inside an expression (the operand is evaluated only if the ones before it allow)")
            vals = tuple(vals)
            kind = "and" if isinstance(node.op, ast.And) else "or"
            # operands that are constants drop out (x and True is x) or decide the whole (x and False)
            keep = []
            for x in vals:
                r = truth(x, {}) if not isinstance(x, (Lin, S)) or (isinstance(x, Lin) and x.is_const()) else None
                if r is None:
                    keep.append(x)
                elif r == (kind == "or"):
                    return ("k", kind == "or") if all(isinstance(y, tuple) for y in vals) else ("bool", kind, vals)
            if len(keep) == 1 and len(keep) < len(vals) and isinstance(keep[0], tuple) and keep[0][:1] in (("cmp",), ("not",), ("bool",), ("in",), ("k",)):
                return keep[0]
            if len(keep) < len(vals) and len(keep) >= 2:
                vals = tuple(keep)
            return ("bool", kind, vals)
        if isinstance(node, ast.IfExp):
            t = self.ev(node.test, st)
            r = self.decide(t, st)
            if r is True:
                return self.ev(node.body, st)
            if r is False:
                return self.ev(node.orelse, st)
            return ("ite", t, self.ev(node.body, st), self.ev(node.orelse, st))
        if isinstance(node, (ast.Tuple, ast.List)):
            out = []
            for e in node.elts:
                v = self.ev(e, st)
                if isinstance(v, tuple) and v[:1] == ("star",) and isinstance(v[1], tuple) and v[1][:1] == ("tuple",):
                    out.extend(v[1][1])          # [a, *[b, c]] is [a, b, c]
                else:
                    out.append(v)
            return ("tuple", tuple(out))
        if isinstance(node, ast.Set):
            return ("set", tuple(sorted((self.ev(e, st) for e in node.elts), key=repr)))
        if isinstance(node, ast.Dict) and node.keys and all(k is not None for k in node.keys):
            return ("dict", tuple((self.ev(k, st), self.ev(v, st)) for k, v in zip(node.keys, node.values)))
        if isinstance(node, ast.Starred):
            return ("star", self.ev(node.value, st))
        if isinstance(node, ast.Call):
            return self.call(node, st)
        if isinstance(node, ast.NamedExpr):
            v = self.ev(node.value, st)
            self.assign(node.target, v, st, node)
            return v
        if isinstance(node, (ast.ListComp, ast.GeneratorExp)) and all(not g.ifs and not g.is_async for g in node.generators):
            r = self._unroll(node, st)
            if r is not None:
                return r
        if isinstance(node, (ast.ListComp, ast.GeneratorExp)) and len(node.generators) == 1 and not node.generators[0].ifs and not node.generators[0].is_async:
            g = node.generators[0]
            it = self.ev(g.iter, st)
            self.loopseq += 1
            lid = self.loopseq
            sub = st.fork()
            k = ("sym", f"<k>@L{lid}")
            tv = self._iter_elem(it, k, sub, lid)
            self.assign(g.target, tv, sub, node)
            n0 = len(sub.events)
            elt = self.ev(node.elt, sub)
            if any(self._output_like(e) for e in sub.events[n0:]):
                raise Unsupported("a comprehension whose element writes (evaluated for its effects inside an expression)")
            return ("comp", elt, it, tv, lid)
        if isinstance(node, ast.DictComp) and all(not g.ifs and not g.is_async for g in node.generators):
            pairs = ast.copy_location(ast.ListComp(elt=ast.copy_location(ast.Tuple(elts=[node.key, node.value], ctx=ast.Load()), node), generators=node.generators), node)
            r = self._unroll(pairs, st, limit=16)
            if r is not None and all(isinstance(x, tuple) and x[:1] == ("tuple",) and len(x[1]) == 2 for x in r[1]):
                out = {}
                for x in r[1]:
                    out[x[1][0]] = x[1][1]              # {k: v for ... in <known items>}: the table it spells (a later item replaces an earlier one)
                return ("dict", tuple(out.items()))
        if isinstance(node, ast.DictComp) and len(node.generators) == 1 and not node.generators[0].ifs and not node.generators[0].is_async:
            # {k: v for ...}: one store per pass, like `out[k] = v` in a loop
            g = node.generators[0]
            it = self.ev(g.iter, st)
            self.loopseq += 1
            lid = self.loopseq
            sub = st.fork()
            sub.loops = sub.loops + (lid,)
            k = ("sym", f"<k>@L{lid}")
            tv = self._iter_elem(it, k, sub, lid)
            self.assign(g.target, tv, sub, node)
            key, val = self.ev(node.key, sub), self.ev(node.value, sub)
            res = ("dictcomp", lid)
            self.seq += 1
            st.events.append(Event("store", node, {"base": res, "index": key, "value": val, "name": None}, sub.facts, sub.loops, self.seq))
            return res
        if isinstance(node, ast.Lambda):
            self.lambdas = getattr(self, "lambdas", {})
            self.lambdas[id(node)] = node
            self.defdepth = getattr(self, "defdepth", {})
            self.defdepth[id(node)] = len(st.frames)
            self._def_defaults(node.args, id(node), st)
            return ("lambda", id(node))
        if isinstance(node, _Val):
            return node.v
        if isinstance(node, (ast.ListComp, ast.GeneratorExp, ast.SetComp, ast.DictComp, ast.Lambda, ast.Dict, ast.Await, ast.Yield, ast.YieldFrom)):
            return ("op", "<" + type(node).__name__ + ">", (("k", ast.dump(node)),))
        raise Unsupported(f"expression {type(node).__name__}")

    def _unroll(self, node, st, limit=64):
        """[elt for a in <concrete> for b in <concrete>] -> tuple of the element values; None when an iterable is not concrete"""
        out = []

        def rec(gi, sub):
            if len(out) > limit:
                return False
            if gi == len(node.generators):
                n0 = len(sub.events)
                out.append(self.ev(node.elt, sub))
                if any(self._output_like(e) for e in sub.events[n0:]):
                    raise Unsupported("a comprehension whose element writes (evaluated for its effects inside an expression)")
                return True
            g = node.generators[gi]
            it = self.ev(g.iter, sub)
            if isinstance(it, tuple) and it[:1] == ("range",) and all(is_int_const(x) for x in it[1:]) and ival(it[3]) != 0:
                vals = [Lin(c=x) for x in range(ival(it[1]), ival(it[2]), ival(it[3]))]
            elif isinstance(it, tuple) and it[:1] == ("tuple",) and not any(isinstance(x, tuple) and x[:1] == ("star",) for x in it[1]):
                vals = list(it[1])
            else:
                return False
            if len(vals) > limit:
                return False
            for v in vals:
                s2 = sub.fork()
                self.assign(g.target, v, s2, node)
                if not rec(gi + 1, s2):
                    return False
            return True
        if rec(0, st.fork()):
            return ("tuple", tuple(out))
        return None

    # ------------------------------------------------------------------------------------------------------------ calls
    def _unalias(self, node, st):
        """a call through a local that only names something else - a bound method (`put = f.write`), a function of another module
        (`vw = writer.vecwrite`), functools.partial of a function that is not followed (`emit = partial(print, file=f)`) - is the call it stands for"""
        if not isinstance(node.func, ast.Name) or getattr(node, "_c13_unaliased", False):
            return None
        b = st.env.get(node.func.id)
        if not isinstance(b, tuple):
            return None
        func, pre_args, pre_kws = None, (), ()
        if b[:1] == ("partial",) and isinstance(b[1], tuple) and b[1][:1] == ("sym",) and self._resolve_callable(b, None, st) is None:
            pre_args, pre_kws = b[2], b[3]
            b = b[1]
            if b[1] == node.func.id:
                return None
        if b[:1] == ("attr",) and len(b) == 3 and isinstance(b[2], str):
            base = b[1]
            bn = ast.Name(id=base[1], ctx=ast.Load()) if isinstance(base, tuple) and base[:1] == ("sym",) and str(base[1]).isidentifier() \
                and st.env.get(base[1]) == base else _Val.of(base)
            func = ast.Attribute(value=bn, attr=b[2], ctx=ast.Load())
        elif b[:1] == ("sym",) and isinstance(b[1], str) and b[1] != node.func.id and "@" not in b[1] and all(x.isidentifier() for x in b[1].split(".")) \
                and b[1].split(".")[0] not in st.env and (pre_args or pre_kws or b[1].split(".")[0] not in self.locals):
            parts = b[1].split(".")
            func = ast.Name(id=parts[0], ctx=ast.Load())
            for x in parts[1:]:
                func = ast.Attribute(value=func, attr=x, ctx=ast.Load())
        if func is None:
            return None
        new = ast.Call(func=func, args=[_Val.of(a) for a in pre_args] + list(node.args),
                       keywords=[ast.keyword(arg=k, value=_Val.of(v)) for k, v in pre_kws if k not in {kw.arg for kw in node.keywords}] + list(node.keywords))
        for n_ in ast.walk(new):
            if not hasattr(n_, "lineno") and isinstance(n_, (ast.expr, ast.keyword)):
                ast.copy_location(n_, node)
        ast.copy_location(new, node)
        new._vparent, new._vmod = getattr(node, "_vparent", None), getattr(node, "_vmod", None)
        new.func._vparent = new
        new._c13_unaliased = True
        return new

    def call(self, node, st):
        alias = self._unalias(node, st)
        if alias is not None:
            return self.call(alias, st)
        name = dotted(node.func)
        recv = None
        attr = None
        if isinstance(node.func, ast.Attribute):
            attr = node.func.attr
            root = name.split(".")[0] if name else None
            if name is None or root in st.env:
                recv = self.ev(node.func.value, st)
        if id(node) in st.pre:
            return st.pre[id(node)]
        if self.strbufs:
            r = self._strbuf_call(node, st, name, attr)
            if r is not None:
                return r
        fnode = self.inlinable(node, st)
        if fnode is not None:
            outs = [(c, v) for c, v in self.inline(node, fnode, st.fork()) if c.status == "run"]
            if len(outs) == 1:
                c, v = outs[0]
                st.facts, st.events = c.facts, c.events
                return v
        args = []
        for a in node.args:
            v = self.ev(a, st)
            if isinstance(v, tuple) and v[:1] == ("star",) and isinstance(v[1], tuple) and v[1][:1] == ("tuple",) \
                    and not any(isinstance(x, tuple) and x[:1] == ("star",) for x in v[1][1]):
                args.extend(v[1][1])           # f(*[a, b, c]) is f(a, b, c)
            else:
                args.append(v)
        kws = {k.arg: self.ev(k.value, st) for k in node.keywords if k.arg is not None}
        res = self._call_value(node, st, name, recv, attr, args, kws)
        ev0 = self.emit(st, "call", node, name=name, recv=recv, attr=attr, args=args, kws=kws, value=res)
        # other spellings of `f.write(text)`
        if name == "print" and "file" in kws and not any(isinstance(a, tuple) and a[:1] == ("star",) for a in args):
            sep, end = kws.get("sep", S((("lit", " "),))), kws.get("end", S((("lit", "\n"),)))
            if isinstance(sep, S) and isinstance(end, S) and all(self.is_str(a) for a in args):
                text = S(())
                for i, a in enumerate(args):
                    text = text + (sep if i else S(())) + as_S(a)
                ev0.d["modelled"] = True
                self.emit(st, "call", node, name=None, recv=kws["file"], attr="write", args=[text + end], kws={}, value=("k", None))
        elif attr == "writelines" and len(args) == 1 and isinstance(args[0], tuple) and args[0][:1] == ("tuple",) and all(self.is_str(a) for a in args[0][1]):
            ev0.d["modelled"] = True
            for a in args[0][1]:
                self.emit(st, "call", node, name=None, recv=recv, attr="write", args=[as_S(a)], kws={}, value=("k", None))
        elif attr == "writelines" and len(args) == 1 and isinstance(args[0], tuple) and args[0][:1] == ("comp",) and isinstance(args[0][1], S):
            ev0.d["modelled"] = True
            self.emit(st, "call", node, name=None, recv=recv, attr="write", args=[S((("join", "", args[0]),))], kws={}, value=("k", None))
        # a list held by a local: append / extend / insert are followed (inside a loop that is not unrolled the name is a loop symbol, not a list)
        lpath = dotted(node.func.value) if attr in ("append", "extend", "insert") and isinstance(node.func, ast.Attribute) and not kws else None
        if lpath is not None and (isinstance(node.func.value, ast.Name) or lpath.split(".")[0] in st.env):
            cur = st.env.get(lpath) if isinstance(node.func.value, ast.Name) else self._load_path(st.env, lpath)
            gen = lambda x: isinstance(x, tuple) and x[:1] == ("star",) and isinstance(x[1], tuple) and x[1][:1] == ("comp",)
            if isinstance(cur, tuple) and cur[:1] == ("tuple",) and not any(isinstance(x, tuple) and x[:1] == ("star",) and not gen(x) for x in cur[1]):
                new = None
                if attr == "append" and len(args) == 1:
                    new = ("tuple", cur[1] + (args[0],))
                elif attr == "extend" and len(args) == 1 and isinstance(args[0], tuple) and args[0][:1] == ("tuple",):
                    new = ("tuple", cur[1] + args[0][1])
                elif attr == "extend" and len(args) == 1 and isinstance(args[0], tuple) and args[0][:1] == ("comp",):
                    new = ("tuple", cur[1] + (("star", args[0]),))          # known items followed by generated ones
                elif attr == "insert" and len(args) == 2 and is_int_const(args[0]) and 0 <= ival(args[0]) <= len(cur[1]) and not any(gen(x) for x in cur[1]):
                    new = ("tuple", cur[1][:ival(args[0])] + (args[1],) + cur[1][ival(args[0]):])
                self._store_path(st.env, lpath, new if new is not None else ("op", "list-after-" + attr, (cur,) + tuple(args)))
        return res

    def _strbuf_call(self, node, st, name, attr):
        """io.StringIO() / buf.write(text) / print(..., file=buf) / buf.getvalue() on a text accumulator (see _strbufs): the buffer is a string"""
        par = getattr(node, "_vparent", None)
        if name in _STRBUF_CALLS and not node.args and not node.keywords:
            tgt = par.targets[0] if isinstance(par, ast.Assign) and len(par.targets) == 1 else getattr(par, "optional_vars", None) if isinstance(par, ast.withitem) else None
            return S(()) if isinstance(tgt, ast.Name) and tgt.id in self.strbufs else None
        if isinstance(node.func, ast.Attribute) and isinstance(node.func.value, ast.Name) and node.func.value.id in self.strbufs:
            nm = node.func.value.id
            cur = st.env.get(nm)
            if cur is None or not self.is_str(cur):
                raise Unsupported(f"text buffer {nm}: not a string here")
            if attr == "getvalue" and not node.args:
                return as_S(cur)
            if attr == "close" and not node.args:
                return ("k", None)
            if attr == "write" and len(node.args) == 1 and not node.keywords:
                v = self.ev(node.args[0], st)
                if not self.is_str(v):
                    v = S((("str", v),))
                st.env[nm] = as_S(cur) + as_S(v)
                self.emit(st, "assign", node, name=nm, value=st.env[nm])
                return ("k", None)
            raise Unsupported(f"text buffer {nm}: .{attr}")
        if name == "print":
            kw = {k.arg: k.value for k in node.keywords}
            fv = kw.get("file")
            if isinstance(fv, ast.Name) and fv.id in self.strbufs:
                cur = st.env.get(fv.id)
                args = [self.ev(a, st) for a in node.args]
                sep = self.ev(kw["sep"], st) if "sep" in kw else S((("lit", " "),))
                end = self.ev(kw["end"], st) if "end" in kw else S((("lit", "\n"),))
                if cur is None or not self.is_str(cur) or not isinstance(sep, S) or not isinstance(end, S) or not all(self.is_str(a) for a in args) \
                        or set(kw) - {"file", "sep", "end"}:
                    raise Unsupported(f"text buffer {fv.id}: print of something that is not text")
                text = S(())
                for i, a in enumerate(args):
                    text = text + (sep if i else S(())) + as_S(a)
                st.env[fv.id] = as_S(cur) + text + end
                self.emit(st, "assign", node, name=fv.id, value=st.env[fv.id])
                return ("k", None)
        return None

    def _call_value(self, node, st, name, recv, attr, args, kws):
        nargs = len(args)
        if attr == "get" and 1 <= nargs <= 2 and not kws and isinstance(node.func, ast.Attribute):
            tb = recv if recv is not None else (self.ev(node.func.value, st) if name is not None else None)
            if isinstance(tb, tuple) and tb[:1] == ("dict",):
                # TABLE.get(key[, default]) on a literal table: the entry, or the default when the key is none of the table's
                found = self._lookup(tb, args[0], st)
                if not (isinstance(found, tuple) and found[:1] == ("elem",) and found[1] is tb):
                    return found
                keyv = found[2]
                if all(isinstance(k_, Lin) for k_, _ in tb[1]) and isinstance(keyv, Lin) and \
                        all(self.decide(("cmp", "Eq") + tuple(sorted((k_, keyv), key=repr)), st) is False for k_, _ in tb[1]):
                    return args[1] if nargs == 2 else ("k", None)
                if all(isinstance(k_, S) and k_.text() is not None for k_, _ in tb[1]) and isinstance(keyv, S) and keyv.text() is not None:
                    return args[1] if nargs == 2 else ("k", None)
        if attr in ("get", "setdefault") and isinstance(node.func, ast.Attribute) and self._memo_name(node.func.value) is not None and 1 <= nargs <= 2 and not kws:
            mname = self._memo_name(node.func.value)
            got = self._memo_read(mname, args[0], st)
            if got is not None:
                return got
            if attr == "get":
                return args[1] if nargs == 2 else ("k", None)          # the miss (a hit returns what a miss stored, see _memo_info)
            val = args[1] if nargs == 2 else ("k", None)
            self._memo_store(mname, args[0], val, st, node)
            return val
        if name == "len" and nargs == 1:
            return self.length(args[0], st)
        if name in ("int", "float") and nargs == 1 and isinstance(args[0], Lin):
            return args[0]
        if name in ("min", "max") and nargs >= 2 and not kws:
            return mk_min(args, st.facts, name)
        if name == "range" and 1 <= nargs <= 3:
            lo = lin(args[0]) if nargs >= 2 else Lin()
            hi = lin(args[1]) if nargs >= 2 else lin(args[0])
            step = lin(args[2]) if nargs == 3 else Lin(c=1)
            return ("range", lo, hi, step)
        if name == "format" and nargs == 2 and isinstance(args[1], S) and args[1].text() is not None:
            sp = parse_spec(args[1].text())
            return S((("fv", sp.text if sp else args[1].text(), args[0], role_of(node.args[0])),))
        if name in ("np.size", "numpy.size") and nargs == 2 and is_int_const(args[1]):
            return lin(("len", origin(args[0]))) if ival(args[1]) == 0 else lin(("dim", origin(args[0]), ival(args[1])))
        if name in ("np.size", "numpy.size") and nargs == 1:
            return lin(("len", origin(args[0])))
        if name in ("types.SimpleNamespace", "SimpleNamespace") and not args:
            return ("obj", "SimpleNamespace", tuple(kws.items()))
        if name == "slice" and 1 <= nargs <= 3 and not kws:
            lo = Lin() if nargs == 1 or args[0] == ("k", None) else args[0]
            hi = args[0] if nargs == 1 else args[1]
            step = Lin(c=1) if nargs < 3 or args[2] == ("k", None) else args[2]
            return ("sl", lo, hi if hi != ("k", None) else ("k", None), step)          # slice(a, b, c) used as an index is [a:b:c]
        if name in ("zip", "enumerate"):
            return ("op", name, tuple(args)) if not kws else ("op", name, tuple(args), tuple(sorted(kws.items())))
        if name in IDENT_CALLS and name.split(".")[-1].startswith("atleast_") and nargs > 1 and not kws:
            return ("tuple", tuple(("op", name, (a,)) for a in args))      # np.atleast_1d(t, d) -> [atleast_1d(t), atleast_1d(d)]
        if name in ("functools.partial", "partial") and nargs >= 1 and isinstance(args[0], tuple) and args[0][:1] in (("sym",), ("func",), ("lambda",), ("partial",), ("closure",)):
            return ("partial", args[0], tuple(args[1:]), tuple(sorted(kws.items())))
        if name == "divmod" and nargs == 2 and is_int_const(lin(args[1])) and ival(lin(args[1])) > 0:
            k = ival(lin(args[1]))
            return ("tuple", (floordiv(args[0], k), mod(args[0], k)))
        if attr in ("ljust", "rjust", "center") and nargs == 1 and is_int_const(lin(args[0])) and not kws:
            if recv is None and name is not None:
                recv = self.ev(node.func.value, st)
            if self.is_str(recv):
                al = {"ljust": "<", "rjust": ">", "center": "^"}[attr]
                if isinstance(recv, S) and len(recv.p) == 1 and recv.p[0][0] == "fv" and recv.p[0][1] == "":
                    return S((("fv", f"{al}{ival(lin(args[0]))}", recv.p[0][2], recv.p[0][3]),))        # str(x).rjust(n)
                return S((("fv", f"{al}{ival(lin(args[0]))}s", recv, role_of(node.func.value)),))
        conc = lambda x: isinstance(x, tuple) and x[:1] == ("tuple",) and not any(isinstance(y, tuple) and y[:1] == ("star",) for y in x[1])
        if name in ("itertools.chain.from_iterable", "chain.from_iterable") and nargs == 1 and conc(args[0]) and all(conc(x) for x in args[0][1]):
            return ("tuple", tuple(y for x in args[0][1] for y in x[1]))          # known lists chained: one known list
        if name in ("itertools.chain", "chain") and nargs >= 1 and not kws and all(conc(x) for x in args):
            return ("tuple", tuple(y for x in args for y in x[1]))
        if name in ("any", "all") and nargs == 1 and not kws and isinstance(args[0], tuple) and args[0][:1] == ("tuple",) \
                and not any(isinstance(x, tuple) and x[:1] == ("star",) for x in args[0][1]):
            # any / all over items that are known one by one: the disjunction / conjunction of their truth values
            ts = []
            for x in args[0][1]:
                if isinstance(x, Lin):
                    x = ("k", x.c != 0) if x.is_const() else ("not", ("cmp", "Eq") + tuple(sorted((Lin(), x), key=repr)))
                elif isinstance(x, S):
                    r_ = truth(x, {})
                    if r_ is None:
                        ts = None
                        break
                    x = ("k", r_)
                ts.append(x)
            if ts is not None:
                kind = "or" if name == "any" else "and"
                decided = [truth(x, {}) for x in ts]
                if any(r_ is (kind == "or") for r_ in decided):
                    return ("k", kind == "or")
                ts = [x for x, r_ in zip(ts, decided) if r_ is None]
                if not ts:
                    return ("k", kind == "and")
                return ts[0] if len(ts) == 1 else ("bool", kind, tuple(ts))
        if name == "bool" and nargs == 1 and not kws:
            return args[0] if not isinstance(args[0], (Lin, S)) else ("not", ("cmp", "Eq", Lin(), args[0])) if isinstance(args[0], Lin) else ("k", bool(args[0].p))
        if name == "map" and nargs >= 2 and not kws and isinstance(args[0], tuple) and args[0][:1] == ("attr",) and args[0][2] == "format" and self.is_str(args[0][1]):
            # map(template.format, a, b)  is  (template.format(x, y) for x, y in zip(a, b))
            if all(conc(a) for a in args[1:]) and len({len(a[1]) for a in args[1:]}) == 1:
                return ("tuple", tuple(self.format(as_S(args[0][1]), [a[1][i] for a in args[1:]], {}, node, st) for i in range(len(args[1][1]))))
            self.loopseq += 1
            lid = self.loopseq
            k = ("sym", f"<k>@L{lid}")
            it = ("op", "zip", tuple(args[1:])) if nargs > 2 else args[1]
            elems = tuple(("elem", a, lin(k)) for a in args[1:])
            elt = self.format(as_S(args[0][1]), list(elems), {}, node, st)
            return ("comp", elt, it, ("tuple", elems) if nargs > 2 else elems[0], lid)
        if name == "str" and nargs == 1 and not kws:
            if isinstance(args[0], S):
                return args[0]
            return S((("fv", "", args[0], role_of(node.args[0])),))
        if isinstance(node.func, ast.Name):
            bound = st.env.get(node.func.id)
            if isinstance(bound, tuple) and bound[:1] == ("attr",) and bound[2] == "format" and self.is_str(bound[1]):
                return self.format(as_S(bound[1]), args, kws, node, st)          # fmt = "{:16d}".format ... fmt(x)
        if attr == "format" and recv is None and name is not None:
            recv = self.ev(node.func.value, st)
        if attr == "format" and recv is not None and self.is_str(recv):
            return self.format(as_S(recv), args, kws, node, st)
        if attr in ("rstrip", "lstrip", "strip", "format_map", "translate", "removesuffix", "removeprefix") and recv is None and name is not None \
                and isinstance(node.func, ast.Attribute):
            recv = self.ev(node.func.value, st)
        if attr in ("rstrip", "lstrip", "strip") and isinstance(recv, S) and nargs <= 1 and not kws and (nargs == 0 or (isinstance(args[0], S) and args[0].text() is not None)):
            r_ = self._strip(recv, attr, args[0].text() if nargs else None)
            if r_ is not None:
                return r_
        if attr == "format_map" and isinstance(recv, S) and nargs == 1 and not kws and isinstance(args[0], tuple) and args[0][:1] == ("dict",) \
                and all(isinstance(k_, S) and k_.text() is not None for k_, _ in args[0][1]):
            return self.format(recv, [], {k_.text(): v_ for k_, v_ in args[0][1]}, node, st)          # template.format(**mapping)
        if name == "str.maketrans" and nargs == 2 and not kws and all(isinstance(a, S) and a.text() is not None for a in args) and len(args[0].text()) == len(args[1].text()):
            return ("maketrans", args[0].text(), args[1].text())
        if attr == "translate" and recv is not None and nargs == 1 and not kws and isinstance(args[0], tuple) and args[0][:1] == ("maketrans",):
            # a table of single characters: the replacements one after the other (exact when no character is both replaced and a replacement)
            src, dst = args[0][1], args[0][2]
            pairs = [(a, b) for a, b in zip(src, dst) if a != b]
            if not (set(a for a, _ in pairs) & set(b for _, b in pairs)) and len(set(src)) == len(src):
                out = recv
                for a, b in pairs:
                    if isinstance(out, S) and out.text() is not None:
                        out = S((("lit", out.text().replace(a, b)),))
                    else:
                        out = ("op", ".replace", (out, S((("lit", a),)), S((("lit", b),))))
                return out
        if attr == "join" and nargs == 1 and not kws:
            if recv is None and name is not None:
                recv = self.ev(node.func.value, st)
            if isinstance(recv, S) and recv.text() is not None:
                x = args[0]
                if isinstance(x, tuple) and x and x[0] == "tuple" and all(self.is_str(e) for e in x[1]):
                    parts = []
                    for i, e in enumerate(x[1]):
                        if i:
                            parts.append(("lit", recv.text()))
                        parts.extend(as_S(e).p)
                    return S(parts)
                if isinstance(x, tuple) and x and x[0] == "tuple" and recv.text() == "" and all(
                        self.is_str(e) or (isinstance(e, tuple) and e[:1] == ("star",) and isinstance(e[1], tuple) and e[1][:1] == ("comp",)) for e in x[1]):
                    parts = []                     # "".join(known strings and generated strings)
                    for e in x[1]:
                        if self.is_str(e):
                            parts.extend(as_S(e).p)
                        else:
                            parts.append(("join", "", e[1]))
                    return S(parts)
                if isinstance(x, tuple) and x[:1] == ("built",):
                    x = _built_as_comp(x)
                if isinstance(x, tuple) and x and x[0] == "comp":
                    return S((("join", recv.text(), x),))
        if attr == "_replace" and isinstance(recv, tuple) and recv[:1] == ("obj",) and not args:
            return ("obj", recv[1], tuple((k_, kws.get(k_, v_)) for k_, v_ in recv[2]))
        if attr == "transpose" and recv is not None and not args:
            return ("op", "T", (recv,))
        if name in ("np.transpose", "numpy.transpose") and nargs == 1:
            return ("op", "T", (args[0],))
        if recv is not None:
            return ("op", "." + attr, (recv,) + tuple(args)) if not kws else ("op", "." + attr, (recv,) + tuple(args), tuple(sorted(kws.items(), key=lambda kv: kv[0])))
        nm = name or ast.unparse(node.func)
        if isinstance(st.env.get(nm), tuple) and st.env.get(nm)[0] == "func":
            nm = "local:" + nm
        if not args and not kws:
            # a call without arguments makes a new object (set(), list(), a factory): two call sites are two objects
            return ("op", nm, (), (("@site", Lin(c=getattr(node, "lineno", 0) * 1000 + getattr(node, "col_offset", 0))),))
        return ("op", nm, tuple(args)) if not kws else ("op", nm, tuple(args), tuple(sorted(kws.items(), key=lambda kv: kv[0])))

    def _strip(self, v, how, chars):
        """S.rstrip / lstrip / strip(chars) when the end(s) concerned are literal text that is not stripped away entirely (what lies further in - a field,
        an opaque piece - is then never reached); None when that cannot be said"""
        if v.text() is not None:
            return S((("lit", getattr(v.text(), how)(chars)),))
        parts = list(v.p)
        if how in ("rstrip", "strip"):
            if not parts or parts[-1][0] != "lit":
                return None
            t = parts[-1][1].rstrip(chars)
            if not t:
                return None
            parts[-1] = ("lit", t)
        if how in ("lstrip", "strip"):
            if not parts or parts[0][0] != "lit":
                return None
            t = parts[0][1].lstrip(chars)
            if not t:
                return None
            parts[0] = ("lit", t)
        return S(parts)

    def _pin(self, v):
        if self.pins and isinstance(v, Lin):
            for at, val in self.pins.items():
                if at in v.t:
                    v = v - Lin({at: v.t[at]}) + Lin(c=val * v.t[at])
        return v

    def length(self, v, st):
        return self._pin(self._length(v, st))

    def _length(self, v, st):
        if isinstance(v, S):
            w = self.width(v)
            if w is not None:
                return w
            return lin(("len", v))
        if isinstance(v, tuple) and v and v[0] == "tuple" and not any(isinstance(x, tuple) and x and x[0] == "star" for x in v[1]):
            return Lin(c=len(v[1]))
        if isinstance(v, tuple) and v and v[0] == "slice":
            n = self.slice_len(v, st.facts)
            if n is not None:
                return n
            return lin(("len", v))
        if isinstance(v, tuple) and v[:1] == ("range",) and is_int_const(v[3]) and ival(v[3]) > 0:
            k = ival(v[3])
            return mk_min([Lin(), floordiv(lin(v[2]) - lin(v[1]) + (k - 1), k)], st.facts, "max")      # len(range(lo, hi, k)) = max(0, ceil((hi - lo) / k))
        if isinstance(v, tuple) and v[:2] == ("op", "T") and len(v[2]) == 1:
            return lin(("dim", origin(v[2][0]), 1))         # the rows of m.T are the columns of m
        if isinstance(v, tuple) and v and v[0] == "elem" and isinstance(v[2], Lin):
            if isinstance(v[1], tuple) and v[1][:2] == ("op", "T") and len(v[1][2]) == 1:
                return lin(("len", origin(v[1][2][0])))     # a row of m.T is a column of m
            return lin(("dim", origin(v[1]), 1))          # the length of a row of a 2-D array
        if isinstance(v, tuple) and v and v[0] == "elem" and isinstance(v[2], tuple) and v[2][:1] == ("tuple",) and len(v[2][1]) == 2:
            full = ("sl", Lin(), ("k", None), Lin(c=1))
            i0, i1 = v[2][1]
            if i0 == full and not (isinstance(i1, tuple) and i1[:1] == ("sl",)):
                return lin(("len", origin(v[1])))           # a column m[:, j]
            if isinstance(i0, tuple) and i0[:1] == ("sl",) and not (isinstance(i1, tuple) and i1[:1] == ("sl",)):
                n = self.slice_len(("slice", ("elem", v[1], ("tuple", (full, i1))), i0[1], i0[2], i0[3]), st.facts)       # part of a column m[a:b, j]
                if n is not None:
                    return n
            if i1 == full and not (isinstance(i0, tuple) and i0[:1] == ("sl",)):
                return lin(("dim", origin(v[1]), 1))         # a row m[i, :]
        return lin(("len", origin(v)))

    def slice_len(self, v, facts):
        """length of base[lo:hi:step] for 0 <= lo, positive constant step (negative `hi` counts from the end)"""
        base, lo, hi, step = v[1], v[2], v[3], v[4]
        if not is_int_const(step) or ival(step) < 1:
            return None
        n = self._length(base, State(facts=facts))        # the sliced object: a sequence, a slice, a column of a matrix, ...
        if n is None:
            return None
        lo = lin(lo)
        if _is_k(hi) and hi[1] is None:
            end = n
        else:
            hi = lin(hi)
            if hi.is_const() and hi.c < 0:
                end = n + hi
            else:
                end = mk_min([hi, n], facts)
        d = end - lo
        k = ival(step)
        if k == 1:
            return d
        return floordiv(d + (k - 1), k)

    def width(self, s):
        """number of characters of a rendered string when every formatted value fits its field; None if unknown"""
        tot = Lin()
        for x in s.p:
            if x[0] == "lit":
                tot = tot + len(x[1])
            elif x[0] == "fv":
                sp = parse_spec(x[1]) if x[1] is not None else None
                if sp is None or sp.width is None:
                    return None
                tot = tot + sp.width
            elif x[0] == "fmt":
                tot = tot + lin(("flen", x[1], len(x[2])))
            elif x[0] == "rep":
                w = self.width(x[1])
                if w is None:
                    return None
                tot = tot + w * x[2]
            else:
                return None
        return tot

    _NESTED = re.compile(r"\{[^{}]*:[^{}]*\{[^{}]*\}[^{}]*\}")

    def _flatten_nested_specs(self, tmpl, args, kws):
        """"{:<8s}{:{}d}".format(a, b, 16): a replacement field inside a format spec takes an argument of its own (numbered in the order the braces
        open).  When those arguments are constants the template is rewritten without them - "{0:<8s}{1:16d}" - and (template, number of arguments the
        original consumes) is returned; None when there is nothing nested or a nested argument is not a constant."""
        txt = tmpl.text()
        if txt is None or not self._NESTED.search(txt.replace("{{", "").replace("}}", "")):
            return None
        if any(isinstance(a, tuple) and a[:1] == ("star",) for a in args):
            return None
        out, i, auto, n = [], 0, 0, len(txt)

        def value_text(name):
            nonlocal auto
            if name == "":
                k = auto
                auto += 1
            elif name.isdigit():
                k = int(name)
            else:
                v = kws.get(name)
                k = None
            if k is not None:
                v = args[k] if k < len(args) else None
            if isinstance(v, Lin) and v.is_const() and v.c.denominator == 1:
                return str(int(v.c))
            if isinstance(v, S) and v.text() is not None:
                return v.text()
            return None
        while i < n:
            c = txt[i]
            if txt.startswith("{{", i) or txt.startswith("}}", i):
                out.append(txt[i:i + 2])
                i += 2
                continue
            if c != "{":
                out.append(c)
                i += 1
                continue
            j = i + 1
            while j < n and txt[j] not in ":!}{":
                j += 1
            name = txt[i + 1:j]
            if name == "":
                name_out = str(auto)
                auto += 1
            else:
                name_out = name
            conv = ""
            if j < n and txt[j] == "!":
                conv = txt[j:j + 2]
                j += 2
            spec = ""
            if j < n and txt[j] == ":":
                j += 1
                while j < n and txt[j] != "}":
                    if txt[j] == "{":
                        k = txt.find("}", j)
                        if k < 0:
                            return None
                        inner = txt[j + 1:k]
                        if ":" in inner or "!" in inner or "{" in inner:
                            return None
                        rep = value_text(inner)
                        if rep is None:
                            return None
                        spec += rep
                        j = k + 1
                    else:
                        spec += txt[j]
                        j += 1
            if j >= n or txt[j] != "}":
                return None
            out.append("{" + name_out + conv + (":" + spec if spec else "") + "}")
            i = j + 1
        return S((("lit", "".join(out)),)), auto

    def format(self, tmpl, args, kws, node, st):
        """tmpl.format(*args)"""
        flat = self._flatten_nested_specs(tmpl, args, kws)
        if flat is not None:
            tmpl2, used = flat
            res = self.format(tmpl2, args, kws, node, st)
            for e in reversed(st.events):
                if e.kind == "format" and e.d.get("value") is res:
                    e.d["nfields"], e.d["template"] = Lin(c=used), tmpl
                    break
            return res
        if len(tmpl.p) == 1 and tmpl.p[0][0] == "str":
            # an opaque template (the parameter `form`): keep the application
            res = S((("fmt", tmpl.p[0][1], tuple(args)),))
            self.emit(st, "format", node, template=tmpl, items=None, args=args, nfields=None, value=res)
            return res
        items = template_items(tmpl)
        nfields = count_fields(items)
        argnodes = list(node.args)
        parts = []
        state = {"i": 0, "starred": False}
        # text + k copies of one opaque template (head + form * k + "\n") given k * m values: each copy renders m of them, in order
        subs = [it for it in items if it[0] == "sub"]
        if subs and all(it[0] in ("text", "sub") for it in items) and len({it[1] for it in subs}) == 1 and not kws and args \
                and len(args) % len(subs) == 0 and not any(isinstance(a, tuple) and a[:1] == ("star",) for a in args):
            m_ = len(args) // len(subs)
            i_ = 0
            for it in items:
                if it[0] == "text":
                    parts.append(("lit", it[1]))
                else:
                    parts.append(("fmt", it[1], tuple(args[i_:i_ + m_])))
                    i_ += m_
            res = S(parts)
            self.emit(st, "format", node, template=tmpl, items=items, args=args, nfields=nfields, nargs=Lin(c=len(args)), value=res)
            return res

        def bind(items):
            for it in items:
                if it[0] == "text":
                    parts.append(("lit", it[1]))
                elif it[0] == "field":
                    v, role = None, "expr"
                    nm = it[2]
                    tail = ""
                    mm = re.match(r"^(\d*)((?:\.\w+)+)$", nm)
                    if mm:
                        nm, tail = mm.group(1), mm.group(2)          # {0.real} / {.imag}: an attribute of the argument
                    if nm == "" or nm.isdigit():
                        i = int(nm) if nm.isdigit() else state["i"]
                        if nm == "":
                            state["i"] += 1
                        if not state["starred"] and i < len(args):
                            if isinstance(args[i], tuple) and args[i] and args[i][0] == "star":
                                state["starred"] = True
                                v = ("elem", args[i][1], Lin())
                                role = "expr"
                            else:
                                v = args[i]
                                role = role_of(argnodes[i]) if i < len(argnodes) else "expr"
                    else:
                        root = re.split(r"[.\[]", nm)[0]
                        v = kws.get(root)
                    if tail and v is not None:
                        for a_ in tail.strip(".").split("."):
                            v = ("attr", v, a_)
                        role = "expr"
                    if v is not None and it[1] is not None and it[1].text in ("", "s") and self.is_str(v):
                        parts.extend(as_S(v).p)             # a string put into a plain field is that string (it may itself be a template)
                        continue
                    parts.append(("fv", it[1].text if it[1] is not None else None, v, role))
                elif it[0] == "sub":
                    parts.append(("fmt", it[1], ()))
                    state["starred"] = True
                elif it[0] == "rep":
                    sub_before = len(parts)
                    state["starred"] = True
                    inner = []
                    for jt in it[1]:
                        if jt[0] == "text":
                            inner.append(("lit", jt[1]))
                        elif jt[0] == "field":
                            inner.append(("fv", jt[1].text if jt[1] is not None else None, None, "expr"))
                        elif jt[0] == "sub":
                            inner.append(("fmt", jt[1], ()))
                    parts.append(("rep", S(inner), it[2]))
                elif it[0] == "done":
                    parts.append(it[1])
        bind(items)
        res = S(parts)
        # number of positional arguments supplied
        nargs = Lin()
        for a in args:
            if isinstance(a, tuple) and a and a[0] == "star":
                n = self.length(a[1], st)
                nargs = nargs + n
            else:
                nargs = nargs + 1
        self.emit(st, "format", node, template=tmpl, items=items, args=args, nfields=nfields, nargs=nargs, value=res)
        return res


def _built_as_comp(b):
    """a list filled by one append per pass of a `for ... in range(...)` loop, seen as the comprehension over that range it spells"""
    if isinstance(b, tuple) and b[:1] == ("built",) and len(b) > 3 and b[3] is not None:
        return ("comp", b[1], b[3], lin(("sym", f"<i>@L{b[2]}")), b[2])
    return b


def _intlike(v):
    """a value that stands for an integer: a linear form, or a plain symbol (a loop variable of an enclosing loop, a parameter)"""
    return isinstance(v, Lin) or (isinstance(v, tuple) and v[:1] == ("sym",))


def _divisible(v, k):
    """the integer linear form is a multiple of k whatever its (integer) atoms are"""
    v = lin(v)
    if v.c.denominator != 1 or int(v.c) % k:
        return False
    for at, coef in v.t.items():
        if coef.denominator != 1 or int(coef) % k:
            return False
        if not (isinstance(at, tuple) and at and at[0] in ("sym", "len", "dim", "fd", "flen", "min", "max")):
            return False
    return True


def _truthlike(v):
    """a value that can only be meant as a truth value when it indexes a pair: a comparison, a boolean combination, the result of a call"""
    return isinstance(v, tuple) and v[:1] in (("cmp",), ("not",), ("bool",), ("in",), ("op",))


def _is_test_node(n):
    """an expression whose value is a truth value"""
    return isinstance(n, (ast.Compare, ast.BoolOp)) or (isinstance(n, ast.UnaryOp) and isinstance(n.op, ast.Not))


def _num(v):
    if isinstance(v, Lin):
        return v
    if _is_k(v) and isinstance(v[1], float) and v[1] == int(v[1]):
        return Lin(c=int(v[1]))
    return lin(v)


def _as_load(t):
    import copy
    n = copy.copy(t)
    n.ctx = ast.Load()
    return n


# ====================================================================================================================== text lines
def split_lines(parts):
    """a string value (tuple of S parts) -> list of physical lines, each a list of parts without newlines; the flag tells whether the
    last line is terminated"""
    lines = [[]]
    for x in parts:
        if x[0] == "lit":
            segs = x[1].split("\n")
            for i, sg in enumerate(segs):
                if i > 0:
                    lines.append([])
                if sg:
                    lines[-1].append(("lit", sg))
        else:
            lines[-1].append(x)
    terminated = not lines[-1]
    if terminated:
        lines.pop()
    return lines, terminated
