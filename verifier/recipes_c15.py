"""Self-test recipes of C15 (same tuple format as selftest.RECIPES): behaviour-preserving rewrites the value-level rules must accept and
behaviour-breaking edits each obligation must report."""

FRC = "pyyeti/frclim.py"
CB = "pyyeti/cb.py"

_NT_LOOP = '''    for j in range(c):
        Ms = SAM[:, j, :]
        Ml = LAM[:, j, :]
        Mr = la.solve(Ms + Ml, Ms)
        A[:, j] = Mr @ As[:, j]
        F[:, j] = Ml @ A[:, j]
        R[:, j] = np.diag(Mr)
'''

_NT_WHILE = '''    k = 0
    while k < c:
        am_l = LAM[:, k]
        am_s = SAM[..., k, :]
        ratio = np.linalg.solve(am_l + am_s, am_s)
        acc_k = np.dot(ratio, As[:, k])
        A[:, k] = acc_k
        R[:, k] = ratio.diagonal()
        F[:, k] = am_l @ acc_k
        k += 1
'''

_NT_EINSUM = '''    for j in range(c):
        Ms = SAM[:, j, :]
        Ml = LAM[:, j, :]
        Mr = la.solve(Ms + Ml, Ms)
        A[:, j] = Mr @ As[:, j]
        R[:, j] = np.diag(Mr)
    F = np.einsum("ijk,kj->ij", LAM, A)
'''

_NT_EINSUM_T = _NT_EINSUM.replace("ijk,kj->ij", "kji,kj->ij")

_NT_HELPER = '''    def one_frequency(Ms, Ml, as_j):
        Mr = la.solve(Ms + Ml, Ms)
        a_j = Mr @ as_j
        return a_j, Ml @ a_j, np.diag(Mr)

    for j, (Ms, Ml) in enumerate(zip(np.moveaxis(SAM, 1, 0), np.moveaxis(LAM, 1, 0))):
        A[:, j], F[:, j], R[:, j] = one_frequency(Ms, Ml, As[:, j])
'''

_INV_LOOP = '''        for j in range(lf):
            AM[:, j, :] = la.inv(Acc[:, j, :])
'''

RECIPES = [
    # ---- breaks: one per obligation kind
    ("C15", "break", ["C15-R1"], FRC, "            Frc[direc, :] = 0.0\n", "", "unit force of the previous boundary DOF is never reset"),
    ("C15", "break", ["C15-R1"], FRC, "            sol = fs.fsolve(T.T @ Frc, freq)", "            sol = fs.fsolve(la.pinv(T) @ Frc, freq)",
     "boundary force expanded with the pseudo-inverse instead of the transpose of the recovery matrix"),
    ("C15", "break", ["C15-R1"], FRC, "            Acc[:, :, direc] = T @ sol.a", "            Acc[:, :, direc] = T @ sol.d", "accelerance from the displacement"),
    ("C15", "break", ["C15-R1"], FRC, "        Acc = np.empty((r, lf, r), dtype=complex)", "        shp = (lf, r, r)\n        Acc = np.empty(shp, dtype=complex)",
     "accelerance allocated with the frequency on axis 0"),
    ("C15", "break", ["C15-R1"], FRC, "            Acc[:, :, direc] = T @ sol.a", "            Acc[:, direc] = T @ sol.a", "column of the accelerance written on the frequency axis"),
    ("C15", "break", ["C15-R1"], FRC, _INV_LOOP, "        for j in range(r):\n            AM[..., j] = la.inv(Acc[..., j])\n", "inverse taken per direction instead of per frequency"),
    ("C15", "break", ["C15-R1"], FRC, "acce[direc, :]", "acce[0, :]", "unit acceleration always on the first boundary DOF"),
    ("C15", "break", ["C15-R1"], FRC, "            AM[:, :, direc] = tf.frc", "            AM[:, :, direc] = tf.frc.T", "cbtf force transposed"),
    ("C15", "break", ["C15-R1"], CB, "    bset = np.atleast_1d(bset).ravel()\n    lt = m.shape[0]", "    bset = np.sort(np.atleast_1d(bset).ravel())\n    lt = m.shape[0]",
     "partition vector silently sorted while the rows of `a` stay in the caller's order"),
    ("C15", "break", ["C15-R1"], CB, "+ k[bb] @ displ[bset]", "- k[bb] @ displ[bset]", "sign of the stiffness term of the boundary force"),
    ("C15", "break", ["C15-R1"], CB, "        accel[bset] = a\n", "        accel[bset] = -(Omega ** 2) * displ[bset]\n", "boundary acceleration derived from the displacement"),
    ("C15", "break", ["C15-R2"], FRC, "        F[:, j] = Ml @ A[:, j]", "        F[:, j] = Ml.T @ A[:, j]", "force from the transposed load apparent mass"),
    ("C15", "break", ["C15-R2"], FRC, _NT_LOOP, _NT_EINSUM_T, "vectorised force with response and input axes of the load apparent mass swapped"),
    ("C15", "break", ["C15-R2"], FRC, "    As = np.atleast_2d(As)\n", "    As = np.atleast_2d(As).T\n", "free acceleration re-oriented"),
    ("C15", "break", ["C15-R2"], FRC, "    As = np.atleast_2d(As)\n", "", "array_like free acceleration no longer converted"),
    ("C15", "break", ["C15-R2"], FRC, "    if isinstance(Load, (list, tuple)):", "    if isinstance(Source, (list, tuple)):", "Load routed by the type of Source"),
    ("C15", "break", ["C15-R2"], FRC, "    for j in range(c):", "    for j in range(r):", "loop over the interface size instead of the frequencies"),
    ("C15", "break", ["C15-R2"], FRC, "    if not len(freq) == As.shape[1] == SAM.shape[1] == LAM.shape[1]:", "    if not len(freq) == As.shape[1] == SAM.shape[1]:",
     "size check without the load"),
    ("C15", "break", ["C15-R2"], FRC, "        A[:, j] = Mr @ As[:, j]", "        A[:, j] = Mr @ As[j, :]", "row of the free acceleration"),
    ("C15", "break", ["C15-R1"], FRC, "fs = ode.FreqDirect(m, b, k)", "fs = ode.FreqDirect(m, k, b)", "fall-back solver built with damping and stiffness swapped"),
    ("C15", "break", ["C15-R1"], FRC, "fs = ode.SolveUnc(m, b, k, pre_eig=True)", "fs = ode.SolveUnc(m, k=b, b=k, pre_eig=True)", "default solver: keywords crossed"),
    # ---- neutral: spelling the same computation differently
    ("C15", "neutral", [], FRC, "fs = ode.FreqDirect(m, b, k)", "fs = ode.FreqDirect(k=S[2], m=S[0], b=S[1])", "fall-back solver built with keywords"),
    ("C15", "neutral", [], FRC, _NT_LOOP, _NT_WHILE, "ntfl loop as a counted while loop, renamed temporaries, `...`/short subscripts, np.dot, np.linalg.solve"),
    ("C15", "neutral", [], FRC, _NT_LOOP, _NT_EINSUM, "force vectorised with the documented einsum"),
    ("C15", "neutral", [], FRC, _NT_LOOP, _NT_HELPER, "loop body as a closure over moveaxis views"),
    ("C15", "neutral", [], FRC, "            Acc[:, :, direc] = T @ sol.a", "            Acc[..., direc] = np.dot(T, sol.a)", "ellipsis subscript, np.dot"),
    ("C15", "neutral", [], FRC, _INV_LOOP, "        for j, acc_j in enumerate(np.swapaxes(Acc, 0, 1)):\n            AM[:, j] = la.inv(acc_j)\n", "iteration over a swapaxes view"),
    ("C15", "neutral", [], FRC, _INV_LOOP, "        inv_all = [la.inv(Acc[:, j]) for j in range(lf)]\n        for j in range(lf):\n            AM[:, j, :] = inv_all[j]\n",
     "inverses collected by a comprehension first"),
    ("C15", "neutral", [], FRC, "        Acc = np.empty((r, lf, r), dtype=complex)", "        shp = (len(T), len(freq), T.shape[0])\n        Acc = np.empty(shp, dtype=complex)",
     "shape tuple held by a temporary, interface size spelled as len / shape[0]"),
    ("C15", "neutral", [], FRC, "acce[direc, :]", "acce[:, direc]", "column instead of row of the identity"),
    ("C15", "neutral", [], FRC, "    if not len(freq) == As.shape[1] == SAM.shape[1] == LAM.shape[1]:",
     "    if len(freq) != As.shape[1] or LAM.shape[1] != SAM.shape[1] or As.shape[1] != LAM.shape[1]:", "size check by De Morgan, links in another order"),
    ("C15", "neutral", [], FRC, "    As = np.atleast_2d(As)\n", "    free_acc = np.atleast_2d(np.asarray(As))\n    As = free_acc\n", "conversion through a temporary"),
    ("C15", "neutral", [], CB, "        accel[bset] = a\n        accel[qset] = sol.a\n", "        accel[qset, :] = sol.a\n        accel[bset, :] = a\n", "stores reordered, explicit column slice"),
    ("C15", "neutral", [], CB, "frc = m[bset] @ accel + b[bset] @ veloc + k[bb] @ displ[bset]",
     "frc = k[bb] @ displ[bset, :] + np.dot(b[bset, :], veloc) + m[bset] @ accel", "terms of the boundary force commuted"),
]


# ---------------------------------------------------------------------------------------------------------------------------------
# second hardening pass: whole-body rewrites of the kinds met in the neutral patches N5-N8 (control flow, flags, guard clauses, views,
# closures, records, aliases) and breaks hidden inside such rewrites.  The old text is the body of the function as it is today.
_CALCAM = '''    lf = len(freq)
    m = S[0]
    b = S[1]
    k = S[2]
    bdof = np.atleast_1d(S[3])

    if bdof.ndim == 2:  # bdof is treated as a drm
        r = bdof.shape[0]
        T = bdof
        Frc = np.zeros((r, lf))
        Acc = np.empty((r, lf, r), dtype=complex)

        if fs is None:
            use_freqdirect = False
            try:
                fs = ode.SolveUnc(m, b, k, pre_eig=True)
            except la.LinAlgError:
                use_freqdirect = True
            else:
                if hasattr(fs.pc, "eig_success") and not fs.pc.eig_success:
                    use_freqdirect = True
            if use_freqdirect:
                warnings.warn(
                    "Switching from `SolveUnc` to `FreqDirect` because complex"
                    " eigensolver failed; see messages above. Solution may be slow.",
                    RuntimeWarning,
                )
                fs = ode.FreqDirect(m, b, k)

        for direc in range(r):
            Frc[direc, :] = 1.0
            sol = fs.fsolve(T.T @ Frc, freq)
            Acc[:, :, direc] = T @ sol.a
            Frc[direc, :] = 0.0
        AM = np.empty((r, lf, r), dtype=complex)
        for j in range(lf):
            AM[:, j, :] = la.inv(Acc[:, j, :])
    else:  # bdof treated as a partition vector for CB model
        r = len(bdof)
        acce = np.eye(r)
        # Perform Baseshake
        # cbtf = craig bampton transfer function; this will genenerate
        # the corresponding interface force required to meet imposed
        # acceleration
        AM = np.empty((r, lf, r), dtype=complex)
        save = {}
        for direc in range(r):
            tf = cb.cbtf(m, b, k, acce[direc, :], freq, bdof, save)
            AM[:, :, direc] = tf.frc
    return AM
'''

_NTFL = '''    # Calculate apparent masses:
    if isinstance(Source, (list, tuple)):
        SAM = calcAM(Source, freq)
    else:
        SAM = Source

    if isinstance(Load, (list, tuple)):
        LAM = calcAM(Load, freq)
    else:
        LAM = Load

    As = np.atleast_2d(As)
    if not len(freq) == As.shape[1] == SAM.shape[1] == LAM.shape[1]:
        raise ValueError(
            "incompatible sizes: ensure that `Source`, "
            "`Load`, and `As` all use the same frequency "
            "vector `freq`"
        )

    TAM = SAM + LAM

    # Application of Norton-Thevenin equations
    r, c, _ = SAM.shape
    R = np.empty((r, c), dtype=complex)
    A = np.empty((r, c), dtype=complex)
    F = np.empty((r, c), dtype=complex)
    for j in range(c):
        Ms = SAM[:, j, :]
        Ml = LAM[:, j, :]
        Mr = la.solve(Ms + Ml, Ms)
        A[:, j] = Mr @ As[:, j]
        F[:, j] = Ml @ A[:, j]
        R[:, j] = np.diag(Mr)
    return SimpleNamespace(F=F, A=A, R=R, LAM=LAM, SAM=SAM, TAM=TAM, freq=freq)
'''

_CBTF = '''    freq = np.atleast_1d(freq).ravel()
    Omega = 2 * math.pi * freq
    lenf = len(Omega)
    a = np.atleast_1d(a)
    bset = np.atleast_1d(bset)
    if a.ndim == 1 or (a.ndim == 2 and a.shape[1] == 1):
        a = np.dot(a.reshape(-1, 1), np.ones((1, lenf)))
    r, c = a.shape
    if c != lenf:
        raise ValueError("`a` is not compatibly sized with `freq`")
    if r != len(bset):
        raise ValueError("number of rows in `a` not compatible with `bset`")
    frc = np.zeros((r, lenf), dtype=complex)
    bset = np.atleast_1d(bset).ravel()
    lt = m.shape[0]
    qset = locate.flippv(bset, lt)

    pvnz = Omega != 0.0
    if qset.size == 0:
        accel = a.copy()
        displ = np.zeros(a.shape, dtype=complex)
        displ[:, pvnz] = -accel[:, pvnz] / Omega[pvnz] ** 2
        veloc = 1j * (Omega * displ)
        frc = m @ accel + b @ veloc + k @ displ
    else:
        tf = None
        if isinstance(save, abc.MutableMapping):
            try:
                tf = save["tf"]
            except KeyError:
                pass
        if tf is None:
            qq = np.ix_(qset, qset)
            tf = ode.SolveUnc(m[qq], b[qq], k[qq], rb=[])
            if isinstance(save, abc.MutableMapping):
                save["tf"] = tf

        bb = np.ix_(bset, bset)
        qb = np.ix_(qset, bset)
        v = np.zeros(a.shape, dtype=complex)
        v[:, pvnz] = 1j * a[:, pvnz] / Omega[pvnz]
        f = b[qb] @ v - m[qb] @ a
        sol = tf.fsolve(f, freq)

        displ = np.zeros((lt, lenf), dtype=complex)
        accel = displ.copy()
        displ[np.ix_(bset, pvnz)] = -a[:, pvnz] / Omega[pvnz] ** 2
        displ[qset] = sol.d
        veloc = 1j * (Omega * displ)
        accel[bset] = a
        accel[qset] = sol.a
        frc = m[bset] @ accel + b[bset] @ veloc + k[bb] @ displ[bset]
    return SimpleNamespace(frc=frc, a=accel, d=displ, v=veloc, freq=freq, f=freq)
'''

RECIPES += [
    ("C15", "neutral", [], FRC, _CALCAM,
     '''    lf = len(freq)
    m, b, k, bdof = S[0], S[1], S[2], np.atleast_1d(S[3])
    is_drm = 2 == bdof.ndim
    if not is_drm:
        r = len(bdof)
        AM = np.empty((r, lf, r), dtype=complex)
        save = {}
        acce = np.eye(r)
        direc = 0
        while direc != r:
            AM[:, :, direc] = getattr(cb.cbtf(m, b, k, acce[direc], freq, bdof, save), "frc")
            direc += 1
        return AM
    T = bdof
    r = T.shape[0]
    if fs is not None:
        pass
    else:
        try:
            fs = ode.SolveUnc(m, b, k, pre_eig=True)
            failed = hasattr(fs.pc, "eig_success") and not fs.pc.eig_success
        except la.LinAlgError:
            failed = True
        if failed:
            warnings.warn(
                "Switching from `SolveUnc` to `FreqDirect` because complex"
                " eigensolver failed; see messages above. Solution may be slow.",
                RuntimeWarning,
            )
            fs = ode.FreqDirect(m, b, k)
    Frc = np.zeros((r, lf))
    Acc = np.empty((r, lf, r), dtype=complex)
    for direc, row in enumerate(Frc):
        row[:] = 1.0
        Acc[:, :, direc] = T @ fs.fsolve(T.T @ Frc, freq).a
        row[:] = 0.0
    AM = np.empty_like(Acc)
    j = 0
    while j < lf:
        AM[:, j, :] = la.inv(Acc[:, j, :])
        j += 1
    return AM
''',
     'calcAM: boolean flag with mirrored comparison, partition-vector arm as an early return, counted while loops, try/except flag, rows of Frc written through a view, getattr'),
    ("C15", "neutral", [], FRC, _CALCAM,
     '''    lf = len(freq)
    model = dict(zip(("m", "b", "k"), (S[0], S[1], S[2])))
    bdof = np.atleast_1d(S[3])
    nb = bdof.shape[0]
    shape = (nb, lf, nb)
    AM = np.empty(shape, dtype=complex)
    if len(bdof.shape) != 2:
        save = {}
        for direc, unit in enumerate(np.eye(nb)):
            AM[..., direc] = cb.cbtf(a=unit, freq=freq, bset=bdof, save=save, **model).frc
    else:
        if fs is None:
            fs = None
            try:
                fs = ode.SolveUnc(pre_eig=True, **model)
            except la.LinAlgError:
                pass
            if fs is None or not getattr(fs.pc, "eig_success", True):
                warnings.warn(
                    "Switching from `SolveUnc` to `FreqDirect` because complex"
                    " eigensolver failed; see messages above. Solution may be slow.",
                    RuntimeWarning,
                )
                fs = ode.FreqDirect(**model)
        Acc = np.empty(shape, dtype=complex)
        Tt = bdof.T
        for direc in range(nb):
            Frc = np.zeros(shape[:2])
            Frc[direc, ...] = 1.0
            Acc[..., direc] = np.matmul(bdof, fs.fsolve(np.matmul(Tt, Frc), freq).a)
        for j in range(shape[1]):
            AM[:, j] = la.inv(Acc[:, j])
    return AM
''',
     'calcAM: model matrices in dict(zip(...)) passed with **, shared shape tuple, fresh unit-force matrix per DOF, np.matmul, short subscripts'),
    ("C15", "neutral", [], FRC, _CALCAM,
     '''    lf = len(freq)
    m = S[0]
    b = S[1]
    k = S[2]
    bdof = np.atleast_1d(S[3])
    r = bdof.shape[0] if bdof.ndim == 2 else len(bdof)
    AM = np.empty((r, lf, r), dtype=complex)
    if bdof.ndim == 2 and fs is None:
        use_freqdirect = False
        try:
            fs = ode.SolveUnc(m, b, k, pre_eig=True)
        except la.LinAlgError:
            use_freqdirect = True
        else:
            use_freqdirect = hasattr(fs.pc, "eig_success") and not fs.pc.eig_success
        if use_freqdirect:
            warnings.warn(
                "Switching from `SolveUnc` to `FreqDirect` because complex"
                " eigensolver failed; see messages above. Solution may be slow.",
                RuntimeWarning,
            )
            fs = ode.FreqDirect(m, b, k)
    if bdof.ndim == 2:
        T = bdof
        Frc = np.zeros((r, lf))
        Acc = np.empty((r, lf, r), dtype=complex)
        for direc in range(r):
            Frc[direc, :] = 1.0
            sol = fs.fsolve(T.T @ Frc, freq)
            Acc[:, :, direc] = T @ sol.a
            Frc[direc, :] = 0.0
        for j, acc_j in enumerate(np.transpose(Acc, (1, 0, 2))):
            AM[:, j, :] = la.inv(acc_j)
    if bdof.ndim != 2:
        acce = np.eye(r)
        save = {}
        for direc in range(r):
            tf = cb.cbtf(m, b, k, acce[direc, :], freq, bdof, save)
            AM[:, :, direc] = tf.frc
    return AM
''',
     'calcAM: branch split into separate ifs with compound tests, conditional expression for the size, np.transpose view'),
    ("C15", "neutral", [], FRC, _NTFL,
     '''    am = {}
    for name, model in (("SAM", Source), ("LAM", Load)):
        if not isinstance(model, (list, tuple)):
            am[name] = model
            continue
        am[name] = calcAM(model, freq)
    SAM, LAM = am["SAM"], am["LAM"]
    As = np.atleast_2d(As)
    nf = len(freq)
    if nf != As.shape[1] or nf != SAM.shape[1] or nf != LAM.shape[1]:
        raise ValueError(
            "incompatible sizes: ensure that `Source`, "
            "`Load`, and `As` all use the same frequency "
            "vector `freq`"
        )
    out = SimpleNamespace()
    out.TAM = SAM + LAM
    r, c = SAM.shape[:2]
    for name in ("R", "A", "F"):
        setattr(out, name, np.empty((r, c), dtype=complex))
    A = out.A
    for j in range(c):
        Ms = SAM[:, j, :]
        Ml = LAM[:, j, :]
        Mr = la.solve(Ms + Ml, Ms)
        A[:, j] = Mr @ As[:, j]
        out.F[:, j] = Ml @ A[:, j]
        out.R[:, j] = np.diag(Mr)
    out.LAM, out.SAM, out.freq = LAM, SAM, freq
    return out
''',
     'ntfl: data-driven loop with continue, attributes set on the namespace one by one / setattr, shape[:2]'),
    ("C15", "neutral", [], FRC, _NTFL,
     '''    am = {}
    for name, model in (("SAM", Source), ("LAM", Load)):
        am[name] = calcAM(model, freq) if isinstance(model, (list, tuple)) else model
    SAM, LAM = am["SAM"], am["LAM"]
    As = np.atleast_2d(As)
    sizes = (As.shape[1], SAM.shape[1], LAM.shape[1])
    if any(n != len(freq) for n in sizes):
        raise ValueError(
            "incompatible sizes: ensure that `Source`, "
            "`Load`, and `As` all use the same frequency "
            "vector `freq`"
        )
    TAM = SAM + LAM
    r, c, _ = SAM.shape
    res = dict(zip("RAF", (np.empty((r, c), dtype=complex) for _ in "RAF")))
    for j, (Ms, Ml, as_j) in enumerate(zip(np.swapaxes(SAM, 0, 1), np.swapaxes(LAM, 0, 1), As.T)):
        Mr = la.solve(Ms + Ml, Ms)
        res["A"][:, j] = a_j = Mr @ as_j
        res["F"][:, j] = Ml @ a_j
        res["R"][:, j] = np.diag(Mr)
    return SimpleNamespace(LAM=LAM, SAM=SAM, TAM=TAM, freq=freq, **res)
''',
     "ntfl: any(...) size check, dict(zip('RAF', generator)), zip over swapaxes views and As.T, chained assignment, **res"),
    ("C15", "neutral", [], FRC, _NTFL,
     '''    def _am(model):
        if isinstance(model, (list, tuple)):
            return calcAM(model, freq)
        return model

    SAM = _am(Source)
    LAM = _am(Load)
    As = np.atleast_2d(As)
    ok = len(freq) == As.shape[1]
    ok = ok and As.shape[1] == SAM.shape[1]
    ok = ok and SAM.shape[1] == LAM.shape[1]
    if ok:
        TAM = SAM + LAM
        r, c, _ = SAM.shape
        R = np.empty((r, c), dtype=complex)
        A = np.empty_like(R)
        F = np.empty_like(R)
        j = 0
        while j < c:
            Ms, Ml = SAM[:, j, :], LAM[:, j, :]
            Mr = la.solve(Ms + Ml, Ms)
            A[:, j] = Mr @ As[:, j]
            F[:, j] = Ml @ A[:, j]
            R[:, j] = np.diag(Mr)
            j += 1
        return SimpleNamespace(F=F, A=A, R=R, LAM=LAM, SAM=SAM, TAM=TAM, freq=freq)
    raise ValueError(
        "incompatible sizes: ensure that `Source`, "
        "`Load`, and `As` all use the same frequency "
        "vector `freq`"
    )
''',
     'ntfl: closure with early return, size check accumulated in a flag, main path inside the if and the raise after it, empty_like'),
    ("C15", "neutral", [], CB, _CBTF,
     '''    freq = np.atleast_1d(freq).ravel()
    Omega = 2 * math.pi * freq
    lenf = len(Omega)
    a = np.atleast_1d(a)
    bset = np.atleast_1d(bset)
    if a.ndim == 1 or (a.ndim == 2 and a.shape[1] == 1):
        a = np.dot(a.reshape(-1, 1), np.ones((1, lenf)))
    r, c = a.shape
    if c != lenf:
        raise ValueError("`a` is not compatibly sized with `freq`")
    if r != len(bset):
        raise ValueError("number of rows in `a` not compatible with `bset`")
    bset = np.atleast_1d(bset).ravel()
    lt = m.shape[0]
    qset = locate.flippv(bset, lt)
    pvnz = Omega != 0.0
    have_q = len(qset) > 0
    if not have_q:
        accel = a.copy()
        displ = np.zeros(a.shape, dtype=complex)
        displ[:, pvnz] = -accel[:, pvnz] / Omega[pvnz] ** 2
        veloc = 1j * (Omega * displ)
        frc = m @ accel + b @ veloc + k @ displ
        return SimpleNamespace(frc=frc, a=accel, d=displ, v=veloc, freq=freq, f=freq)
    cache = save if isinstance(save, abc.MutableMapping) else None
    tf = None
    if cache is not None:
        try:
            tf = cache["tf"]
        except KeyError:
            tf = None
    if tf is None:
        qq = np.ix_(qset, qset)
        tf = ode.SolveUnc(m[qq], b[qq], k[qq], rb=[])
        if cache is not None:
            cache["tf"] = tf
    bb = np.ix_(bset, bset)
    qb = np.ix_(qset, bset)
    v = np.zeros(a.shape, dtype=complex)
    v[:, pvnz] = 1j * a[:, pvnz] / Omega[pvnz]
    sol = tf.fsolve(b[qb] @ v - m[qb] @ a, freq)
    resp = {}
    for key in ("d", "a"):
        resp[key] = np.zeros((lt, lenf), dtype=complex)
    displ, accel = resp["d"], resp["a"]
    displ[np.ix_(bset, pvnz)] = np.negative(a[:, pvnz]) / np.square(Omega[pvnz])
    for arr, part in ((displ, sol.d), (accel, sol.a)):
        arr[qset] = part
    accel[bset] = a
    veloc = 1j * (Omega * displ)
    frc = m[bset] @ accel + b[bset] @ veloc + k[bb] @ displ[bset]
    return SimpleNamespace(frc=frc, a=accel, d=displ, v=veloc, freq=freq, f=freq)
''',
     'cbtf: len(qset) flag with early return, cache alias, data-driven stores, np.negative / np.square'),
    ("C15", "neutral", [], CB, _CBTF,
     '''    freq = np.atleast_1d(freq).ravel()
    Omega = 2 * math.pi * freq
    lenf = len(Omega)
    a = np.atleast_1d(a)
    bset = np.atleast_1d(bset)
    if not (a.ndim != 1 and (a.ndim != 2 or a.shape[1] != 1)):
        a = np.matmul(a.reshape(-1, 1), np.ones((1, lenf)))
    r, c = a.shape
    if c != lenf:
        raise ValueError("`a` is not compatibly sized with `freq`")
    if r != len(bset):
        raise ValueError("number of rows in `a` not compatible with `bset`")
    frc = np.zeros((r, lenf), dtype=complex)
    bset = np.atleast_1d(bset).ravel()
    lt = m.shape[0]
    qset = locate.flippv(bset, lt)

    pvnz = Omega != 0.0
    if qset.shape[0] < 1:
        accel = a.copy()
        displ = np.zeros(a.shape, dtype=complex)
        displ[:, pvnz] = -accel[:, pvnz] / Omega[pvnz] ** 2
        veloc = 1j * (Omega * displ)
        frc = m @ accel + b @ veloc + k @ displ
    else:
        tf = None
        if isinstance(save, abc.MutableMapping):
            try:
                tf = save["tf"]
            except KeyError:
                pass
        if tf is None:
            qq = np.ix_(qset, qset)
            tf = ode.SolveUnc(m[qq], b[qq], k[qq], rb=[])
            if isinstance(save, abc.MutableMapping):
                save["tf"] = tf

        bb = np.ix_(bset, bset)
        qb = np.ix_(qset, bset)
        v = np.zeros(a.shape, dtype=complex)
        v[:, pvnz] = 1j * a[:, pvnz] / Omega[pvnz]
        f = b[qb] @ v - m[qb] @ a
        sol = tf.fsolve(f, freq)

        displ = np.zeros((lt, lenf), dtype=complex)
        accel = displ.copy()
        displ[np.ix_(bset, pvnz)] = -a[:, pvnz] / Omega[pvnz] ** 2
        displ[qset] = sol.d
        veloc = 1j * (Omega * displ)
        accel[bset] = a
        accel[qset] = sol.a
        frc = m[bset] @ accel + b[bset] @ veloc + k[bb] @ displ[bset]
    return SimpleNamespace(frc=frc, a=accel, d=displ, v=veloc, freq=freq, f=freq)
''',
     'cbtf: emptiness as shape[0] < 1, De Morgan on the expansion test, np.matmul'),
    ("C15", "neutral", [], FRC, _CALCAM,
     '''    lf = len(freq)
    m, b, k = S[:3]
    bdof = np.atleast_1d(S[3])
    kind = "drm" if np.ndim(bdof) == 2 else "pv"
    make_unc, make_direct = ode.SolveUnc, ode.FreqDirect
    if kind == "drm":
        r = bdof.shape[0]
        T = bdof
        Frc = np.zeros((r, lf))
        Acc = np.empty((r, lf, r), dtype=complex)
        if fs is None:
            use_freqdirect = False
            try:
                fs = make_unc(m, b, k, pre_eig=True)
            except la.LinAlgError:
                use_freqdirect = True
            else:
                if hasattr(fs.pc, "eig_success") and not fs.pc.eig_success:
                    use_freqdirect = True
            if use_freqdirect:
                warnings.warn(
                    "Switching from `SolveUnc` to `FreqDirect` because complex"
                    " eigensolver failed; see messages above. Solution may be slow.",
                    RuntimeWarning,
                )
                fs = make_direct(m, b, k)
        solve = fs.fsolve
        expand = lambda frc: T.transpose() @ frc
        for direc in range(0, r, 1):
            Frc.fill(0.0)
            Frc[direc, :] = 1.0
            sol = solve(expand(Frc), freq)
            Acc[:, :, direc] = T @ sol.a
        AM = np.empty((r, lf, r), dtype=complex)
        invert = la.inv
        for j in np.arange(lf):
            AM[:, j, :] = invert(a=Acc[:, j, :])
    elif kind == "pv":
        r = len(bdof)
        acce = np.eye(r)
        AM = np.empty((r, lf, r), dtype=complex)
        save = {}
        base_shake = cb.cbtf
        for direc in range(r):
            tf = base_shake(m, b, k, acce[direc, :], freq, bdof, save)
            AM[:, :, direc] = tf.frc
    return AM
''',
     'calcAM: string regime flag, aliases of constructors / bound methods / la.inv, lambda, Frc.fill reset at the start of a pass, S[:3] unpack, np.ndim, np.arange, range(0, r, 1)'),
    ("C15", "neutral", [], FRC, _NTFL,
     '''    am_of = lambda x: calcAM(S=x, freq=freq) if isinstance(x, (tuple, list)) else x
    SAM = am_of(Source)
    LAM = am_of(Load)
    As = np.atleast_2d(As)
    if not len(freq) == As.shape[1] == SAM.shape[1] == LAM.shape[1]:
        raise ValueError(
            "incompatible sizes: ensure that `Source`, "
            "`Load`, and `As` all use the same frequency "
            "vector `freq`"
        )
    TAM = np.add(SAM, LAM)
    r, c = SAM.shape[0], SAM.shape[1]
    R = np.empty((r, c), dtype=complex)
    A = np.empty((r, c), dtype=complex)
    F = np.empty((r, c), dtype=complex)
    for j in range(0, c, 1):
        Ms = SAM[:, j, :]
        Mr = la.solve(a=Ms + LAM[:, j, :], b=Ms)
        A[:, j] = Mr @ As[:, j]
        R[:, j] = np.diag(Mr)
    for j in range(c):
        F[:, j] = LAM[:, j, :] @ A[:, j]
    return SimpleNamespace(F=F, A=A, R=R, LAM=LAM, SAM=SAM, TAM=TAM, freq=freq)
''',
     'ntfl: lambda dispatch, calcAM with keywords, tuple order in isinstance, np.add, la.solve keywords, loop split in two'),
    ("C15", "neutral", [], FRC, _NTFL,
     '''    # Calculate apparent masses:
    if isinstance(Source, list) or isinstance(Source, tuple):
        SAM = calcAM(Source, freq)
    else:
        SAM = Source

    if not (isinstance(Load, tuple) or isinstance(Load, list)):
        LAM = Load
    else:
        LAM = calcAM(Load, freq)

    As = np.atleast_2d(As)
    if not len(freq) == As.shape[1] == SAM.shape[1] == LAM.shape[1]:
        raise ValueError(
            "incompatible sizes: ensure that `Source`, "
            "`Load`, and `As` all use the same frequency "
            "vector `freq`"
        )

    TAM = SAM + LAM

    # Application of Norton-Thevenin equations
    r, c, _ = SAM.shape
    R = np.empty((r, c), dtype=complex)
    A = np.empty((r, c), dtype=complex)
    F = np.empty((r, c), dtype=complex)
    for j in range(c):
        Ms = SAM[:, j, :]
        Ml = LAM[:, j, :]
        Mr = la.solve(Ms + Ml, Ms)
        A[:, j] = Mr @ As[:, j]
        F[:, j] = Ml @ A[:, j]
        R[:, j] = np.diag(Mr)
    return SimpleNamespace(F=F, A=A, R=R, LAM=LAM, SAM=SAM, TAM=TAM, freq=freq)
''',
     'ntfl: isinstance tests unfolded with or / not'),
    ("C15", "neutral", [], CB, _CBTF,
     '''    freq = np.atleast_1d(freq).ravel()
    Omega = 2 * math.pi * freq
    lenf = len(Omega)
    a = np.atleast_1d(a)
    bset = np.atleast_1d(bset)
    def _bad(msg):
        raise ValueError(msg)

    if a.ndim == 1:
        a = a[:, None] @ np.ones((1, lenf))
    elif a.ndim == 2 and a.shape[1] == 1:
        a = np.tile(a, (1, lenf))
    r, c = a.shape
    if c != lenf:
        _bad("`a` is not compatibly sized with `freq`")
    if r != len(bset):
        _bad("number of rows in `a` not compatible with `bset`")
    frc = np.zeros((r, lenf), dtype=complex)
    bset = np.atleast_1d(bset).ravel()
    lt = m.shape[0]
    qset = locate.flippv(bset, lt)

    pvnz = Omega != 0.0
    if 0 == len(qset):
        accel = a.copy()
        displ = np.zeros(a.shape, dtype=complex)
        displ[:, pvnz] = -accel[:, pvnz] / Omega[pvnz] ** 2
        veloc = 1j * (Omega * displ)
        frc = m @ accel + b @ veloc + k @ displ
    else:
        tf = None
        if isinstance(save, abc.MutableMapping):
            try:
                tf = save["tf"]
            except KeyError:
                pass
        if tf is None:
            qq = np.ix_(qset, qset)
            tf = ode.SolveUnc(m[qq], b[qq], k[qq], rb=[])
            if isinstance(save, abc.MutableMapping):
                save["tf"] = tf

        bb = np.ix_(bset, bset)
        qb = np.ix_(qset, bset)
        v = np.zeros(a.shape, dtype=complex)
        v[:, pvnz] = 1j * a[:, pvnz] / Omega[pvnz]
        f = b[qb] @ v - m[qb] @ a
        sol = tf.fsolve(f, freq)

        displ = np.zeros((lt, lenf), dtype=complex)
        accel = displ.copy()
        displ[np.ix_(bset, pvnz)] = -a[:, pvnz] / Omega[pvnz] ** 2
        displ[qset] = sol.d
        veloc = 1j * (Omega * displ)
        accel[bset] = a
        accel[qset] = sol.a
        frc = m[bset] @ accel + b[bset] @ veloc + k[bb] @ displ[bset]
    return SimpleNamespace(frc=frc, a=accel, d=displ, v=veloc, freq=freq, f=freq)
''',
     'cbtf: raising helper for the guards, a[:, None] / np.tile expansion, mirrored len test'),
    ("C15", "break", ["C15-R2"], FRC, _NTFL,
     '''    SAM, LAM = (
        calcAM(model, freq) if isinstance(model, (list, tuple)) else model
        for model in (Source, Load)
    )
    As = np.atleast_2d(As)
    if not (len(freq) == As.shape[1] and As.shape[1] == SAM.shape[1] and SAM.shape[1] == LAM.shape[1]):
        raise ValueError("incompatible sizes")
    out = {"F": None, "A": None, "R": None, "LAM": LAM, "SAM": SAM}
    out["TAM"] = SAM + LAM
    out["freq"] = freq
    (r, c, _) = SAM.shape
    R, A, F = (np.empty((r, c), dtype=np.complex128) for _ in range(3))
    for j in range(c):
        Ms, Ml = SAM[:, j], LAM[:, j, :]
        Mr = la.solve(Ms + Ml, Ms)
        acce = A[:, j]  # view of column j
        acce[:] = np.matmul(Mr, As[j])
        F[:, j] = np.matmul(Ml, acce)
        R[:, j] = np.diag(Mr)
    out.update(F=F, A=A, R=R)
    return SimpleNamespace(**out)
''',
     'N8-style ntfl with the row of As instead of the column'),
    ("C15", "break", ["C15-R2"], FRC, _NTFL,
     '''    SAM, LAM = (
        calcAM(model, freq) if isinstance(model, (list, tuple)) else model
        for model in (Source, Load)
    )
    As = np.atleast_2d(As)
    if not (len(freq) == As.shape[1] and As.shape[1] == SAM.shape[1] and SAM.shape[1] == LAM.shape[1]):
        raise ValueError("incompatible sizes")
    out = {"F": None, "A": None, "R": None, "LAM": LAM, "SAM": SAM}
    out["TAM"] = SAM + LAM
    out["freq"] = freq
    (r, c, _) = SAM.shape
    R, A, F = (np.empty((r, c), dtype=np.complex128) for _ in range(3))
    for j in range(c):
        Ms, Ml = SAM[:, j], LAM[:, j, :]
        Mr = la.solve(Ms + Ml, Ms)
        acce = A[:, j].copy()  # view of column j
        acce[:] = np.matmul(Mr, As[:, j])
        F[:, j] = np.matmul(Ml, acce)
        R[:, j] = np.diag(Mr)
    out.update(F=F, A=A, R=R)
    return SimpleNamespace(**out)
''',
     "N8-style ntfl: the column 'view' is a copy, A is never written"),
    ("C15", "break", ["C15-R2"], FRC, _NTFL,
     '''    SAM, LAM = (
        calcAM(model, freq) if isinstance(model, (list, tuple)) else model
        for model in (Source, Load)
    )
    As = np.atleast_2d(As)
    if not (len(freq) == As.shape[1] and As.shape[1] == SAM.shape[1] and SAM.shape[1] == LAM.shape[1]):
        raise ValueError("incompatible sizes")
    out = {"F": None, "A": None, "R": None, "LAM": LAM, "SAM": SAM}
    out["TAM"] = SAM + LAM
    out["freq"] = freq
    (r, c, _) = SAM.shape
    R, A, F = (np.empty((r, c), dtype=np.complex128) for _ in range(3))
    for j in range(c):
        Ms, Ml = SAM[:, j], LAM[:, j, :]
        Mr = la.solve(Ms + Ml, Ms)
        acce = A[:, j]  # view of column j
        F[:, j] = np.matmul(Ml, acce)
        acce[:] = np.matmul(Mr, As[:, j])
        R[:, j] = np.diag(Mr)
    out.update(F=F, A=A, R=R)
    return SimpleNamespace(**out)
''',
     'N8-style ntfl: F computed from the view before the column is written'),
    ("C15", "break", ["C15-R2"], FRC, _NTFL,
     '''    SAM, LAM = (
        calcAM(model, freq) if isinstance(model, (list, tuple)) else model
        for model in (Source, Load)
    )
    As = np.atleast_2d(As)
    if not (len(freq) == As.shape[1] and As.shape[1] == SAM.shape[1] and SAM.shape[1] == LAM.shape[1]):
        raise ValueError("incompatible sizes")
    out = {"F": None, "A": None, "R": None, "LAM": LAM, "SAM": SAM}
    out["TAM"] = SAM - LAM
    out["freq"] = freq
    (r, c, _) = SAM.shape
    R, A, F = (np.empty((r, c), dtype=np.complex128) for _ in range(3))
    for j in range(c):
        Ms, Ml = SAM[:, j], LAM[:, j, :]
        Mr = la.solve(Ms + Ml, Ms)
        acce = A[:, j]  # view of column j
        acce[:] = np.matmul(Mr, As[:, j])
        F[:, j] = np.matmul(Ml, acce)
        R[:, j] = np.diag(Mr)
    out.update(F=F, A=A, R=R)
    return SimpleNamespace(**out)
''',
     'N8-style ntfl: TAM = SAM - LAM inside the dict'),
    ("C15", "break", ["C15-R2"], FRC, _NTFL,
     '''    SAM, LAM = (
        calcAM(model, freq) if isinstance(model, (list, tuple)) else model
        for model in (Load, Source)
    )
    As = np.atleast_2d(As)
    if not (len(freq) == As.shape[1] and As.shape[1] == SAM.shape[1] and SAM.shape[1] == LAM.shape[1]):
        raise ValueError("incompatible sizes")
    out = {"F": None, "A": None, "R": None, "LAM": LAM, "SAM": SAM}
    out["TAM"] = SAM + LAM
    out["freq"] = freq
    (r, c, _) = SAM.shape
    R, A, F = (np.empty((r, c), dtype=np.complex128) for _ in range(3))
    for j in range(c):
        Ms, Ml = SAM[:, j], LAM[:, j, :]
        Mr = la.solve(Ms + Ml, Ms)
        acce = A[:, j]  # view of column j
        acce[:] = np.matmul(Mr, As[:, j])
        F[:, j] = np.matmul(Ml, acce)
        R[:, j] = np.diag(Mr)
    out.update(F=F, A=A, R=R)
    return SimpleNamespace(**out)
''',
     'N8-style ntfl: generator unpack over (Load, Source)'),
    ("C15", "break", ["C15-R2"], FRC, _NTFL,
     '''    SAM, LAM = (
        calcAM(model, freq) if isinstance(model, (list, tuple)) else model
        for model in (Source, Load)
    )
    As = np.atleast_2d(As)
    if not (len(freq) == As.shape[1] and As.shape[1] == SAM.shape[1] and SAM.shape[1] == LAM.shape[1]):
        raise ValueError("incompatible sizes")
    out = {"F": None, "A": None, "R": None, "LAM": LAM, "SAM": SAM}
    out["TAM"] = SAM + LAM
    out["freq"] = freq
    (r, c, _) = SAM.shape
    R, A, F = (np.empty((r, c), dtype=np.complex128) for _ in range(3))
    for j in range(c):
        Ms, Ml = SAM[:, j], LAM[:, j, :]
        Mr = la.solve(Ms + Ml, Ms)
        acce = A[:, j]  # view of column j
        acce[:] = np.matmul(Mr, As[:, j])
        F[:, j] = np.matmul(Ml, acce)
        R[:, j] = np.diag(Mr)
    out.update(F=A, A=F, R=R)
    return SimpleNamespace(**out)
''',
     'N8-style ntfl: out.update(F=A, A=F)'),
    ("C15", "break", ["C15-R2"], FRC, _NTFL,
     '''    if isinstance(Source, (list, tuple)):
        SAM = calcAM(Source, freq)
    else:
        SAM = Source
    if isinstance(Load, (list, tuple)):
        LAM = calcAM(Load, freq)
    else:
        LAM = Load
    As = np.atleast_2d(As)
    if not len(freq) == As.shape[1] == SAM.shape[1] == LAM.shape[1]:
        raise ValueError("incompatible sizes")
    TAM = SAM + LAM
    r, c, _ = SAM.shape
    R = np.empty((r, c), dtype=complex)
    A = np.empty((r, c), dtype=complex)
    F = np.empty((r, c), dtype=complex)
    for j in range(c):
        F[:, j] = LAM[:, j, :] @ A[:, j]
    for j in range(c):
        Ms = SAM[:, j, :]
        Mr = la.solve(Ms + LAM[:, j, :], Ms)
        A[:, j] = Mr @ As[:, j]
        R[:, j] = np.diag(Mr)
    return SimpleNamespace(F=F, A=A, R=R, LAM=LAM, SAM=SAM, TAM=TAM, freq=freq)
''',
     'ntfl loop split with the force loop before the acceleration loop'),
    ("C15", "break", ["C15-R1"], FRC, '''        for direc in range(r):
            Frc[direc, :] = 1.0
            sol = fs.fsolve(T.T @ Frc, freq)
            Acc[:, :, direc] = T @ sol.a
            Frc[direc, :] = 0.0
''',
     '''        def unit_force_response(direc):
            Frc[direc] = 1.0
            return np.matmul(T, fs.fsolve(np.matmul(T.T, Frc), freq).a)

        for direc in range(r):
            Acc[..., direc] = unit_force_response(direc)
''',
     'closure sets the unit force on a shared matrix that is never reset'),
    ("C15", "break", ["C15-R1"], FRC, '''    if bdof.ndim == 2:  # bdof is treated as a drm''',
     '''    kind = "pv" if bdof.ndim == 2 else "drm"
    if kind == "drm":''',
     'string regime flag with the two regimes swapped'),
    ("C15", "break", ["C15-R1"], CB, '''    if qset.size == 0:
''',
     '''    if qset.size:
''',
     'cbtf: emptiness test inverted (truthiness of qset.size selects the no-interior branch)'),
    ("C15", "break", ["C15-R2"], FRC, '''    if not len(freq) == As.shape[1] == SAM.shape[1] == LAM.shape[1]:''',
     '''    if any(n != len(freq) for n in (As.shape[1], SAM.shape[1])):''',
     'size check as any(...) without the load'),
    ("C15", "break", ["C15-R2"], FRC, '''    if isinstance(Load, (list, tuple)):
        LAM = calcAM(Load, freq)
    else:
        LAM = Load
''',
     '''    def _am(x):
        if not isinstance(x, (list, tuple)):
            return calcAM(x, freq)
        return x

    LAM = _am(Load)
''',
     'closure dispatch with the isinstance test inverted'),
    ("C15", "neutral", [], CB, '''        tf = None
        if isinstance(save, abc.MutableMapping):
            try:
                tf = save["tf"]
            except KeyError:
                pass
        if tf is None:
            qq = np.ix_(qset, qset)
            tf = ode.SolveUnc(m[qq], b[qq], k[qq], rb=[])
            if isinstance(save, abc.MutableMapping):
                save["tf"] = tf
''',
     '''        def _qsolver():
            cached = isinstance(save, abc.MutableMapping)
            if cached:
                try:
                    tf = save["tf"]
                except KeyError:
                    tf = None
                if tf is not None:
                    return tf
            qq = np.ix_(qset, qset)
            tf = ode.SolveUnc(*[mat[qq] for mat in (m, b, k)], rb=[])
            if cached:
                save["tf"] = tf
            return tf

        tf = _qsolver()
''',
     'cbtf: cached solver fetched by a closure with conditional returns, starred generator arguments'),
    ("C15", "neutral", [], FRC, _CALCAM,
     '''    lf = len(freq)
    m, b, k, *_rest = S
    bdof = np.atleast_1d(S[3])
    if bdof.ndim == 2:  # bdof is treated as a drm
        r, T = bdof.shape[0], bdof
        Acc = np.empty((r, lf, r), dtype=complex)
        if fs is None:
            fs = _default_solver(m, b, k)
        Frc = np.zeros((r, lf))
        direc = 0
        while direc <= r - 1:
            try:
                Frc[direc, :] = 1.0
                Acc[:, :, direc] = T @ fs.fsolve(T.T @ Frc, freq).a
            finally:
                Frc[direc, :] = 0.0
            direc = direc + 1
        AM = np.empty((r, lf, r), dtype=complex)
        for j in range(lf):
            AM[:, j, :] = la.inv(Acc[:, j, :])
        return AM
    r = len(bdof)
    acce = np.eye(r)
    AM = np.empty((r, lf, r), dtype=complex)
    save = {}
    for direc in range(r):
        tf = cb.cbtf(m, b, k, acce[direc, :], freq, bdof, save)
        AM[:, :, direc] = tf.frc
    return AM


def _default_solver(m, b, k):
    try:
        fs = ode.SolveUnc(m, b, k, pre_eig=True)
    except la.LinAlgError:
        pass
    else:
        if not hasattr(fs.pc, "eig_success") or fs.pc.eig_success:
            return fs
    warnings.warn(
        "Switching from `SolveUnc` to `FreqDirect` because complex"
        " eigensolver failed; see messages above. Solution may be slow.",
        RuntimeWarning,
    )
    return ode.FreqDirect(m, b, k)
''',
     'calcAM: starred unpack, default solver in a module helper with conditional returns, try/finally around the unit force, `while direc <= r - 1`, `direc = direc + 1`'),
    ("C15", "neutral", [], FRC, '''    if not len(freq) == As.shape[1] == SAM.shape[1] == LAM.shape[1]:''',
     '''    if len({len(freq), As.shape[1], SAM.shape[1], LAM.shape[1]}) != 1:''',
     'ntfl: size check as len({...}) != 1'),
    ("C15", "break", ["C15-R1"], FRC, '''        for direc in range(r):
            tf = cb.cbtf(m, b, k, acce[direc, :], freq, bdof, save)
            AM[:, :, direc] = tf.frc
''',
     '''        unit = np.zeros(r)
        for direc in range(r):
            unit[direc] = 1.0
            AM[:, :, direc] = cb.cbtf(m, b, k, unit, freq, bdof, save).frc
''',
     'unit acceleration vector shared between passes and never reset'),
    ("C15", "break", ["C15-R2"], FRC, '''    if not len(freq) == As.shape[1] == SAM.shape[1] == LAM.shape[1]:''',
     '''    if len({len(freq), As.shape[1], SAM.shape[1]}) != 1:''',
     'size check as len({...}) without the load'),
    ("C15", "break", ["C15-R2"], FRC, '''    if isinstance(Load, (list, tuple)):''',
     '''    if isinstance(Load, list):''',
     'a Load given as a tuple no longer goes through calcAM'),
    ("C15", "neutral", [], FRC, _NTFL,
     '''    SAM = Source if not isinstance(Source, (list, tuple)) else calcAM(Source, freq)
    LAM = Load if not isinstance(Load, (list, tuple)) else calcAM(Load, freq)
    As = np.atleast_2d(As)
    if not len(freq) == As.shape[1] == SAM.shape[1] == LAM.shape[1]:
        raise ValueError(
            "incompatible sizes: ensure that `Source`, "
            "`Load`, and `As` all use the same frequency "
            "vector `freq`"
        )
    TAM = SAM + LAM
    r, c, _ = SAM.shape
    R = np.empty((r, c), dtype=complex)
    A = np.empty((r, c), dtype=complex)
    F = np.empty((r, c), dtype=complex)

    def couple(j):
        Ms = SAM[:, j]
        Ml = LAM[:, j]
        Mr = _solve(Ms + Ml, Ms)
        A[:, j] = Mr @ As[:, j]
        F[:, j] = Ml @ A[:, j]
        R[:, j] = np.diag(Mr)

    for j in range(c):
        couple(j)
    out = {}
    for key, val in zip(("F", "A", "R", "LAM", "SAM", "TAM", "freq"), (F, A, R, LAM, SAM, TAM, freq)):
        out[key] = val
    return SimpleNamespace(**out)


_solve = la.solve
''',
     'ntfl: loop body in a closure that writes the outer arrays, module-level alias of la.solve, result dict filled by a zip loop'),
    ("C15", "neutral", [], FRC, '''        for direc in range(r):
            tf = cb.cbtf(m, b, k, acce[direc, :], freq, bdof, save)
            AM[:, :, direc] = tf.frc
''',
     '''        for direc, unit in zip(range(r), np.eye(r, dtype=float)):
            AM[:, :, direc] = cb.cbtf(m, b, k, unit, freq, bdof, save=save).frc
''',
     'calcAM: zip(range(r), np.eye(r)), save passed by keyword'),
    ("C15", "neutral", [], FRC, '''    if not len(freq) == As.shape[1] == SAM.shape[1] == LAM.shape[1]:
        raise ValueError(
            "incompatible sizes: ensure that `Source`, "
            "`Load`, and `As` all use the same frequency "
            "vector `freq`"
        )
''',
     '''    mismatch = True
    nf = len(freq)
    na = As.shape[1]
    if nf == na:
        ns = SAM.shape[1]
        if na == ns:
            mismatch = ns != LAM.shape[1]
    if mismatch:
        raise ValueError(
            "incompatible sizes: ensure that `Source`, "
            "`Load`, and `As` all use the same frequency "
            "vector `freq`"
        )
''',
     'ntfl: size check as a flag set under nested ifs'),
    ("C15", "neutral", [], FRC, '''    if not len(freq) == As.shape[1] == SAM.shape[1] == LAM.shape[1]:
        raise ValueError(
            "incompatible sizes: ensure that `Source`, "
            "`Load`, and `As` all use the same frequency "
            "vector `freq`"
        )
''',
     '''    same = len(freq) == As.shape[1]
    if same:
        same = As.shape[1] == SAM.shape[1]
    if same:
        same = SAM.shape[1] == LAM.shape[1]
    if not same:
        raise ValueError(
            "incompatible sizes: ensure that `Source`, "
            "`Load`, and `As` all use the same frequency "
            "vector `freq`"
        )
''',
     'ntfl: size check accumulated step by step in a flag'),
    ("C15", "neutral", [], FRC, '''    if not len(freq) == As.shape[1] == SAM.shape[1] == LAM.shape[1]:
        raise ValueError(
            "incompatible sizes: ensure that `Source`, "
            "`Load`, and `As` all use the same frequency "
            "vector `freq`"
        )
''',
     '''    def _check(freq, As, SAM, LAM):
        nf = len(freq)
        nfreq = As.shape[1]
        if nf == nfreq:
            if nfreq == SAM.shape[1]:
                if SAM.shape[1] == LAM.shape[1]:
                    return
        raise ValueError(
            "incompatible sizes: ensure that `Source`, "
            "`Load`, and `As` all use the same frequency "
            "vector `freq`"
        )

    _check(freq, As, SAM, LAM)
''',
     'ntfl: size check in a helper whose only way out without raising is the innermost return'),
    ("C15", "neutral", [], FRC, '''    if not len(freq) == As.shape[1] == SAM.shape[1] == LAM.shape[1]:''',
     '''    if len({len(freq), As.shape[1], SAM.shape[1], LAM.shape[1]}) > 1:''',
     'ntfl: size check as len({...}) > 1'),
    ("C15", "break", ["C15-R2"], FRC, '''    if not len(freq) == As.shape[1] == SAM.shape[1] == LAM.shape[1]:
        raise ValueError(
            "incompatible sizes: ensure that `Source`, "
            "`Load`, and `As` all use the same frequency "
            "vector `freq`"
        )
''',
     '''    same = len(freq) == As.shape[1]
    if same:
        same = As.shape[1] == SAM.shape[1]
    if not same:
        raise ValueError(
            "incompatible sizes: ensure that `Source`, "
            "`Load`, and `As` all use the same frequency "
            "vector `freq`"
        )
''',
     'stepwise size flag without the load'),
    ("C15", "neutral", [], FRC, '''        for direc in range(r):
            tf = cb.cbtf(m, b, k, acce[direc, :], freq, bdof, save)
            AM[:, :, direc] = tf.frc
''',
     '''        forces = []
        push = forces.append
        for row in acce:
            push(cb.cbtf(m, b, k, row, freq, bdof, save).frc)
        direc = r
        while direc:
            direc -= 1
            AM[:, :, direc] = forces[direc]
''',
     'calcAM: cbtf forces collected with a bound append, stored by a count-down `while direc:` loop'),
    ("C15", "break", ["C15-R1"], FRC, '''        for direc in range(r):
            tf = cb.cbtf(m, b, k, acce[direc, :], freq, bdof, save)
            AM[:, :, direc] = tf.frc
''',
     '''        forces = []
        for row in acce:
            forces.append(cb.cbtf(m, b, k, row, freq, bdof, save).frc)
        for direc, frc in enumerate(forces):
            AM[:, direc, :] = frc
''',
     'collected cbtf forces stored on the frequency axis'),
    ("C15", "neutral", [], FRC, '''    for j in range(c):
        Ms = SAM[:, j, :]
        Ml = LAM[:, j, :]
        Mr = la.solve(Ms + Ml, Ms)
        A[:, j] = Mr @ As[:, j]
        F[:, j] = Ml @ A[:, j]
        R[:, j] = np.diag(Mr)
''',
     '''    per_freq = zip(
        SAM.transpose(1, 0, 2),
        TAM.transpose(1, 0, 2),
        LAM.transpose(1, 0, 2),
        As.T,
        A.T,
        F.T,
        R.T,
    )
    for Ms, Mt, Ml, as_j, a_j, f_j, r_j in per_freq:
        Mr = la.solve(Mt, Ms)
        a_j[:] = np.matmul(Mr, as_j)
        f_j[:] = np.matmul(Ml, a_j)
        r_j[:] = np.diag(Mr)
''',
     'ntfl: zip of transposed views bound to a name, solve with the TAM slab, outputs written through .T rows'),
    ("C15", "break", ["C15-R2"], FRC, '''    for j in range(c):
        Ms = SAM[:, j, :]
        Ml = LAM[:, j, :]
        Mr = la.solve(Ms + Ml, Ms)
        A[:, j] = Mr @ As[:, j]
        F[:, j] = Ml @ A[:, j]
        R[:, j] = np.diag(Mr)
''',
     '''    per_freq = zip(
        SAM.transpose(1, 0, 2),
        TAM.transpose(1, 0, 2),
        LAM.transpose(1, 2, 0),
        As.T,
        A.T,
        F.T,
        R.T,
    )
    for Ms, Mt, Ml, as_j, a_j, f_j, r_j in per_freq:
        Mr = la.solve(Mt, Ms)
        a_j[:] = np.matmul(Mr, as_j)
        f_j[:] = np.matmul(Ml, a_j)
        r_j[:] = np.diag(Mr)
''',
     'zip of views with the load slab transposed (F = Ml.T A)'),
    ("C15", "neutral", [], CB, '''        displ = np.zeros((lt, lenf), dtype=complex)
        accel = displ.copy()
        displ[np.ix_(bset, pvnz)] = -a[:, pvnz] / Omega[pvnz] ** 2
        displ[qset] = sol.d
        veloc = 1j * (Omega * displ)
        accel[bset] = a
        accel[qset] = sol.a
''',
     '''        displ = np.zeros((lt, lenf), dtype=complex)
        displ[np.ix_(bset, pvnz)] = -a[:, pvnz] / Omega[pvnz] ** 2
        displ[qset] = sol.d
        veloc = 1j * (Omega * displ)
        accel = 1j * (Omega * veloc)
        accel[bset], accel[qset] = a, sol.a
''',
     'cbtf: acceleration first derived from the velocity, then both row sets overwritten (tuple assignment)'),
    ("C15", "break", ["C15-R1"], CB, '''        displ = np.zeros((lt, lenf), dtype=complex)
        accel = displ.copy()
        displ[np.ix_(bset, pvnz)] = -a[:, pvnz] / Omega[pvnz] ** 2
        displ[qset] = sol.d
        veloc = 1j * (Omega * displ)
        accel[bset] = a
        accel[qset] = sol.a
''',
     '''        displ = np.zeros((lt, lenf), dtype=complex)
        displ[np.ix_(bset, pvnz)] = -a[:, pvnz] / Omega[pvnz] ** 2
        displ[qset] = sol.d
        veloc = 1j * (Omega * displ)
        accel = 1j * (Omega * veloc)
        accel[qset] = sol.a
''',
     'cbtf: derived acceleration with only the interior rows overwritten'),
    ("C15", "neutral", [], CB, '''    if a.ndim == 1 or (a.ndim == 2 and a.shape[1] == 1):
        a = np.dot(a.reshape(-1, 1), np.ones((1, lenf)))
''',
     '''    def _expand(a):
        if a.ndim != 1:
            if a.ndim != 2:
                return a
            if a.shape[1] != 1:
                return a
        return np.dot(a.reshape(-1, 1), np.ones((1, lenf)))

    a = _expand(a)
''',
     'cbtf: expansion of `a` in a closure with returns on some paths of nested ifs'),
]

# first-order mutants the first pass reported only by accident (the deleted binding made a local a free symbol): a local that is read before
# it is bound on the path taken, or that only one arm of an undecided test binds, is an error value
RECIPES += [
    ("C15", "break", ["C15-R1"], CB, "        displ = np.zeros((lt, lenf), dtype=complex)\n        accel = displ.copy()\n", "        accel = displ.copy()\n",
     "allocation of the displacement deleted: `displ` is unbound in the branch with interior DOF"),
    ("C15", "break", ["C15-R1"], CB, "        displ = np.zeros((lt, lenf), dtype=complex)\n        accel = displ.copy()\n", "        displ = np.zeros((lt, lenf), dtype=complex)\n",
     "allocation of the acceleration deleted"),
    ("C15", "break", ["C15-R1"], CB, "        tf = None\n        if isinstance(save, abc.MutableMapping):", "        if isinstance(save, abc.MutableMapping):",
     "`tf = None` deleted: the solver is unbound unless `save` is a mapping"),
]
