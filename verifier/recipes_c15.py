"""Self-test recipes of C15 (same tuple format as selftest.RECIPES): behaviour-preserving rewrites the value-level rules must accept and
behaviour-breaking edits each obligation must report."""

FRC = "pyyeti/frclim.py"
CB = "pyyeti/cb.py"

_NT_LOOP = '''    for j in range(c):
        Ms = SAM[:, j, :]
        Ml = LAM[:, j, :]
        Mr = la.solve(Ms + Ml, Ms)
        A[:, j] = Mr @ As[:, j]
        F[:, j] = Ml @ A[:, j]
        R[:, j] = np.diag(Mr)
'''

_NT_WHILE = '''    k = 0
    while k < c:
        am_l = LAM[:, k]
        am_s = SAM[..., k, :]
        ratio = np.linalg.solve(am_l + am_s, am_s)
        acc_k = np.dot(ratio, As[:, k])
        A[:, k] = acc_k
        R[:, k] = ratio.diagonal()
        F[:, k] = am_l @ acc_k
        k += 1
'''

_NT_EINSUM = '''    for j in range(c):
        Ms = SAM[:, j, :]
        Ml = LAM[:, j, :]
        Mr = la.solve(Ms + Ml, Ms)
        A[:, j] = Mr @ As[:, j]
        R[:, j] = np.diag(Mr)
    F = np.einsum("ijk,kj->ij", LAM, A)
'''

_NT_EINSUM_T = _NT_EINSUM.replace("ijk,kj->ij", "kji,kj->ij")

_NT_HELPER = '''    def one_frequency(Ms, Ml, as_j):
        Mr = la.solve(Ms + Ml, Ms)
        a_j = Mr @ as_j
        return a_j, Ml @ a_j, np.diag(Mr)

    for j, (Ms, Ml) in enumerate(zip(np.moveaxis(SAM, 1, 0), np.moveaxis(LAM, 1, 0))):
        A[:, j], F[:, j], R[:, j] = one_frequency(Ms, Ml, As[:, j])
'''

_INV_LOOP = '''        for j in range(lf):
            AM[:, j, :] = la.inv(Acc[:, j, :])
'''

RECIPES = [
    # ---- breaks: one per obligation kind
    ("C15", "break", ["C15-R1"], FRC, "            Frc[direc, :] = 0.0\n", "", "unit force of the previous boundary DOF is never reset"),
    ("C15", "break", ["C15-R1"], FRC, "            sol = fs.fsolve(T.T @ Frc, freq)", "            sol = fs.fsolve(la.pinv(T) @ Frc, freq)",
     "boundary force expanded with the pseudo-inverse instead of the transpose of the recovery matrix"),
    ("C15", "break", ["C15-R1"], FRC, "            Acc[:, :, direc] = T @ sol.a", "            Acc[:, :, direc] = T @ sol.d", "accelerance from the displacement"),
    ("C15", "break", ["C15-R1"], FRC, "        Acc = np.empty((r, lf, r), dtype=complex)", "        shp = (lf, r, r)\n        Acc = np.empty(shp, dtype=complex)",
     "accelerance allocated with the frequency on axis 0"),
    ("C15", "break", ["C15-R1"], FRC, "            Acc[:, :, direc] = T @ sol.a", "            Acc[:, direc] = T @ sol.a", "column of the accelerance written on the frequency axis"),
    ("C15", "break", ["C15-R1"], FRC, _INV_LOOP, "        for j in range(r):\n            AM[..., j] = la.inv(Acc[..., j])\n", "inverse taken per direction instead of per frequency"),
    ("C15", "break", ["C15-R1"], FRC, "acce[direc, :]", "acce[0, :]", "unit acceleration always on the first boundary DOF"),
    ("C15", "break", ["C15-R1"], FRC, "            AM[:, :, direc] = tf.frc", "            AM[:, :, direc] = tf.frc.T", "cbtf force transposed"),
    ("C15", "break", ["C15-R1"], CB, "    bset = np.atleast_1d(bset).ravel()\n    lt = m.shape[0]", "    bset = np.sort(np.atleast_1d(bset).ravel())\n    lt = m.shape[0]",
     "partition vector silently sorted while the rows of `a` stay in the caller's order"),
    ("C15", "break", ["C15-R1"], CB, "+ k[bb] @ displ[bset]", "- k[bb] @ displ[bset]", "sign of the stiffness term of the boundary force"),
    ("C15", "break", ["C15-R1"], CB, "        accel[bset] = a\n", "        accel[bset] = -(Omega ** 2) * displ[bset]\n", "boundary acceleration derived from the displacement"),
    ("C15", "break", ["C15-R2"], FRC, "        F[:, j] = Ml @ A[:, j]", "        F[:, j] = Ml.T @ A[:, j]", "force from the transposed load apparent mass"),
    ("C15", "break", ["C15-R2"], FRC, _NT_LOOP, _NT_EINSUM_T, "vectorised force with response and input axes of the load apparent mass swapped"),
    ("C15", "break", ["C15-R2"], FRC, "    As = np.atleast_2d(As)\n", "    As = np.atleast_2d(As).T\n", "free acceleration re-oriented"),
    ("C15", "break", ["C15-R2"], FRC, "    As = np.atleast_2d(As)\n", "", "array_like free acceleration no longer converted"),
    ("C15", "break", ["C15-R2"], FRC, "    if isinstance(Load, (list, tuple)):", "    if isinstance(Source, (list, tuple)):", "Load routed by the type of Source"),
    ("C15", "break", ["C15-R2"], FRC, "    for j in range(c):", "    for j in range(r):", "loop over the interface size instead of the frequencies"),
    ("C15", "break", ["C15-R2"], FRC, "    if not len(freq) == As.shape[1] == SAM.shape[1] == LAM.shape[1]:", "    if not len(freq) == As.shape[1] == SAM.shape[1]:",
     "size check without the load"),
    ("C15", "break", ["C15-R2"], FRC, "        A[:, j] = Mr @ As[:, j]", "        A[:, j] = Mr @ As[j, :]", "row of the free acceleration"),
    ("C15", "break", ["C15-R1"], FRC, "fs = ode.FreqDirect(m, b, k)", "fs = ode.FreqDirect(m, k, b)", "fall-back solver built with damping and stiffness swapped"),
    ("C15", "break", ["C15-R1"], FRC, "fs = ode.SolveUnc(m, b, k, pre_eig=True)", "fs = ode.SolveUnc(m, k=b, b=k, pre_eig=True)", "default solver: keywords crossed"),
    # ---- neutral: spelling the same computation differently
    ("C15", "neutral", [], FRC, "fs = ode.FreqDirect(m, b, k)", "fs = ode.FreqDirect(k=S[2], m=S[0], b=S[1])", "fall-back solver built with keywords"),
    ("C15", "neutral", [], FRC, _NT_LOOP, _NT_WHILE, "ntfl loop as a counted while loop, renamed temporaries, `...`/short subscripts, np.dot, np.linalg.solve"),
    ("C15", "neutral", [], FRC, _NT_LOOP, _NT_EINSUM, "force vectorised with the documented einsum"),
    ("C15", "neutral", [], FRC, _NT_LOOP, _NT_HELPER, "loop body as a closure over moveaxis views"),
    ("C15", "neutral", [], FRC, "            Acc[:, :, direc] = T @ sol.a", "            Acc[..., direc] = np.dot(T, sol.a)", "ellipsis subscript, np.dot"),
    ("C15", "neutral", [], FRC, _INV_LOOP, "        for j, acc_j in enumerate(np.swapaxes(Acc, 0, 1)):\n            AM[:, j] = la.inv(acc_j)\n", "iteration over a swapaxes view"),
    ("C15", "neutral", [], FRC, _INV_LOOP, "        inv_all = [la.inv(Acc[:, j]) for j in range(lf)]\n        for j in range(lf):\n            AM[:, j, :] = inv_all[j]\n",
     "inverses collected by a comprehension first"),
    ("C15", "neutral", [], FRC, "        Acc = np.empty((r, lf, r), dtype=complex)", "        shp = (len(T), len(freq), T.shape[0])\n        Acc = np.empty(shp, dtype=complex)",
     "shape tuple held by a temporary, interface size spelled as len / shape[0]"),
    ("C15", "neutral", [], FRC, "acce[direc, :]", "acce[:, direc]", "column instead of row of the identity"),
    ("C15", "neutral", [], FRC, "    if not len(freq) == As.shape[1] == SAM.shape[1] == LAM.shape[1]:",
     "    if len(freq) != As.shape[1] or LAM.shape[1] != SAM.shape[1] or As.shape[1] != LAM.shape[1]:", "size check by De Morgan, links in another order"),
    ("C15", "neutral", [], FRC, "    As = np.atleast_2d(As)\n", "    free_acc = np.atleast_2d(np.asarray(As))\n    As = free_acc\n", "conversion through a temporary"),
    ("C15", "neutral", [], CB, "        accel[bset] = a\n        accel[qset] = sol.a\n", "        accel[qset, :] = sol.a\n        accel[bset, :] = a\n", "stores reordered, explicit column slice"),
    ("C15", "neutral", [], CB, "frc = m[bset] @ accel + b[bset] @ veloc + k[bb] @ displ[bset]",
     "frc = k[bb] @ displ[bset, :] + np.dot(b[bset, :], veloc) + m[bset] @ accel", "terms of the boundary force commuted"),
]
