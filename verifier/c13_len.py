"""C13-R2: the row count of writer.vecwrite decided on a finite world.

A small *concrete* interpreter of the Python subset vecwrite and its helpers are written in.  Nothing of pyyeti is imported or executed: the
interpreter walks the ast of pyyeti/writer.py.  The arguments of a world are abstract objects:

  Scalar  - a plain number: not a str, no __len__
  Vec(n)  - a 1-D list / array whose length is the tagged integer Len(n)

A length (`Len`) may only be compared (with another length, with 0 or 1), passed on, taken the max / min of, and used as the bound of
`range`; every other use (arithmetic, comparison with another constant, truth value of something unknown) raises `Undecided`, and so
does every construct the interpreter does not model (the text handed to `write` must be made of results of `string.format`, joined or added: it is
the lines that are counted, not the calls).  Hence a world that is evaluated to the end is evaluated exactly as CPython would, for every
n > 1 (the representatives are 3 and 5: only the order type of the lengths can matter).  The rows written are the formatted lines that reach the `write` calls on the file object.
"""
from __future__ import annotations

import ast
import itertools


class Undecided(Exception):
    pass


class Raised(Exception):
    def __init__(self, name):
        super().__init__(name)
        self.name = name


class _Return(Exception):
    def __init__(self, v):
        self.v = v


class _Break(Exception):
    pass


class _Continue(Exception):
    pass


class Len:
    def __init__(self, v):
        self.v = v

    def __repr__(self):
        return f"Len({self.v})"


class Scalar:
    def __repr__(self):
        return "scalar"


class Vec:
    def __init__(self, n):
        self.n = Len(n)

    def __repr__(self):
        return f"vec[{self.n.v}]"


class Opaque:
    """a value that is only passed around (a formatted string, an element of a vector, a message)"""

    def __init__(self, what=""):
        self.what = what

    def __repr__(self):
        return f"<{self.what}>"


class Fmt:
    """the format string of the call: one line per `.format(...)`"""


class Text:
    """text made of k formatted lines"""

    def __init__(self, k):
        self.k = k

    def __repr__(self):
        return f"<{self.k} line(s)>"


class File:
    def __init__(self):
        self.rows = 0


class Closure:
    def __init__(self, node, env, cls=None):
        self.node, self.env, self.cls = node, env, cls


class Bound:
    def __init__(self, fn, obj):
        self.fn, self.obj = fn, obj


class Class:
    def __init__(self, node, env):
        self.node, self.env = node, env
        self.attrs = {}


class Instance:
    def __init__(self, cls):
        self.cls = cls
        self.d = {}


class Exc:
    def __init__(self, name):
        self.name = name


class Np:
    def __init__(self, name=""):
        self.name = name


class Builtin:
    def __init__(self, name):
        self.name = name


_EXCS = {"ValueError", "TypeError", "IndexError", "RuntimeError", "KeyError", "Exception", "AssertionError", "NotImplementedError"}
_TYPES = {"str", "bytes", "int", "float", "list", "tuple", "dict", "bool", "complex"}
_BUILTINS = {"isinstance", "hasattr", "len", "range", "enumerate", "zip", "max", "min", "list", "tuple", "slice", "iter", "reversed", "callable", "print"}


class Env:
    def __init__(self, parent=None, locals_=()):
        self.d = {}
        self.parent = parent
        self.locals = locals_      # the names the function binds somewhere: reading one before it is bound is an error in CPython, not a global

    def get(self, k):
        e = self
        while e is not None:
            if k in e.d:
                return e.d[k]
            if k in e.locals:
                raise Undecided(f"local name {k} read before it is bound")
            e = e.parent
        raise KeyError(k)


class Interp:
    def __init__(self, tree, budget=20000):
        self.budget = budget
        self.glob = Env()
        for st in tree.body:
            try:
                self.stmt(st, self.glob)
            except (Undecided, Raised, _Return, _Break, _Continue):
                # a module-level statement that is not modelled: its targets are opaque
                for n in ast.walk(st):
                    if isinstance(n, ast.Name) and isinstance(n.ctx, ast.Store):
                        self.glob.d.setdefault(n.id, Opaque(n.id))

    # ------------------------------------------------------------------------------------------------ statements
    def tick(self):
        self.budget -= 1
        if self.budget < 0:
            raise Undecided("step budget exhausted")

    def block(self, body, env):
        for st in body:
            self.stmt(st, env)

    def stmt(self, st, env):
        self.tick()
        if isinstance(st, ast.FunctionDef):
            if any(isinstance(n, (ast.Yield, ast.YieldFrom)) for n in ast.walk(st)):
                env.d[st.name] = Opaque("generator function " + st.name)
                return
            for d in st.decorator_list:
                nm = _dotted(d)
                if not (nm and nm.split(".")[-1] == "write_text_file"):
                    env.d[st.name] = Opaque("decorated function " + st.name)
                    return
            env.d[st.name] = Closure(st, env)
        elif isinstance(st, ast.ClassDef):
            if st.bases or st.decorator_list or st.keywords:
                env.d[st.name] = Opaque("class " + st.name)
                return
            c = Class(st, env)
            ce = Env(env)
            for s2 in st.body:
                if isinstance(s2, ast.Expr) and isinstance(s2.value, ast.Constant):
                    continue
                self.stmt(s2, ce)
            for k, v in ce.d.items():
                if isinstance(v, Closure):
                    v = Closure(v.node, env, cls=c)
                c.attrs[k] = v
            env.d[st.name] = c
        elif isinstance(st, (ast.Import, ast.ImportFrom)):
            for a in st.names:
                nm = (a.asname or a.name).split(".")[0]
                if isinstance(st, ast.ImportFrom) and st.module == "itertools" and a.name == "chain" and not st.level:
                    env.d[nm] = Builtin("chain")
                else:
                    env.d[nm] = Np() if a.name == "numpy" and isinstance(st, ast.Import) else Opaque("import " + nm)
        elif isinstance(st, ast.Assign):
            v = self.ev(st.value, env)
            for t in st.targets:
                self.store(t, v, env)
        elif isinstance(st, ast.AnnAssign):
            if st.value is not None:
                self.store(st.target, self.ev(st.value, env), env)
        elif isinstance(st, ast.AugAssign):
            cur = self.ev(_as_load(st.target), env)
            if isinstance(cur, (list, dict)):
                raise Undecided("in-place operation on a list")
            self.store(st.target, self.binop(st.op, cur, self.ev(st.value, env)), env)
        elif isinstance(st, ast.Expr):
            if not isinstance(st.value, ast.Constant):
                self.ev(st.value, env)
        elif isinstance(st, ast.Pass):
            pass
        elif isinstance(st, ast.If):
            self.block(st.body if self.truth(self.ev(st.test, env)) else st.orelse, env)
        elif isinstance(st, ast.For):
            broke = False
            for x in self.iterate(self.ev(st.iter, env)):
                self.tick()
                self.store(st.target, x, env)
                try:
                    self.block(st.body, env)
                except _Continue:
                    continue
                except _Break:
                    broke = True
                    break
            if not broke:
                self.block(st.orelse, env)
        elif isinstance(st, ast.While):
            broke = False
            while self.truth(self.ev(st.test, env)):
                self.tick()
                try:
                    self.block(st.body, env)
                except _Continue:
                    continue
                except _Break:
                    broke = True
                    break
            if not broke:
                self.block(st.orelse, env)
        elif isinstance(st, ast.Return):
            raise _Return(None if st.value is None else self.ev(st.value, env))
        elif isinstance(st, ast.Break):
            raise _Break()
        elif isinstance(st, ast.Continue):
            raise _Continue()
        elif isinstance(st, ast.Raise):
            if st.exc is None:
                raise Undecided("bare raise")
            e = st.exc
            if isinstance(e, ast.Call):
                f = self.ev(e.func, env)
                if isinstance(f, Exc):
                    raise Raised(f.name)
            v = self.ev(e, env)
            if isinstance(v, Exc):
                raise Raised(v.name)
            raise Undecided("raise of an unknown object")
        elif isinstance(st, ast.Match):
            subj = self.ev(st.subject, env)
            for case in st.cases:
                if self.match(case.pattern, subj, env) and (case.guard is None or self.truth(self.ev(case.guard, env))):
                    self.block(case.body, env)
                    break
        elif isinstance(st, (ast.Global, ast.Nonlocal)):
            raise Undecided("global / nonlocal")
        else:
            raise Undecided("statement " + type(st).__name__)

    def match(self, p, v, env):
        if isinstance(p, ast.MatchAs):
            if p.pattern is not None and not self.match(p.pattern, v, env):
                return False
            if p.name is not None:
                env.d[p.name] = v
            return True
        if isinstance(p, ast.MatchOr):
            return any(self.match(q, v, env) for q in p.patterns)
        if isinstance(p, ast.MatchSingleton):
            if p.value is None:
                return self.cmp(ast.Is(), v, None)
            if isinstance(v, bool) or v is None:
                return v is p.value
            raise Undecided("singleton pattern")
        if isinstance(p, ast.MatchValue):
            return self.cmp(ast.Eq(), v, self.ev(p.value, env))
        if isinstance(p, ast.MatchClass) and not p.patterns and not p.kwd_patterns:
            return self.builtin("isinstance", [v, self.ev(p.cls, env)], {})
        raise Undecided("pattern " + type(p).__name__)

    def store(self, t, v, env):
        if isinstance(t, ast.Name):
            env.d[t.id] = v
        elif isinstance(t, (ast.Tuple, ast.List)):
            vals = self.iterate(v)
            if any(isinstance(x, ast.Starred) for x in t.elts) or len(vals) != len(t.elts):
                raise Undecided("unpacking")
            for x, y in zip(t.elts, vals):
                self.store(x, y, env)
        elif isinstance(t, ast.Attribute):
            o = self.ev(t.value, env)
            if not isinstance(o, Instance):
                raise Undecided("attribute store")
            o.d[t.attr] = v
        elif isinstance(t, ast.Subscript):
            o = self.ev(t.value, env)
            k = self.ev(t.slice, env)
            if isinstance(o, (list, dict)) and isinstance(k, (int, str)) and not isinstance(k, bool):
                try:
                    o[k] = v
                except IndexError:
                    raise Raised("IndexError")
            else:
                raise Undecided("subscript store")
        else:
            raise Undecided("store target")

    # ------------------------------------------------------------------------------------------------ expressions
    def truth(self, v):
        if v is None or isinstance(v, (bool, int, str, list, tuple, dict, range)):
            return bool(v)
        if isinstance(v, (Closure, Bound, Class)):
            return True
        raise Undecided(f"truth value of {v!r}")

    def iterate(self, v):
        if isinstance(v, (list, tuple, range)):
            return list(v)
        if isinstance(v, dict):
            return list(v)
        raise Undecided(f"iteration over {v!r}")

    def cmp(self, op, a, b):
        if isinstance(op, (ast.Is, ast.IsNot)):
            if a is None or b is None:
                r = a is b
            elif isinstance(a, (Closure, Instance, Class, Vec, Scalar, File)) and isinstance(b, (Closure, Instance, Class, Vec, Scalar, File)):
                r = a is b
            else:
                raise Undecided("identity test")
            return r if isinstance(op, ast.Is) else not r
        if isinstance(op, (ast.In, ast.NotIn)):
            if isinstance(b, (list, tuple, dict)) and all(_plain(x) for x in b) and _plain(a):
                r = a in b
                return r if isinstance(op, ast.In) else not r
            raise Undecided("membership test")
        if isinstance(a, Len) or isinstance(b, Len):
            x, y = a, b
            for z in (x, y):
                if not isinstance(z, Len) and not (isinstance(z, int) and not isinstance(z, bool) and z in (0, 1)):
                    raise Undecided(f"a length compared with {z!r}")
            x = x.v if isinstance(x, Len) else x
            y = y.v if isinstance(y, Len) else y
        elif _plain(a) and _plain(b):
            x, y = a, b
            if isinstance(op, (ast.Lt, ast.LtE, ast.Gt, ast.GtE)) and (x is None or y is None or isinstance(x, str) != isinstance(y, str)):
                raise Undecided("ordering of unlike values")
        else:
            raise Undecided(f"comparison of {a!r} and {b!r}")
        return {ast.Eq: lambda: x == y, ast.NotEq: lambda: x != y, ast.Lt: lambda: x < y, ast.LtE: lambda: x <= y,
                ast.Gt: lambda: x > y, ast.GtE: lambda: x >= y}[type(op)]()

    def binop(self, op, a, b):
        if isinstance(a, Len) or isinstance(b, Len):
            if isinstance(op, ast.Mod) and isinstance(a, (str, Opaque)):
                return Opaque("formatted")
            raise Undecided("arithmetic on a length")
        if isinstance(a, Text) or isinstance(b, Text):
            if isinstance(op, ast.Add) and all(isinstance(z, Text) or (isinstance(z, str) and "\n" not in z) for z in (a, b)):
                return Text(sum(z.k for z in (a, b) if isinstance(z, Text)))
            return Opaque("computed")
        if isinstance(a, Opaque) or isinstance(b, Opaque):
            return Opaque("computed")
        if isinstance(op, ast.Mod) and isinstance(a, str):
            return Opaque("formatted")
        ok = lambda z: isinstance(z, (int, str, list, tuple)) and not isinstance(z, bool)
        if ok(a) and ok(b):
            try:
                if isinstance(op, ast.Add):
                    return a + b
                if isinstance(op, ast.Sub):
                    return a - b
                if isinstance(op, ast.Mult):
                    return a * b
                if isinstance(op, ast.FloorDiv):
                    return a // b
                if isinstance(op, ast.Mod):
                    return a % b
            except (TypeError, ZeroDivisionError):
                raise Undecided("arithmetic")
        raise Undecided("binary operation")

    def ev(self, e, env):
        self.tick()
        if isinstance(e, ast.Constant):
            if isinstance(e.value, (int, str, bool, type(None))):
                return e.value
            return Opaque("constant")
        if isinstance(e, ast.Name):
            try:
                return env.get(e.id)
            except KeyError:
                pass
            if e.id in _EXCS:
                return Exc(e.id)
            if e.id in _TYPES or e.id in _BUILTINS:
                return Builtin(e.id)
            raise Undecided("name " + e.id)
        if isinstance(e, ast.JoinedStr):
            return Opaque("f-string")
        if isinstance(e, (ast.Tuple, ast.List)):
            out = []
            for x in e.elts:
                if isinstance(x, ast.Starred):
                    out.extend(self.iterate(self.ev(x.value, env)))
                else:
                    out.append(self.ev(x, env))
            return tuple(out) if isinstance(e, ast.Tuple) else out
        if isinstance(e, ast.Dict):
            if any(k is None for k in e.keys):
                raise Undecided("dict unpacking")
            ks = [self.ev(k, env) for k in e.keys]
            if not all(isinstance(k, (int, str)) for k in ks):
                raise Undecided("dict key")
            return dict(zip(ks, [self.ev(v, env) for v in e.values]))
        if isinstance(e, ast.BoolOp):
            v = None
            for x in e.values:
                v = self.ev(x, env)
                t = self.truth(v)
                if isinstance(e.op, ast.And) and not t:
                    return v
                if isinstance(e.op, ast.Or) and t:
                    return v
            return v
        if isinstance(e, ast.UnaryOp):
            v = self.ev(e.operand, env)
            if isinstance(e.op, ast.Not):
                return not self.truth(v)
            if isinstance(e.op, ast.USub) and isinstance(v, int) and not isinstance(v, bool):
                return -v
            raise Undecided("unary operation")
        if isinstance(e, ast.BinOp):
            return self.binop(e.op, self.ev(e.left, env), self.ev(e.right, env))
        if isinstance(e, ast.IfExp):
            return self.ev(e.body if self.truth(self.ev(e.test, env)) else e.orelse, env)
        if isinstance(e, ast.Compare):
            left = self.ev(e.left, env)
            for op, r in zip(e.ops, e.comparators):
                right = self.ev(r, env)
                if not self.cmp(op, left, right):
                    return False
                left = right
            return True
        if isinstance(e, ast.Lambda):
            return Closure(e, env)
        if isinstance(e, (ast.ListComp, ast.GeneratorExp)):
            # a generator expression is evaluated eagerly: only the number of rows written and the kind of an exception are observed
            out = []
            try:
                self.comp(e, 0, Env(env), out)
            except Raised as r:
                if isinstance(e, ast.GeneratorExp):
                    raise Undecided(f"{r.name} inside a generator expression (evaluated lazily by CPython)")
                raise
            return out
        if isinstance(e, ast.Slice):
            parts = [None if p is None else self.ev(p, env) for p in (e.lower, e.upper, e.step)]
            if not all(p is None or (isinstance(p, int) and not isinstance(p, bool)) for p in parts):
                raise Undecided("slice bounds")
            return slice(*parts)
        if isinstance(e, ast.Subscript):
            return self.index(self.ev(e.value, env), self.ev(e.slice, env))
        if isinstance(e, ast.Attribute):
            return self.attr(self.ev(e.value, env), e.attr)
        if isinstance(e, ast.Call):
            f = self.ev(e.func, env)
            args = []
            for a in e.args:
                if isinstance(a, ast.Starred):
                    args.extend(self.iterate(self.ev(a.value, env)))
                else:
                    args.append(self.ev(a, env))
            kw = {}
            for k in e.keywords:
                if k.arg is None:
                    raise Undecided("** in a call")
                kw[k.arg] = self.ev(k.value, env)
            return self.call(f, args, kw)
        if isinstance(e, ast.NamedExpr):
            v = self.ev(e.value, env)
            self.store(e.target, v, env)
            return v
        raise Undecided("expression " + type(e).__name__)

    def comp(self, e, k, env, out):
        if k == len(e.generators):
            out.append(self.ev(e.elt, env))
            return
        g = e.generators[k]
        if g.is_async:
            raise Undecided("async comprehension")
        for x in self.iterate(self.ev(g.iter, env)):
            self.tick()
            self.store(g.target, x, env)
            if all(self.truth(self.ev(c, env)) for c in g.ifs):
                self.comp(e, k + 1, env, out)

    def index(self, o, k):
        if isinstance(o, Vec):
            if isinstance(k, int) and not isinstance(k, bool):
                if -o.n.v <= k < o.n.v:
                    return Opaque("element")
                raise Raised("IndexError")
            raise Undecided("index of a vector")
        if isinstance(o, (list, tuple, range)):
            if isinstance(k, slice) or (isinstance(k, int) and not isinstance(k, bool)):
                try:
                    return o[k]
                except IndexError:
                    raise Raised("IndexError")
            raise Undecided("index")
        if isinstance(o, dict) and isinstance(k, (int, str)):
            if k in o:
                return o[k]
            raise Raised("KeyError")
        if isinstance(o, Opaque):
            return Opaque("item")
        raise Undecided(f"subscript of {o!r}")

    def attr(self, o, name):
        if isinstance(o, Np):
            return Np(name)
        if isinstance(o, Instance):
            if name in o.d:
                return o.d[name]
            if name in o.cls.attrs:
                v = o.cls.attrs[name]
                return Bound(v, o) if isinstance(v, Closure) else v
            raise Raised("AttributeError")
        if isinstance(o, Class):
            if name in o.attrs:
                return o.attrs[name]
            raise Raised("AttributeError")
        if isinstance(o, Vec):
            if name == "ndim":
                raise Undecided("attribute of a sized argument (a list has none)")
            raise Undecided("attribute of a sized argument")
        if isinstance(o, Builtin) and o.name == "chain" and name == "from_iterable":
            return Builtin("chain.from_iterable")
        if isinstance(o, File) and name == "write":
            return ("write", o)
        if isinstance(o, list) and name in ("append", "extend", "insert", "pop"):
            return ("list", o, name)
        if isinstance(o, Fmt):
            return ("fmt", name)
        if isinstance(o, str) and name == "join":
            return ("join", o)
        if isinstance(o, (Opaque, str, Text)):
            return ("opaque-method", name)
        raise Undecided(f"attribute {name} of {o!r}")

    def call(self, f, args, kw):
        self.tick()
        if isinstance(f, Closure):
            return self.apply(f, args, kw)
        if isinstance(f, Bound):
            return self.apply(f.fn, [f.obj] + list(args), kw)
        if isinstance(f, Class):
            o = Instance(f)
            init = f.attrs.get("__init__")
            if isinstance(init, Closure):
                self.apply(init, [o] + list(args), kw)
            elif args or kw:
                raise Raised("TypeError")
            return o
        if isinstance(f, Exc):
            return f
        if isinstance(f, Np):
            return self.np_call(f.name, args, kw)
        if isinstance(f, tuple) and f and f[0] == "write":
            if len(args) != 1 or kw:
                raise Undecided("write call")
            x = args[0]
            if isinstance(x, Text):
                f[1].rows += x.k
            elif isinstance(x, str) and "\n" not in x:
                pass
            else:
                raise Undecided(f"the number of lines in what is written ({x!r})")
            return None
        if isinstance(f, tuple) and f and f[0] == "list":
            _, lst, name = f
            if kw:
                raise Undecided("list method keywords")
            if name == "append" and len(args) == 1:
                lst.append(args[0])
            elif name == "extend" and len(args) == 1:
                lst.extend(self.iterate(args[0]))      # an element of a vector (a number? a string?) is not known to be iterable: undecided
            elif name == "insert" and len(args) == 2 and isinstance(args[0], int):
                lst.insert(args[0], args[1])
            elif name == "pop" and len(args) <= 1 and all(isinstance(a, int) for a in args):
                try:
                    return lst.pop(*args)
                except IndexError:
                    raise Raised("IndexError")
            else:
                raise Undecided("list method")
            return None
        if isinstance(f, tuple) and f and f[0] == "fmt":
            return Text(1) if f[1] == "format" else Opaque("result of ." + f[1])
        if isinstance(f, tuple) and f and f[0] == "join":
            if len(args) != 1 or kw or "\n" in f[1]:
                raise Undecided("join")
            parts = self.iterate(args[0])
            if all(isinstance(x, Text) or (isinstance(x, str) and "\n" not in x) for x in parts):
                return Text(sum(x.k for x in parts if isinstance(x, Text)))
            return Opaque("joined")
        if isinstance(f, tuple) and f and f[0] == "opaque-method":
            return Opaque("result of ." + f[1])
        if isinstance(f, Builtin):
            return self.builtin(f.name, args, kw)
        raise Undecided(f"call of {f!r}")

    def np_call(self, name, args, kw):
        if kw and not (name == "size" and set(kw) == {"axis"}):
            raise Undecided("numpy keywords")
        x = args[0] if args else None
        if name == "ndim" and len(args) == 1:
            if isinstance(x, Vec):
                return 1
            if isinstance(x, Scalar):
                return 0
        if name == "isscalar" and len(args) == 1:
            if isinstance(x, Vec):
                return False
            if isinstance(x, Scalar):
                return True
        if name == "size" and isinstance(x, Vec):
            ax = kw.get("axis", args[1] if len(args) > 1 else None)
            if ax is None or ax == 0:
                return x.n
        if name == "shape" and len(args) == 1:
            if isinstance(x, Vec):
                return (x.n,)
            if isinstance(x, Scalar):
                return ()
        raise Undecided("numpy function " + name)

    def builtin(self, name, args, kw):
        if kw and name != "enumerate":
            raise Undecided("keywords of " + name)
        if name == "isinstance" and len(args) == 2:
            x, t = args
            ts = list(t) if isinstance(t, tuple) else [t]
            if isinstance(x, (Vec, Scalar)) and ts and all(isinstance(z, Builtin) and z.name in ("str", "bytes") for z in ts):
                return False
            raise Undecided("isinstance")
        if name == "hasattr" and len(args) == 2 and args[1] in ("__len__", "__iter__", "__getitem__"):
            if isinstance(args[0], Vec):
                return True
            if isinstance(args[0], Scalar):
                return False
            raise Undecided("hasattr")
        if name == "len" and len(args) == 1:
            x = args[0]
            if isinstance(x, Vec):
                return x.n
            if isinstance(x, (list, tuple, dict, str, range)):
                return len(x)
            if isinstance(x, Scalar):
                raise Raised("TypeError")
            raise Undecided("len")
        if name == "range":
            vals = [a.v if isinstance(a, Len) else a for a in args]
            if 1 <= len(vals) <= 3 and all(isinstance(a, int) and not isinstance(a, bool) for a in vals) \
                    and all(not isinstance(a, Len) for a in args[1:] if len(args) == 3):
                if len(args) > 1 and any(isinstance(a, Len) for a in args) and not (len(args) == 2 and args[0] == 0):
                    raise Undecided("range over part of a length")
                return range(*vals)
            raise Undecided("range")
        if name == "enumerate":
            start = kw.get("start", args[1] if len(args) > 1 else 0)
            if isinstance(start, int) and not isinstance(start, bool) and 1 <= len(args) <= 2:
                return [(start + k, x) for k, x in enumerate(self.iterate(args[0]))]
            raise Undecided("enumerate")
        if name == "zip":
            return list(zip(*[self.iterate(a) for a in args]))
        if name in ("max", "min"):
            vals = self.iterate(args[0]) if len(args) == 1 else list(args)
            if not vals:
                raise Raised("ValueError")
            best = vals[0]
            for v in vals[1:]:
                if self.cmp(ast.Gt() if name == "max" else ast.Lt(), v, best):
                    best = v
            return best
        if name in ("chain", "chain.from_iterable"):
            its = list(args) if name == "chain" else (self.iterate(args[0]) if len(args) == 1 else None)
            if its is None:
                raise Undecided("chain")
            return [x for it in its for x in self.iterate(it)]
        if name in ("list", "tuple"):
            vals = self.iterate(args[0]) if args else []
            return list(vals) if name == "list" else tuple(vals)
        if name in ("iter", "reversed") and len(args) == 1:
            vals = self.iterate(args[0])
            return vals if name == "iter" else vals[::-1]
        if name == "slice":
            if all(a is None or (isinstance(a, int) and not isinstance(a, bool)) for a in args) and 1 <= len(args) <= 3:
                return slice(*args)
            raise Undecided("slice")
        if name == "bool" and len(args) <= 1:
            return self.truth(args[0]) if args else False
        if name == "callable" and len(args) == 1 and isinstance(args[0], (Closure, Bound)):
            return True
        raise Undecided("builtin " + name)

    def default(self, e, env):
        v = self.ev(e, env)
        if isinstance(v, (list, dict, Instance)):
            raise Undecided("mutable default (evaluated once, when the function is defined)")
        return v

    def apply(self, c, args, kw):
        node = c.node
        a = node.args
        env = Env(c.env, frozenset(n.id for n in ast.walk(node) if isinstance(n, ast.Name) and isinstance(n.ctx, ast.Store)))
        pos = list(a.posonlyargs) + list(a.args)
        args = list(args)
        kw = dict(kw)
        if len(args) > len(pos) and a.vararg is None:
            raise Raised("TypeError")
        for p, v in zip(pos, args):
            env.d[p.arg] = v
        if a.vararg is not None:
            env.d[a.vararg.arg] = tuple(args[len(pos):])
        ndef = len(a.defaults)
        for k, p in enumerate(pos[len(args):], start=len(args)):
            if p.arg in kw:
                env.d[p.arg] = kw.pop(p.arg)
            elif k >= len(pos) - ndef:
                env.d[p.arg] = self.default(a.defaults[k - (len(pos) - ndef)], c.env)
            else:
                raise Raised("TypeError")
        for p, dflt in zip(a.kwonlyargs, a.kw_defaults):
            if p.arg in kw:
                env.d[p.arg] = kw.pop(p.arg)
            elif dflt is not None:
                env.d[p.arg] = self.default(dflt, c.env)
            else:
                raise Raised("TypeError")
        if kw:
            if a.kwarg is None:
                raise Raised("TypeError")
            env.d[a.kwarg.arg] = kw
        elif a.kwarg is not None:
            env.d[a.kwarg.arg] = {}
        if isinstance(node, ast.Lambda):
            return self.ev(node.body, env)
        try:
            self.block(node.body, env)
        except _Return as r:
            return r.v
        return None


def _dotted(n):
    if isinstance(n, ast.Name):
        return n.id
    if isinstance(n, ast.Attribute):
        b = _dotted(n.value)
        return None if b is None else b + "." + n.attr
    return None


def _plain(x):
    return x is None or isinstance(x, (int, str, bool))


def _as_load(t):
    import copy
    t2 = copy.copy(t)
    t2.ctx = ast.Load()
    return t2


# ====================================================================================================================== the worlds
REPS = ((3, 5), (4, 2))     # representatives of (n, m): n, m > 1, n != m, both orders


def worlds():
    """[(tuple of kinds, expected)]: expected = "n" / "1" rows, or "ValueError" """
    out = []
    for k in (2, 3):
        for w in itertools.product(("scalar", "1", "n"), repeat=k):
            out.append((w, "n" if "n" in w else "1"))
    for k in (2, 3):
        for w in itertools.product(("scalar", "1", "n", "m"), repeat=k):
            if "n" in w and "m" in w:
                out.append((w, "ValueError"))
    return out


def show_world(w):
    return "(" + ", ".join(w) + ")"


def run_world(tree, fname, w, n, m):
    """rows written (int) or the name of the exception raised, by fname(file, string, *args) with every keyword at its default"""
    I = Interp(tree)
    try:
        f = I.glob.get(fname)
    except KeyError:
        raise Undecided("no function " + fname)
    if not isinstance(f, Closure):
        raise Undecided(f"{fname} is not a plain function")
    fo = File()
    mk = {"scalar": Scalar, "1": lambda: Vec(1), "n": lambda: Vec(n), "m": lambda: Vec(m)}
    try:
        I.call(f, [fo, Fmt()] + [mk[k]() for k in w], {})
    except Raised as r:
        return r.name
    except (_Break, _Continue, _Return):
        raise Undecided("control flow")
    except RecursionError:
        raise Undecided("recursion")
    return fo.rows


def evaluate(tree, fname="vecwrite"):
    """(verdict, detail): True = every world gives the expected rows / error; False = the first world that differs (detail says which);
    None = some world could not be evaluated (detail says why)"""
    n_ok = 0
    for w, exp in worlds():
        for n, m in REPS:
            try:
                got = run_world(tree, fname, w, n, m)
            except Undecided as u:
                return None, f"argument lengths {show_world(w)}: {u}"
            want = {"n": n, "1": 1}.get(exp, exp)
            if got != want:
                sgot = {n: "n", m: "m", 1: "1"}.get(got, got)
                what = f"{sgot} row(s) written" if isinstance(got, int) else f"{got} raised"
                return False, (f"argument lengths {show_world(w)} (n, m > 1, n != m; evaluated with n = {n}, m = {m}): {what}, expected "
                               + (f"{exp} row(s)" if exp in ("n", "1") else exp))
        n_ok += 1
    return True, f"{n_ok} worlds"
