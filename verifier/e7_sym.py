"""E7b -- symbolic execution of the E7 IR into a transition system between loop heads, and its normal form.

A function is executed on symbols.  Every loop head is a *cut point*: a path that arrives at a loop head ends there and is recorded
as a transition  (source cut point, guard, effect, destination cut point);  the loop head is then explored once from a fresh symbolic
state.  The result for the rainflow kernels is the graph

      START -> H1 -> H2 -> H2 ... -> H1 ... -> H3 -> H3 ... -> END

whatever the loops are spelled like (`for`, `while`, `for(;;)` + `break`, `continue`, early `return`), with helper functions inlined
and every temporary substituted.  A transition's effect is: new values of the state variables, stores into the work arrays (index ->
value), stores into the output arrays (flat index -> value), the array accesses made, reference-count / free events, and the returned
value.  No path feasibility is decided beyond linear integer arithmetic on the path's own tests (Fourier-Motzkin on a handful of
constraints): both outcomes of every data-dependent test are followed.

Control state (pass 3).  Locals that only ever hold constants (False / True / small integers / truth values such as `flag = X < Y`) are
*control flags*: a loop head is a cut point together with ONE setting of the flags that are live there - the setting under which the loop
iterates, found by a first execution in which every (head, setting) pair is a cut point; a path that arrives under another setting (the flag
that replaces a `break`, a `more` flag cleared after the last point, a first-pass flag) simply runs on through the head.  Flags whose head
iterates under several settings stay integer state variables.  `goto` continues at its label when the label is in an enclosing block; a
call of a helper that contains loops is expanded in place when the helper has one final `return`; a data-dependent test made twice on a
path has one outcome.  `merge_exits` composes every counter-only way out of a loop into the transitions that arrive at the head (top-tested,
bottom-tested, tested before entering and flag-steered loops become the same system), `peel_entry` composes what the constant entry state
decides.

`normalise` then brings a transition system to a form in which two implementations of the same automaton are syntactically equal
up to the names of their state variables:
  * arrays are named by role (input / value stack / position stack / 3-column output / 2-column output),
  * a float state variable that provably caches an array element (`A == pts[k]` at the head of the step-6 loop) is replaced by it,
  * every integer state variable v is re-parametrised v = c0 + g*v' (c0 = its value on entry of the loop nest, g = gcd of its
    increments): stack index j / stack size sp, fullcyclesp1 / fullcycles, row index n from -1 or 0, an output cursor advancing by
    3 doubles per row all become the same counter,
  * integer state variables that are provably equal (two output cursors) are merged, a counter that continues another one under a new
    name (a helper's parameter) is renamed to it, dead variables are dropped,
  * `x / 2^k` is `2^-k * x` (exact in IEEE arithmetic); `+` and `*` commute; nothing else is re-associated.
`compare` matches two normal forms transition by transition: every pair of paths whose guards are jointly satisfiable must go to the
same cut point with the same effect (data-dependent tests are identified under the equalities the two guards imply).  Success proves
equality; a failure is only a candidate difference - the rules of c05sem report a VIOLATION when c05_world finds an input on which the two
programs return different tables, and an analysis error otherwise.
"""
from __future__ import annotations

import itertools
import math
from fractions import Fraction

from . import e7_rainir as R
from .core import Unsupported
from .e8_karr import Aff, V, feasible, tighten, _gcd_all

ZERO = ("num", Fraction(0))
START, END, RAISE, FAIL, EPI = "START", "END", "RAISE", "FAIL", "EPI"


# ---------------------------------------------------------------------------
# integer-affine values
def aff_ir(a):
    """canonical IR of an integer-affine value: a number, a variable, or ('aff', ((var, coef), ...), const)"""
    if not a.c:
        return ("num", a.k)
    if len(a.c) == 1 and a.k == 0 and list(a.c.values())[0] == 1:
        return ("var", list(a.c)[0])
    return ("aff", tuple(sorted((v, c) for v, c in a.c.items())), a.k)


def opq_name(e):
    return "<" + show(e) + ">"


def show(e):
    """compact text of a value (diagnostics, and the name of an opaque integer term)"""
    if not isinstance(e, tuple) or not e:
        return str(e)
    k = e[0]
    if k == "num":
        return str(e[1])
    if k == "var":
        return e[1]
    if k == "aff":
        return repr(Aff(dict(e[1]), e[2])).replace(" ", "")
    if k == "sel":
        return f"{e[1]}[{show(e[2])}]"
    if k == "bin":
        return f"({show(e[2])}{e[1]}{show(e[3])})"
    if k == "cmp":
        return f"({show(e[2])}{e[1]}{show(e[3])})"
    if k == "abs":
        return f"|{show(e[1])}|"
    if k == "neg":
        return f"-{show(e[1])}"
    if k == "ptr":
        return f"&{e[1]}[{show(e[2])}]"
    if k == "opq":
        return f"{e[1]}({','.join(show(x) for x in e[2])})"
    if k == "obj":
        return f"{e[1]}({','.join(show(x) for x in e[2:])})"
    if k == "str":
        return repr(e[1])
    if k in ("ige", "ieq"):
        return f"{show(e[1])}{'>=' if k == 'ige' else '=='}0"
    return k + "(" + ",".join(show(x) for x in e[1:]) + ")"


def implied_eqs(cons):
    """inequalities of the set that can only hold with equality"""
    out = []
    for a, k in cons:
        if k == "ge" and a.c and not feasible(cons + [(a - 1, "ge")]):
            out.append(a)
    return out


# ---------------------------------------------------------------------------
class Path:
    def __init__(self, src):
        self.src = src
        self.env = {}
        self.mem = {}          # base -> [(index Aff, value)]
        self.acc = []          # (base, index Aff, 'r' | 'w')
        self.key = []          # (atom, taken)
        self.cons = []         # (Aff, 'ge' | 'eq')
        self.events = []
        self.depth = 0
        self.subst = {}
        self.passes = 0        # loop heads this path went through without ending there (control-flag settings other than the head's own)

    def fork(self):
        p = Path(self.src)
        p.env = dict(self.env)
        p.mem = {k: list(v) for k, v in self.mem.items()}
        p.acc = list(self.acc)
        p.key = list(self.key)
        p.cons = list(self.cons)
        p.events = list(self.events)
        p.depth = self.depth
        p.subst = dict(self.subst)
        p.passes = self.passes
        return p


class Uninitialised(Unsupported):
    """a path between two cut points reads a local name that nothing on any way to it has bound"""

    def __init__(self, msg, name, path):
        super().__init__(msg)
        self.name, self.path = name, path


def arr_id(o):
    """an array value without its element type: size and ndim belong to the sequence, whatever it was converted to"""
    if is_asarray(o):
        return o[:3]
    return o


def is_asarray(o):
    """('obj', 'asarray', x, dtype | null, layout): the array made of x.  layout = ('lay', entry ...): what the conversions on the way asked of
    the memory layout, in order - ('req', requirement word of PyArray_FromAny) | ('contig', ('str', name of a call that returns a
    C-contiguous array))"""
    return isinstance(o, tuple) and len(o) == 5 and o[0] == "obj" and o[1] == "asarray"


F64_NAMES = ("float", "np.float64", "np.double", "numpy.float64", "numpy.double", "np.float_", "NPY_DOUBLE", "NPY_FLOAT64", "float64", "f8", "d", "double", "<f8", "=f8")


def dtype_class(dt):
    """'f64' | 'unspecified' | text of another element type, from a dtype value of the executor"""
    if dt is None or dt == ("null",):
        return "unspecified"
    if dt[0] in ("sym", "var", "str"):
        return "f64" if dt[1] in F64_NAMES else str(dt[1])
    if dt[0] == "obj" and dt[1] == "descr" and len(dt) == 3:
        return dtype_class(dt[2])
    if dt[0] == "obj" and dt[1] == "dtype_of":
        return "like:" + dt[2][1]
    return show(dt)


def is_closed(v, frozen=()):
    """no reference to the state at the start of the path (start symbols, array contents); `frozen`: names that keep one value for the whole
    run of the function (parameters that are never assigned), which may occur"""
    if isinstance(v, tuple):
        if v and v[0] == "var":
            return v[1] in frozen
        if v and v[0] == "aff":
            return all(n in frozen for n, _ in v[1])
        if v and v[0] in ("sel", "unknown"):
            return False
        return all(is_closed(x, frozen) for x in v)
    return True


# ---------------------------------------------------------------------------
# control flags: boolean / small-enum locals that only ever hold constants.  They are part of the *control* state: a loop head is a cut
# point together with one setting of the flags that are live there (see Exec.arrive), never a symbolic state variable.
def _is_flag_const(e):
    return e[0] == "bool" or (e[0] == "num" and e[1].denominator == 1 and abs(e[1]) <= 16)


def _is_bool_expr(e):
    """an expression whose value is a truth value whatever its operands are: a comparison, `not`, `and` / `or` of such"""
    k = e[0]
    if k in ("cmp", "bool"):
        return True
    if k == "not":
        return True
    if k in ("and", "or"):
        return _is_bool_expr(e[1]) and _is_bool_expr(e[2])
    if k == "cond":
        return all(_is_bool_expr(x) or _is_flag_const(x) for x in (e[2], e[3]))
    return False


def control_flags(f):
    """names of the locals of a lowered function that are only ever assigned literal constants (False / True / small integers) or truth
    values (`flag = X < Y`, read as `if X < Y: flag = True else: flag = False`): finitely many values, known on every path"""
    params = {p[0] for p in f.params}
    rhs, bad = {}, set(params)

    def addr(e):
        if isinstance(e, tuple):
            if len(e) == 2 and e[0] == "addr" and isinstance(e[1], tuple) and e[1][:1] == ("var",):
                bad.add(e[1][1])
            for x in e:
                addr(x)
        elif isinstance(e, list):
            for x in e:
                addr(x)
        elif isinstance(e, dict):
            for x in e.values():
                addr(x)
    for s in R.walk_ir(f.body):
        if s[0] == "set" and s[1][0] == "var":
            rhs.setdefault(s[1][1], []).append(s[2])
        elif s[0] == "unpack":
            bad |= {lv[1] for lv in s[1] if lv[0] == "var"}
        elif s[0] == "havoc":
            bad.add(s[1])
        addr(s[1:] if s[0] not in ("if", "loop") else (s[1],))
    return {v for v, es in rhs.items() if v not in bad and not v.startswith("%") and all(_is_flag_const(e) or _is_bool_expr(e) for e in es)}


def flag_liveness(body, flags):
    """{id(loop statement): flags that are live at its head}: read on some syntactic path from the head before being assigned.  A flag that
    is dead at a head (assigned before every read: `half = j == 2` at the top of the body) is not part of that head's control state"""
    res = {}
    top_labels = [i for i, s in enumerate(body) if s[0] == "label"]
    for v in sorted(flags):
        def uses(e):
            return e is not None and v in R.expr_vars(e)
        # `goto`: conservatively, live when the flag is mentioned anywhere from the first label on
        goto_live = bool(top_labels) and any(uses(s) for s in R.walk_ir(body[top_labels[0]:]))

        def seq(stmts, out, brk, cont):
            live = out
            for s in reversed(stmts):
                live = one(s, live, brk, cont)
            return live

        def one(s, out, brk, cont):
            k = s[0]
            if k == "set":
                rd = uses(s[2]) or (s[1][0] != "var" and uses(s[1]))
                return rd if s[1] == ("var", v) else (rd or out)
            if k == "unpack":
                return uses(s[2]) or any(lv[0] != "var" and uses(lv) for lv in s[1]) or out
            if k == "expr":
                return uses(s[1]) or out
            if k in ("return", "raise"):
                return uses(s[1])
            if k == "havoc":
                return False if s[1] == v else out
            if k == "if":
                return uses(s[1]) or seq(s[2], out, brk, cont) or seq(s[3], out, brk, cont)
            if k == "break":
                return bool(brk)
            if k == "continue":
                return bool(cont)
            if k == "goto":
                return goto_live
            if k == "loop":
                head = False
                for _ in range(3):
                    step_in = seq(s[3], head, out, False)
                    body_in = seq(s[2], step_in, out, step_in)
                    new = uses(s[1]) or body_in or (s[1] is not None and out)
                    if new == head:
                        break
                    head = new
                if head:
                    res.setdefault(id(s), set()).add(v)
                else:
                    res.setdefault(id(s), set())
                return head
            return out
        seq(body, False, False, False)
    return res


FREE_NAMES = ("free", "PyMem_Free", "PyMem_RawFree")
NP_ALLOC = ("np.empty", "np.zeros", "numpy.empty", "numpy.zeros")
NP_LIKE = ("np.empty_like", "np.zeros_like", "numpy.empty_like", "numpy.zeros_like")


class Exec:
    def __init__(self, unit, fname, mode="kernel", param_kinds=None, int_names=None, label=None, array_len=None, probe=False, primary=None, nofold=None):
        self._ctor = dict(mode=mode, param_kinds=param_kinds, int_names=int_names, label=label, array_len=array_len)
        self.unit = unit
        self.f = unit.func(fname)
        self.mode = mode
        self.label = label or fname
        self.allocs = {}           # base -> dict(kind, n (Aff | None), rows, cols, dtype, elem)
        self.templates = {}        # node -> {var: ('int',) | ('float',) | ('ptr', base) | ('const', value)}
        self.trans = []
        self.loop_ids = {}
        self.node_order = [START]
        self.param_kinds = param_kinds or []
        self.ints = set(int_names or ())
        self.floats = set()
        self.int_decl = dict(getattr(self.f, "ctypes", {}) or {})
        self.is_c = isinstance(unit, R.CUnit)
        self.params = [p[0] for p in self.f.params]
        self.ncall = 0
        self.opaque = set()        # functions of the unit that are NOT followed (entry mode: the kernels)
        self._rot, self._orig, self._keep = {}, {}, []      # bottom-tested loops read as top-tested ones (see _rotated)
        self.lengths = {}          # array base -> Aff: its number of elements (allocations; the input array when `array_len` names the length parameter)
        self.array_len = dict(array_len or {})
        self.limit = 4000
        self.steps = 0
        # control flags (see control_flags): `probe` = every (loop head, setting of its live flags) is its own cut point; otherwise a head
        # is cut only under its `primary` setting and a path that arrives under another one runs on through the head
        self.nofold = set(nofold or ())      # flags kept as ordinary integer state variables (their heads iterate under several settings)
        self.probe = probe
        self.primary = dict(primary or {})
        self.settings = {}         # probe: loop id -> {composite cut point name: setting}
        self.folded = []           # notes: which flags were folded into which head
        self.body = None
        self._setup_body(expand=False)

    def _setup_body(self, expand=True):
        """everything that depends on the statements executed: the function's own body, with the calls of helper functions that contain loops
        expanded in place (`expand`; done when the run starts, once the set of functions that are not followed is known)"""
        self.inlined = []
        self.body = self._expand(self.f.body, 0) if expand else self.f.body
        shim = type("Fn", (), dict(params=self.f.params, body=self.body))
        self.boolvars = control_flags(shim)      # locals that only ever hold False / True / small integer constants / truth values
        self._infer_ints()
        self.loop_ids = {}
        for i, (s, depth, parent) in enumerate(R.loops_of(self.body)):
            self.loop_ids[id(s)] = f"H{i + 1}"
        self.loops = R.loops_of(self.body)
        self.fn_names = set(getattr(self.f, "locals", ())) | {p[0] for p in self.f.params} | R.assigned_vars(self.body)
        self.frozen = {p[0] for p in self.f.params} - R.assigned_vars(self.body)     # parameters that keep their value throughout
        self.flags = set(self.boolvars) - self.nofold
        self.flag_live = flag_liveness(self.body, self.flags) if self.flags else {}

    def _expand(self, stmts, depth):
        out = []
        for s in stmts:
            call, lv = None, None
            if s[0] == "set" and s[2][0] == "call":
                call, lv = s[2], s[1]
            elif s[0] == "expr" and s[1][0] == "call":
                call = s[1]
            elif s[0] == "unpack" and s[2][0] == "call":
                call, lv = s[2], ("tuple", list(s[1]))
            if call is not None and call[1] not in self.opaque and depth < 3:
                h = self.unit.helper(call[1]) if hasattr(self.unit, "helper") else None
                if h is not None and h is not self.f and any(x[0] == "loop" for x in R.walk_ir(h.body)):
                    inl = self._inline_ir(h, call, lv)
                    if inl is not None:
                        out.extend(self._expand(inl, depth + 1))
                        continue
            if s[0] == "if":
                out.append(("if", s[1], self._expand(s[2], depth), self._expand(s[3], depth)))
            elif s[0] == "loop":
                out.append(("loop", s[1], self._expand(s[2], depth), self._expand(s[3], depth)))
            else:
                out.append(s)
        return out

    def _inline_ir(self, h, call, lv):
        """the statements of helper h with its parameters bound to the arguments of `call` and its single, final `return e` turned into the
        assignment `lv = e`; None when the helper does not have that shape (it is then executed as a call: loops inside are not supported)"""
        names = [a[0] for a in h.params]
        args, kw = call[2], call[3]
        if len(args) > len(names) or any(n not in names for n in kw):
            return None
        bound = dict(zip(names, args))
        for n, v in kw.items():
            if n in bound:
                return None
            bound[n] = v
        for n in names:
            if n not in bound:
                d = getattr(h, "defaults", {}).get(n)
                if d is None:
                    return None
                bound[n] = R.PyFunc.expr(h, d)
        body = list(h.body)
        rets = [x for x in R.walk_ir(body) if x[0] == "return"]
        ret_e = None
        if rets:
            if len(rets) != 1 or body[-1] is not rets[0]:
                return None
            ret_e = rets[0][1]
            body = body[:-1]
        if any(x[0] in ("goto", "label") for x in R.walk_ir(body)):
            return None
        self.ncall += 1
        local = set(names) | R.assigned_vars(body)
        taken = set(getattr(self.f, "locals", ())) | {p[0] for p in self.f.params} | R.assigned_vars(self.f.body)
        mp = {}
        for n in sorted(local):
            new = f"{n}_{h.name.strip('_')}{self.ncall}"
            if new in taken:
                return None
            mp[n] = new
        out = [("set", ("var", mp[n]), bound[n]) for n in names]
        out += rename_ir(body, mp)
        if lv is not None:
            if ret_e is None:
                return None
            ret_e = rename_ir([("expr", ret_e)], mp)[0][1]
            if lv[0] == "tuple":
                # `a, b = helper(...)` with `return x, y`: all right-hand sides first, then the stores
                if ret_e[0] != "tuple" or len(ret_e[1]) != len(lv[1]):
                    return None
                tmps = []
                for i, e in enumerate(ret_e[1]):
                    t = ("var", f"%r{self.ncall}_{i}")
                    out.append(("set", t, e))
                    tmps.append(t)
                out += [("set", x, t) for x, t in zip(lv[1], tmps)]
            else:
                out.append(("set", lv, ret_e))
        for n, new in mp.items():
            cls = getattr(h, "ctypes", {}).get(n)
            if cls is not None:
                self.int_decl[new] = cls
        self.inlined.append(h.name)
        return out

    # ---- typing
    def _infer_ints(self):
        if self.is_c:
            for v, c in self.int_decl.items():
                if c == "int":
                    self.ints.add(v)
                elif c == "float":
                    self.floats.add(v)
            return
        for i, k in enumerate(self.param_kinds):
            if k == "int" and i < len(self.params):
                self.ints.add(self.params[i])
        assigns = {}
        for s in R.walk_ir(self.body):
            if s[0] == "set" and s[1][0] == "var":
                assigns.setdefault(s[1][1], []).append(s[2])
        # greatest fixpoint: every assigned scalar is an integer until one of its assignments is not an integer expression of integers
        cand = set(assigns) - self.boolvars
        base = set(self.ints) | self.boolvars
        changed = True
        while changed:
            changed = False
            self.ints = base | cand
            for v in sorted(cand):
                if not all(self._syn_int(e) for e in assigns[v]):
                    cand.discard(v)
                    changed = True
        self.ints = base | cand

    def _syn_int(self, e):
        k = e[0]
        if k == "num":
            return e[1].denominator == 1
        if k == "bool":
            return True          # False / True are the integers 0 / 1 (a flag that is not folded into the control state is an integer counter)
        if k == "var":
            return e[1] in self.ints
        if k == "bin" and e[1] in "+-*":
            return self._syn_int(e[2]) and self._syn_int(e[3])
        if k == "neg":
            return self._syn_int(e[1])
        return False

    # ---- values
    def is_int(self, e):
        k = e[0]
        if k == "num":
            return e[1].denominator == 1
        if k == "bool":
            return True
        if k == "var":
            return e[1] in self.ints
        if k == "aff":
            return True
        if k == "opq":
            return e[3] == "int"
        if k == "bin" and e[1] in "+-*":
            return self.is_int(e[2]) and self.is_int(e[3])
        if k == "neg":
            return self.is_int(e[1])
        return False

    def aff(self, e):
        k = e[0]
        if k == "aff":
            return Aff(dict(e[1]), e[2])
        if k == "num":
            return Aff({}, e[1])
        if k == "bool":
            return Aff({}, 1 if e[1] else 0)
        if k == "var":
            return V(e[1])
        if k == "opq":
            return V(opq_name(e))
        if k == "neg":
            a = self.aff(e[1])
            return None if a is None else -a
        if k == "bin" and e[1] in "+-":
            a, b = self.aff(e[2]), self.aff(e[3])
            if a is None or b is None:
                return None
            return a + b if e[1] == "+" else a - b
        if k == "bin" and e[1] == "*":
            a, b = self.aff(e[2]), self.aff(e[3])
            if a is None or b is None:
                return None
            if not a.c:
                return b.scale(a.k)
            if not b.c:
                return a.scale(b.k)
        return None

    def simp(self, e):
        k = e[0]
        if k in ("bin", "neg") and self.is_int(e):
            a = self.aff(e)
            if a is not None:
                return aff_ir(a)
        if k == "bin":
            op, a, b = e[1], e[2], e[3]
            if a[0] == "ptr" and op in "+-" and self.is_int(b):
                off = self.aff(a[2])
                d = self.aff(b)
                if off is None or d is None:
                    raise Unsupported("pointer arithmetic with a non-affine offset")
                return ("ptr", a[1], aff_ir(off + d if op == "+" else off - d))
            if b[0] == "ptr" and op == "+" and self.is_int(a):
                return self.simp(("bin", "+", b, a))
            if a[0] == "ptr" and b[0] == "ptr" and op == "-":
                if a[1] != b[1]:
                    raise Unsupported("difference of two pointers into different arrays")
                oa, ob = self.aff(a[2]), self.aff(b[2])
                if oa is None or ob is None:
                    raise Unsupported("pointer difference with a non-affine offset")
                return aff_ir(oa - ob)          # the number of elements between two pointers into one array
            if op == "/" and b[0] == "num" and b[1] != 0 and not self.is_int(a):
                q = b[1]
                if q > 0 and _is_pow2(q):
                    return self.simp(("bin", "*", ("num", 1 / q), a))     # exact scaling by a power of two
            if op in "+*" and repr(b) < repr(a):
                return ("bin", op, b, a)
            return e
        if k == "abs":
            x = e[1]
            if x[0] == "bin" and x[1] == "-" and repr(x[3]) < repr(x[2]):
                return ("abs", ("bin", "-", x[3], x[2]))       # |a - b| == |b - a| exactly
            return e
        if k == "cmp":
            op, a, b = e[1], e[2], e[3]
            if op == ">":
                return ("cmp", "<", b, a)
            if op == ">=":
                return ("cmp", "<=", b, a)
        return e

    # ---- expression evaluation (no forks: `cond`, `and`, `or` are handled by the statement level)
    def ev(self, e, p):
        k = e[0]
        if k in ("num", "str", "null", "bool", "sym", "sizeof"):
            return e
        if k == "var":
            nm = e[1]
            if nm in p.env:
                v = p.env[nm]
                if v == ("unknown",):
                    raise Unsupported(f"`{nm}` is read where it has no defined value")
                return v
            c = self._module_const(nm)
            if c is not None:
                return c
            if isinstance(self.unit, R.PyUnit) and nm not in self.fn_names and nm not in self.unit.module_names and "$" not in nm and not nm.startswith("%"):
                raise Uninitialised(f"{self.label}: `{nm}` is read but bound nowhere (not a local, not a module-level name, not a builtin)", nm, f"from {p.src}")
            return ("var", nm)
        if k == "idx":
            b = self.ev(e[1], p)
            i = self.ev(e[2], p)
            return self.load(b, i, p)
        if k == "idx2":
            b = self.ev(e[1], p)
            return self.load(b, self._flat(b, self.ev(e[2], p), self.ev(e[3], p)), p)
        if k == "upto":
            b = self.ev(e[1], p)
            s = self.ev(e[2], p)
            if b[0] != "ptr" or self.aff(b[2]) is None or self.aff(b[2]).c or self.aff(b[2]).k != 0:
                raise Unsupported("slice of something that is not a whole array")
            return ("obj", "view", b[1], self._need_int(s, "slice stop"))
        if k == "neg":
            return self.simp(("neg", self.ev(e[1], p)))
        if k == "abs":
            return self.simp(("abs", self.ev(e[1], p)))
        if k == "bin":
            return self.simp(("bin", e[1], self.ev(e[2], p), self.ev(e[3], p)))
        if k == "cmp":
            return self.simp(("cmp", e[1], self.ev(e[2], p), self.ev(e[3], p)))
        if k == "not":
            v = self.ev(e[1], p)
            t = self._truth(v)
            if t is None:
                return ("not", v)
            return ("bool", not t)
        if k == "cond":
            t = self._truth(self.ev(e[1], p))
            if t is None:
                raise Unsupported("`?:` with an undecided test in a value position")
            return self.ev(e[2] if t else e[3], p)
        if k in ("and", "or"):
            raise Unsupported(f"`{k}` in a value position")
        if k == "tuple":
            return ("obj", "tuple") + tuple(self.ev(x, p) for x in e[1])
        if k == "attr":
            o = self.ev(e[1], p)
            return self.attr(o, e[2])
        if k == "addr":
            lv = e[1]
            if lv[0] == "var":
                return ("addrof", lv[1])
            return ("obj", "addr", ("str", R.fmt_expr(lv)))
        if k == "call":
            return self.call(e[1], [self.ev(a, p) for a in e[2]], {n: self.ev(v, p) for n, v in e[3].items()}, p)
        if k == "callv":
            f = self.ev(e[1], p)
            if f[0] == "sym" or (f[0] == "var" and self.unit.helper(f[1]) is not None):
                return self.call(f[1], [self.ev(a, p) for a in e[2]], {n: self.ev(v, p) for n, v in e[3].items()}, p)
            raise Unsupported(f"call of a computed function value {show(f)}")
        raise Unsupported(f"expression {k}")

    def _module_const(self, nm):
        if hasattr(self.unit, "const"):
            return self.unit.const(nm)
        return None

    def _need_int(self, v, what):
        if not self.is_int(v) or self.aff(v) is None:
            raise Unsupported(f"{what} is not an integer-affine expression: {show(v)}")
        return aff_ir(self.aff(v))

    def _truth(self, v):
        k = v[0]
        if k == "bool":
            return v[1]
        if k == "num":
            return v[1] != 0
        if k == "null":
            return False
        if k in ("ptr", "obj", "str"):
            return True
        return None

    def attr(self, o, name):
        if name == "dtype" and o[0] == "ptr" and o[2] == ZERO:
            return ("obj", "dtype_of", ("str", o[1]))
        if name == "dtype" and is_asarray(o):
            return o[3]
        if name in ("size", "shape") and o[0] == "ptr" and o[2] == ZERO and self.lengths.get(o[1]) is not None and self.allocs.get(o[1], {}).get("kind") != "out":
            n = aff_ir(self.lengths[o[1]])
            return n if name == "size" else ("obj", "tuple", n)
        if self.mode != "entry":
            raise Unsupported(f"attribute .{name}")
        o = arr_id(o)
        if name in ("size", "ndim"):
            return ("opq", name, (o,), "int")
        if name == "shape":
            return ("obj", "shape", o)
        return ("opq", "." + name, (o,), "any")

    def _asarray(self, x, dt=None, lay=()):
        """the array made of x; element type dt (a dtype value) when the call converts, else whatever x has; `lay`: what this conversion asks of
        the layout (see is_asarray).  ('obj', 'asarray', x, dtype | null, layout)"""
        inner, ilay = ("null",), ("lay",)
        if is_asarray(x):
            x, inner, ilay = x[2], x[3], x[4]
        return ("obj", "asarray", x, dt if dt is not None and dt != ("null",) else inner, tuple(ilay) + tuple(lay))

    def _flat(self, b, r, c):
        if b[0] != "ptr" or b[1] not in self.allocs or not self.allocs[b[1]].get("cols"):
            raise Unsupported("two-index access to something that is not a 2-d array allocated here")
        cols = self.allocs[b[1]]["cols"]
        ra, ca = self.aff(r) if self.is_int(r) else None, self.aff(c) if self.is_int(c) else None
        if ra is None or ca is None or ca.c:
            raise Unsupported("row / column index of a 2-d access")
        if ca.k < 0:
            raise Unsupported(f"column {ca.k} of a {cols}-column array")
        # a column >= cols is kept as the flat cell it would be in C: the counter-balance rule then reports a row that is not filled exactly
        return aff_ir(ra.scale(cols) + ca)

    # ---- memory
    def _index(self, b, i):
        if b[0] == "obj" and b[1] == "shape":
            return None
        if b[0] != "ptr":
            raise Unsupported(f"subscript of {show(b)}")
        off = self.aff(b[2])
        ia = self.aff(i) if self.is_int(i) else None
        if off is None or ia is None:
            raise Unsupported(f"array index is not an integer-affine expression: {show(i)}")
        return off + ia

    def load(self, b, i, p):
        if b[0] == "obj" and b[1] == "shape":
            if i == ZERO:
                return ("opq", "size", (b[2],), "int")       # shape[0] of a vector is its size (the caller tests ndim == 1)
            raise Unsupported("shape[i], i != 0")
        if b[0] == "addrof":
            # *p where p == &v: the caller's variable (a counter or cursor passed to a helper by reference)
            if i != ZERO:
                raise Unsupported(f"(&{b[1]})[{show(i)}]")
            return self.ev(("var", b[1]), p)
        a = self._index(b, i)
        base = b[1]
        info = self.allocs.get(base)
        if info is not None and info["kind"] == "out":
            raise Unsupported(f"read of the output array {base}")
        p.acc.append((base, a, "r"))
        for ix, v in reversed(p.mem.get(base, [])):
            d = a - ix
            if not d.c:
                if d.k == 0:
                    return v
                continue
            if not feasible(p.cons + [(d, "eq")]):
                continue
            if not feasible(p.cons + [(d - 1, "ge")]) and not feasible(p.cons + [(-d - 1, "ge")]):
                return v
            raise Unsupported(f"read {base}[{a}] after a store to {base}[{ix}] whose relation to it is not decided on this path")
        return ("sel", base, aff_ir(a))

    def store(self, b, i, val, p):
        a = self._index(b, i)
        p.acc.append((b[1], a, "w"))
        p.mem.setdefault(b[1], []).append((a, val))

    # ---- calls
    def resolve(self, name, p):
        """a local variable holding a function (`counter = _rainflow2 if getoffsets else _rainflow1`)"""
        v = p.env.get(name)
        if v is not None and v[0] in ("var", "sym") and v[1] != name:
            return v[1]
        return name

    def call(self, name, args, kw, p):
        name = self.resolve(name, p)
        if name in self.opaque:
            return ("opq", name, tuple(args) + tuple(("kw", n, v) for n, v in sorted(kw.items())), "any")
        m = self.model_call(name, args, kw, p)
        if m is not NotImplemented:
            return m
        h = self.unit.helper(name)
        if h is not None:
            res = []
            self.inline(h, args, kw, p, lambda q, v: res.append((q, v)))
            if len(res) != 1 or res[0][0] is not p:
                raise Unsupported(f"helper {name} called inside an expression forks the path")
            return res[0][1]
        if self.mode == "entry":
            return ("opq", name, tuple(args) + tuple(("kw", n, v) for n, v in sorted(kw.items())), "any")
        raise Unsupported(f"call of {name}")

    def model_call(self, name, args, kw, p):
        if name in ("fabs", "abs", "math.fabs", "np.abs", "np.fabs", "np.absolute", "numpy.abs", "numpy.fabs", "numpy.absolute") and len(args) == 1 and not kw:
            return self.simp(("abs", args[0]))
        if name in ("memcpy", "memmove") and len(args) == 3 and args[0][0] == "ptr" and args[1][0] == "ptr":
            n = args[2]
            cnt = None
            if n[0] == "bin" and n[1] == "*":
                x, y = (n[2], n[3]) if n[3][0] == "sizeof" else (n[3], n[2])
                if y[0] == "sizeof" and x[0] == "num" and x[1].denominator == 1 and 1 <= x[1] <= 16:
                    cnt = int(x[1])
            elif n[0] == "sizeof":
                cnt = 1
            if cnt is None:
                raise Unsupported(f"{name} of a size that is not <constant> * sizeof(element)")
            vals = [self.load(args[1], ("num", Fraction(i)), p) for i in range(cnt)]        # all reads first: memmove semantics
            for i, v in enumerate(vals):
                self.store(args[0], ("num", Fraction(i)), v, p)
            return args[0]
        if name in ("PyMem_Calloc", "PyMem_RawCalloc") and len(args) == 2:
            name = "calloc"
        if name in ("PyMem_Malloc", "PyMem_RawMalloc") and len(args) == 1:
            name = "malloc"
        if name in FREE_NAMES and len(args) == 1:
            name = "free"
        if name in ("PyArray_Empty", "PyArray_Zeros") and len(args) == 4:
            nd, dims, descr = args[0], args[1], args[2]
            if nd != ("num", Fraction(2)) or dims[0] != "ptr":
                raise Unsupported(f"{name}: only 2-d arrays with a local dims[] are modelled")
            rows = self.load(dims, ZERO, p)
            cols = self.load(dims, ("num", Fraction(1)), p)
            p.acc = [a for a in p.acc if a[0] != dims[1]]
            if cols[0] != "num":
                raise Unsupported(f"{name}: column count is not a constant")
            typ = descr[2] if descr[0] == "obj" and descr[1] == "descr" and len(descr) == 3 else descr
            return ("alloc", "out", self._need_int(rows, "row count"), int(cols[1]), typ[1] if typ[0] == "sym" else show(typ))
        if name == "PyArray_DescrFromType" and len(args) == 1:
            return ("obj", "descr", args[0])
        if name == "calloc" and len(args) == 2:
            return ("alloc", "work", self._need_int(args[0], "calloc count"), None, args[1][1] if args[1][0] == "sizeof" else None)
        if name == "malloc" and len(args) == 1 and args[0][0] == "bin" and args[0][1] == "*":
            x, y = args[0][2], args[0][3]
            if x[0] == "sizeof":
                x, y = y, x
            if y[0] == "sizeof":
                return ("alloc", "work", self._need_int(x, "malloc count"), None, y[1])
        if name in NP_LIKE and (args or "prototype" in kw or "a" in kw):
            src = args[0] if args else kw.get("prototype", kw.get("a"))
            dt = args[1] if len(args) > 1 else kw.get("dtype")
            if not (src[0] == "ptr" and src[2] == ZERO and self.lengths.get(src[1]) is not None) or self.allocs.get(src[1], {}).get("kind") == "out" \
                    or set(kw) - {"dtype", "prototype", "a"} or len(args) > 2:
                raise Unsupported(f"{name}({show(src)}): only a whole 1-d array of known length is modelled")
            dts = ("like:" + src[1]) if dt is None or dt == ("null",) else self._dtype_text(dt)
            return ("alloc", "work", aff_ir(self.lengths[src[1]]), None, dts)
        if name in NP_ALLOC:
            shape = args[0] if args else kw.get("shape")
            dt = args[1] if len(args) > 1 else kw.get("dtype")
            dts = self._dtype_text(dt)
            if shape is None:
                raise Unsupported(f"{name} without a shape")
            if shape[0] == "obj" and shape[1] == "tuple":
                dims = shape[2:]
                if len(dims) == 1:
                    return ("alloc", "work", self._need_int(dims[0], "array length"), None, dts)
                if len(dims) != 2 or dims[1][0] != "num":
                    raise Unsupported(f"{name} shape {show(shape)}")
                return ("alloc", "out", self._need_int(dims[0], "row count"), int(dims[1][1]), dts)
            return ("alloc", "work", self._need_int(shape, "array length"), None, dts)
        if name == "PyArray_New" and len(args) >= 4:
            nd, dims, typ = args[1], args[2], args[3]
            if nd != ("num", Fraction(2)) or dims[0] != "ptr":
                raise Unsupported("PyArray_SimpleNew: only 2-d arrays with a local dims[] are modelled")
            rows = self.load(dims, ZERO, p)
            cols = self.load(dims, ("num", Fraction(1)), p)
            p.acc = [a for a in p.acc if a[0] != dims[1]]
            if cols[0] != "num":
                raise Unsupported("PyArray_SimpleNew: column count is not a constant")
            return ("alloc", "out", self._need_int(rows, "row count"), int(cols[1]), typ[1] if typ[0] == "sym" else show(typ))
        if name == "len" and len(args) == 1 and args[0][0] == "ptr" and args[0][2] == ZERO and self.lengths.get(args[0][1]) is not None:
            return aff_ir(self.lengths[args[0][1]])
        if name in ("PyArray_DATA", "PyArray_BYTES") and len(args) == 1:
            return args[0]
        if name == "free" and len(args) == 1:
            if args[0][0] == "ptr":
                p.events.append(("free", args[0][1], show(args[0][2])))
            elif args[0][0] != "null":
                raise Unsupported(f"free({show(args[0])})")
            return ("null",)
        if name in ("Py_DECREF", "Py_XDECREF", "Py_CLEAR") and len(args) == 1:
            a = args[0]
            if a[0] == "null":
                if name == "Py_DECREF":
                    p.events.append(("decref-null",))
            elif a[0] == "ptr":
                p.events.append(("decref", a[1]))
            elif a[0] == "obj":
                p.events.append(("decref", show(a)))
            elif self.mode == "entry":
                p.events.append(("decref", show(a)))
            else:
                raise Unsupported(f"{name}({show(a)})")
            return ("null",)
        if name in ("Py_INCREF", "Py_XINCREF", "Py_NewRef", "Py_XNewRef") and len(args) == 1:
            p.events.append(self._incref(args[0]))
            return args[0] if name.endswith("NewRef") else ("null",)
        if name == "PyTuple_New" and len(args) == 1 and args[0][0] == "num":
            self.ncall += 1
            base = f"local:tuple{self.ncall}"
            p.env[f"%len:{base}"] = args[0]
            return ("ptr", base, ZERO)
        if name in ("PyTuple_SET_ITEM", "PyTuple_SetItem") and len(args) == 3 and args[0][0] == "ptr" and args[0][1].startswith("local:tuple") and args[1][0] == "num":
            p.mem.setdefault(args[0][1], []).append((self.aff(args[1]), args[2]))       # the tuple steals the reference: no count changes
            return ("num", Fraction(0))
        if name == "PyTuple_Pack" and args and args[0][0] == "num" and args[0][1] == len(args) - 1:
            for a in args[1:]:                      # the tuple takes its own reference to every item
                p.events.append(self._incref(a))
            return ("obj", "tuple") + tuple(args[1:])
        if name in ("PyLong_FromSsize_t", "PyLong_FromLong", "PyLong_FromLongLong", "PyLong_FromSize_t") and len(args) == 1:
            return ("obj", "pylong", self._need_int(args[0], name))
        if name == "PySlice_New" and len(args) == 3:
            if args[0][0] != "null" or args[2][0] != "null" or not (args[1][0] == "obj" and args[1][1] == "pylong"):
                raise Unsupported("PySlice_New: only [:stop] slices are modelled")
            return ("obj", "slice", args[1][2])
        if name == "PyObject_GetItem" and len(args) == 2:
            a, s = args
            if a[0] == "ptr" and a[2] == ZERO and s[0] == "obj" and s[1] == "slice":
                return ("obj", "view", a[1], s[2])
            raise Unsupported(f"PyObject_GetItem({show(a)}, {show(s)})")
        if name == "Py_BuildValue" and args and args[0][0] == "str":
            f = args[0][1]
            if set(f) <= set("NO") and len(f) == len(args) - 1:
                for ch, a in zip(f, args[1:]):
                    if ch == "O":
                        p.events.append(self._incref(a))
                return args[1] if len(f) == 1 else ("obj", "tuple") + tuple(args[1:])
            raise Unsupported(f"Py_BuildValue format {f!r}")
        if self.mode == "entry":
            return self.entry_call(name, args, kw, p)
        return NotImplemented

    @staticmethod
    def _dtype_text(dt):
        """None (numpy's default, float64) | the name the source gives | 'like:<array>' for the element type of another array"""
        if dt is None or dt == ("null",):
            return None
        if dt[0] in ("sym", "var", "str"):
            return dt[1]
        if dt[0] == "obj" and dt[1] == "dtype_of":
            return "like:" + dt[2][1]
        return show(dt)

    @staticmethod
    def _incref(a):
        return ("incref", a[1] if a[0] == "ptr" else show(a))

    def entry_call(self, name, args, kw, p):
        if name == "PyArg_ParseTupleAndKeywords" and len(args) >= 4:
            fmt = args[2]
            names = []
            kl = args[3]
            if kl[0] == "ptr":
                for ix, v in p.mem.get(kl[1], []):
                    if v[0] == "str":
                        names.append(v[1])
            outs = args[4:]
            p.events.append(("parse", fmt[1] if fmt[0] == "str" else None, tuple(names), len(outs)))
            for i, o in enumerate(outs):
                if o[0] != "addrof":
                    raise Unsupported("PyArg_ParseTupleAndKeywords: output argument is not &variable")
                spec = (fmt[1].replace("|", "").replace("$", "") if fmt[0] == "str" else "")
                ch = spec[i] if i < len(spec) else "?"
                if ch == "p":
                    old = p.env.get(o[1])
                    p.env[o[1]] = ("opq", "arg", (("num", Fraction(i)), old if old is not None else ("null",)), "int")
                    self.ints.add(o[1])
                else:
                    p.env[o[1]] = ("opq", "arg", (("num", Fraction(i)),), "any")
            return ("num", Fraction(1))
        if name in ("PyArray_FromAny", "PyArray_CheckFromAny") and args:
            # (op, descr, min_depth, max_depth, requirements, context): PyArray_FROM_OTF and friends expand to this
            return self._asarray(args[0], args[1] if len(args) > 1 else None, (("req", args[4]),) if len(args) > 4 else ())
        if name in ("PyArray_FROM_OTF", "PyArray_FROM_OF", "PyArray_ContiguousFromAny") and args:
            lay = (("contig", ("str", name)),) if name == "PyArray_ContiguousFromAny" else (("req", args[-1]),) if len(args) == (3 if name == "PyArray_FROM_OTF" else 2) else ()
            return self._asarray(args[0], ("obj", "descr", args[1]) if name != "PyArray_FROM_OF" and len(args) > 1 else None, lay)
        if name == "PyArray_FromArray" and len(args) == 3 and is_asarray(args[0]):
            return self._asarray(args[0], args[1], (("req", args[2]),))          # (array, descr | NULL, requirements)
        if name == "PyArray_NewCopy" and len(args) == 2 and is_asarray(args[0]):
            # a fresh copy of the array; of a vector it is C-contiguous in every order (KEEPORDER falls back to C order for ndim <= 1)
            return self._asarray(args[0], None, (("contig", ("str", name)),))
        if name in ("PyArray_CastToType", "PyArray_Cast") and len(args) >= 2 and is_asarray(args[0]):
            return self._asarray(args[0], args[1] if name == "PyArray_CastToType" else ("obj", "descr", args[1]), (("contig", ("str", name)),))
        if name in ("np.atleast_1d", "np.asarray", "np.ascontiguousarray", "np.asanyarray", "np.array", "np.asfarray") and args:
            dt = kw.get("dtype", args[1] if len(args) > 1 and name != "np.atleast_1d" else None)
            if name == "np.asfarray" and dt is None:
                dt = ("sym", "np.float64")
            return self._asarray(args[0], dt, (("contig", ("str", name)),) if name == "np.ascontiguousarray" else ())
        if name == "method:astype" and args and is_asarray(args[0]):
            dt = args[1] if len(args) > 1 else kw.get("dtype")
            if dt is None:
                raise Unsupported("astype without a dtype")
            return self._asarray(args[0], dt)
        if name == "PyArray_DescrFromType":
            return ("obj", "descr") + tuple(args)
        if name == "PyArray_NDIM" and len(args) == 1:
            return ("opq", "ndim", (arr_id(args[0]),), "int")
        if name == "PyArray_DIM" and len(args) == 2 and args[1] == ZERO:
            return ("opq", "size", (arr_id(args[0]),), "int")
        if name in ("PyArray_DIMS", "PyArray_SHAPE") and len(args) == 1:
            return ("obj", "shape", arr_id(args[0]))
        if name in ("PyArray_SIZE", "PyArray_Size", "np.size") and len(args) == 1:
            return ("opq", "size", (arr_id(args[0]),), "int")
        if name == "PyArray_MultiplyList" and len(args) == 2 and args[0][0] == "obj" and args[0][1] == "shape" \
                and args[1] == ("opq", "ndim", (args[0][2],), "int"):
            return ("opq", "size", (args[0][2],), "int")         # what the macro PyArray_SIZE(a) expands to
        if name == "np.ndim" and len(args) == 1:
            return ("opq", "ndim", (arr_id(args[0]),), "int")
        if name == "np.shape" and len(args) == 1:
            return ("obj", "shape", arr_id(args[0]))
        if name == "len" and len(args) == 1:
            return ("opq", "size", (arr_id(args[0]),), "int")
        if name.startswith("op:"):
            if len(args) == 2 and all(a[0] == "num" and a[1].denominator == 1 for a in args):
                x, y = int(args[0][1]), int(args[1][1])
                r = {"op:&": x & y, "op:|": x | y, "op:^": x ^ y, "op:<<": x << y if 0 <= y < 64 else None, "op:>>": x >> y if 0 <= y < 64 else None}.get(name)
                if r is not None:
                    return ("num", Fraction(r))
            return ("opq", name, tuple(args), "int")
        if name in ("PyErr_SetString", "PyErr_Format", "PyErr_SetObject"):
            p.events.append(("seterr", show(args[0]) if args else None))
            return ("null",)
        return NotImplemented

    def inline(self, h, args, kw, p, kret):
        """execute helper h on the argument values; kret(path, value) is called for every path that returns"""
        p.depth += 1
        if p.depth > 4:
            raise Unsupported("helper calls nested deeper than 4")
        self.ncall += 1
        pre = f"{h.name}${self.ncall}$"
        names = [a[0] for a in h.params]
        if len(args) > len(names):
            raise Unsupported(f"too many arguments for {h.name}")
        bound = dict(zip(names, args))
        for n, v in kw.items():
            if n not in names or n in bound:
                raise Unsupported(f"keyword {n} of {h.name}")
            bound[n] = v
        for n in names:
            if n not in bound:
                d = getattr(h, "defaults", {}).get(n)
                if d is None:
                    raise Unsupported(f"argument {n} of {h.name} is missing")
                bound[n] = self.ev(R.PyFunc.expr(h, d), p)
        local = set(names) | R.assigned_vars(h.body)
        body = rename_ir(h.body, {n: pre + n for n in local})
        for n, v in bound.items():
            p.env[pre + n] = v
        for n in local:
            cls = getattr(h, "ctypes", {}).get(n)
            if cls == "int":
                self.ints.add(pre + n)
        if any(s[0] == "loop" for s in R.walk_ir(body)):
            raise Unsupported(f"helper {h.name} contains a loop")

        def done(q, v):
            for n in list(q.env):
                if n.startswith(pre):
                    del q.env[n]
            q.depth -= 1
            kret(q, v)
        K = dict(fall=lambda q: done(q, ("null",)), brk=None, cont=None, ret=done, labels={})
        self.block(body, p, K)

    # ---- statements (continuation passing: K = dict(fall, brk, cont, ret))
    def block(self, stmts, p, K):
        if not stmts:
            return K["fall"](p)
        self.steps += 1
        if self.steps > 200000:
            raise Unsupported("symbolic execution does not terminate")
        # labels of this statement list: a `goto` from anywhere inside goes on with the statements after the label, in this list's context
        known = K.get("labels") or {}
        here = [(i, x[1]) for i, x in enumerate(stmts) if x[0] == "label" and x[1] not in known]
        if here:
            labels = dict(known)
            K = dict(K, labels=labels)
            for i, name in here:
                labels[name] = (lambda q, i=i, K=K: self.block(stmts[i + 1:], q, K))
        s, rest = stmts[0], stmts[1:]
        if s[0] in ("set", "unpack", "expr", "return", "raise", "if"):
            s2 = hoist_cond(s)
            if s2 is not None:
                return self.block([s2] + list(rest), p, K)
        nxt = (lambda q: self.block(rest, q, K)) if rest else K["fall"]
        k = s[0]
        if k == "set" and s[1][0] == "var" and s[1][1] in self.boolvars and not _is_flag_const(s[2]) and _is_bool_expr(s[2]):
            # `flag = X < Y`  ==  `if X < Y: flag = True else: flag = False`: the flag holds a constant on every path
            yes, no = (("num", Fraction(1)), ("num", Fraction(0))) if self.is_c else (("bool", True), ("bool", False))
            return self.block([("if", s[2], [("set", s[1], yes)], [("set", s[1], no)])] + list(rest), p, K)
        if k == "set":
            return self.assign(s[1], s[2], p, nxt)
        if k == "unpack":
            return self.eval_then(s[2], p, lambda q, v: self._unpack(s[1], v, q, nxt))
        if k == "expr":
            return self.eval_then(s[1], p, lambda q, v: nxt(q))
        if k == "havoc":
            p.env[s[1]] = ("unknown",)
            return nxt(p)
        if k == "if":
            rot = self._rotated(s, p)
            if rot is not None:
                return self.loop(rot, p, nxt, K)
            K2 = dict(K, fall=nxt)
            return self.branch(s[1], p, lambda q: self.block(s[2], q, K2), lambda q: self.block(s[3], q, K2))
        if k == "break":
            if K["brk"] is None:
                raise Unsupported("break outside a loop")
            return K["brk"](p)
        if k == "continue":
            if K["cont"] is None:
                raise Unsupported("continue outside a loop")
            return K["cont"](p)
        if k == "return":
            if s[1] is None:
                return K["ret"](p, ("null",))
            return self.eval_then(s[1], p, lambda q, v: K["ret"](q, v))
        if k == "raise":
            v = None
            if s[1] is not None:
                e = s[1]
                if e[0] == "call":
                    v = ("obj", "exc", ("str", e[1])) + tuple(self.ev(a, p) for a in e[2])
                else:
                    v = self.ev(e, p)
            return self.finish(p, RAISE, exc=v)
        if k == "goto":
            target = (K.get("labels") or {}).get(s[1])
            if target is None:
                raise Unsupported(f"goto {s[1]}: the label is not in an enclosing block")
            p.passes += 1
            if p.passes > 12:
                raise Unsupported(f"a path takes more than 12 jumps (goto {s[1]})")
            return target(p)
        if k == "label":
            return nxt(p)
        if k == "loop":
            return self.loop(s, p, nxt, K)
        raise Unsupported(f"statement {k}")

    def _unpack(self, lvs, v, p, nxt):
        if not (v[0] == "obj" and v[1] == "tuple" and len(v) - 2 == len(lvs)):
            raise Unsupported(f"unpacking of {show(v)}")
        for lv, x in zip(lvs, v[2:]):
            self._store_lv(lv, x, p)
        return nxt(p)

    def eval_then(self, e, p, k):
        """evaluate e (a helper call at the top of e may fork the path) and continue with k(path, value)"""
        if e[0] == "call":
            nm = self.resolve(e[1], p)
            h = self.unit.helper(nm) if nm not in self.opaque else None
            if h is not None:
                args = [self.ev(a, p) for a in e[2]]
                kw = {n: self.ev(v, p) for n, v in e[3].items()}
                return self.inline(h, args, kw, p, k)
        if e[0] == "callv":
            f = self.ev(e[1], p)
            if f[0] in ("sym", "var") and self.unit.helper(f[1]) is not None:
                return self.eval_then(("call", f[1], e[2], e[3]), p, k)
        return k(p, self.ev(e, p))

    def assign(self, lv, e, p, nxt):
        def k(q, v):
            self._store_lv(lv, v, q)
            return nxt(q)
        return self.eval_then(e, p, k)

    def _store_lv(self, lv, v, p):
        if lv[0] == "var":
            if v[0] == "alloc":
                base = lv[1]
                if base in self.allocs:
                    raise Unsupported(f"{base} is allocated twice")
                _, kind, n, cols, dt = v
                na = self.aff(n)
                self.allocs[base] = dict(kind=kind, rows=na, cols=cols, n=na.scale(cols) if cols else na, dtype=dt, order=len(self.allocs))
                if not cols:
                    self.lengths[base] = na
                p.events.append(("alloc", base))
                v = ("ptr", base, ZERO)
            p.env[lv[1]] = v
            return
        if v[0] == "alloc":
            raise Unsupported("allocation stored into an array element")
        b = self.ev(lv[1], p)
        if lv[0] == "idx" and b[0] == "addrof":
            if self.ev(lv[2], p) != ZERO:
                raise Unsupported(f"store to (&{b[1]})[i], i != 0")
            p.env[b[1]] = v
            return
        if lv[0] == "idx":
            if b[0] == "var" and lv[1][0] == "var":
                # a local C array (`npy_intp dims[2]`): its own little memory
                b = ("ptr", "local:" + lv[1][1], ZERO)
                p.env[lv[1][1]] = b
            self.store(b, self.ev(lv[2], p), v, p)
        else:
            self.store(b, self._flat(b, self.ev(lv[2], p), self.ev(lv[3], p)), v, p)

    # ---- tests
    def branch(self, c, p, kt, kf):
        k = c[0]
        if k == "not":
            return self.branch(c[1], p, kf, kt)
        if k == "and":
            return self.branch(c[1], p, lambda q: self.branch(c[2], q, kt, kf), kf)
        if k == "or":
            return self.branch(c[1], p, kt, lambda q: self.branch(c[2], q, kt, kf))
        if k == "cond":
            return self.branch(c[1], p, lambda q: self.branch(c[2], q, kt, kf), lambda q: self.branch(c[3], q, kt, kf))
        v = self.ev(c, p)
        return self.branch_value(v, p, kt, kf)

    def branch_value(self, v, p, kt, kf):
        t = self._truth(v)
        if t is not None:
            return kt(p) if t else kf(p)
        if v[0] == "not":
            return self.branch_value(v[1], p, kf, kt)
        if v[0] == "unknown":
            raise Unsupported("test of an undefined value")
        if v[0] == "cmp":
            op, a, b = v[1], v[2], v[3]
            na, nb = a[0] in ("null",), b[0] in ("null",)
            pa, pb = a[0] in ("ptr", "obj", "str"), b[0] in ("ptr", "obj", "str")
            if a[0] == "ptr" and b[0] == "ptr" and a[1] == b[1]:
                # two pointers into the same array compare like their offsets
                oa, ob = self.aff(a[2]), self.aff(b[2])
                if oa is None or ob is None:
                    raise Unsupported("comparison of two pointers with non-affine offsets")
                d = oa - ob
                if op == "==":
                    return self.fork_int(p, ("ieq", d), kt, kf)
                if op == "!=":
                    return self.fork_int(p, ("ieq", d), kf, kt)
                if op == "<":
                    return self.fork_int(p, ("ige", -d - 1), kt, kf)
                if op == "<=":
                    return self.fork_int(p, ("ige", -d), kt, kf)
            if (na or pa) and (nb or pb):
                eq = (na and nb) or (pa and pb and a == b)
                if pa and pb and a != b:
                    raise Unsupported("comparison of two pointers into different objects")
                res = eq if op == "==" else (not eq if op == "!=" else None)
                if res is None:
                    raise Unsupported("ordering of pointers")
                return kt(p) if res else kf(p)
            if self.is_int(a) and self.is_int(b):
                aa, bb = self.aff(a), self.aff(b)
                if aa is not None and bb is not None:
                    d = aa - bb
                    if op == "==":
                        return self.fork_int(p, ("ieq", d), kt, kf)
                    if op == "!=":
                        return self.fork_int(p, ("ieq", d), kf, kt)
                    if op == "<":         # canonical form after simp: only < and <=
                        return self.fork_int(p, ("ige", -d - 1), kt, kf)
                    if op == "<=":
                        return self.fork_int(p, ("ige", -d), kt, kf)
            for a0, tk in p.key:
                if a0 == v or (p.subst and a0[0] not in ("ige", "ieq") and self._under_subst(a0, p) == v):
                    return kt(p) if tk else kf(p)          # the same test of the same values made again on this path: the same outcome
            t, f = p, p.fork()
            t.key.append((v, True))
            f.key.append((v, False))
            kt(t)
            return kf(f)
        if self.is_int(v) and self.aff(v) is not None:
            return self.fork_int(p, ("ieq", self.aff(v)), kf, kt)      # truth of an integer: v != 0
        for a0, tk in p.key:
            if a0 == ("truth", v):
                return kt(p) if tk else kf(p)
        t, f = p, p.fork()
        t.key.append((("truth", v), True))
        f.key.append((("truth", v), False))
        kt(t)
        return kf(f)

    def _under_subst(self, e, p):
        """a value computed earlier on the path in the spelling it has after the equalities the path has learned since (`j == 2`)"""
        def fa(a):
            for var, val in p.subst.items():
                if var in a.c:
                    a = a.subs(var, val)
            return a
        try:
            return map_value(e, fa, self)
        except Unsupported:
            return e

    def fork_int(self, p, atom, kt, kf):
        kind, d = atom
        if not d.c:
            res = (d.k == 0) if kind == "ieq" else (d.k >= 0)
            return kt(p) if res else kf(p)
        t, f = p, p.fork()
        irx = (kind, aff_ir(d))
        # true arm
        if kind == "ieq":
            tcons = [(d, "eq")]
            fcons_alt = [[(d - 1, "ge")], [(-d - 1, "ge")]]
        else:
            tcons = [(d, "ge")]
            fcons_alt = [[(-d - 1, "ge")]]
        if feasible(t.cons + tcons):
            t.cons += tcons
            t.key.append((irx, True))
            self._apply_eqs(t)
            kt(t)
        alts = [a for a in fcons_alt if feasible(f.cons + a)]
        if alts:
            if len(alts) == 1:
                f.cons += alts[0]
            f.key.append((irx, False))
            self._apply_eqs(f)
            kf(f)

    def _apply_eqs(self, p):
        """equalities implied by the path's integer tests are applied to everything the path has computed so far
        (`j == 2`, or `j >= 2` and not `j > 2`, turn pts[j - 2] into pts[0])"""
        for _ in range(8):
            eqs = [a for a, k in p.cons if k == "eq" and a.c] + implied_eqs(p.cons)
            progress = False
            for e in eqs:
                if any(v in p.subst for v in e.c):
                    continue          # a defining equality kept for feasibility
                cand = [v for v, x in sorted(e.c.items()) if abs(x) == 1 and not v.startswith("<")]
                if not cand:
                    continue
                v = cand[0]
                rest = Aff({w: x for w, x in e.c.items() if w != v}, e.k).scale(-1 / e.c[v])
                self._sub_all(p, v, rest)
                newc = []
                for a, k in p.cons:
                    bb = a.subs(v, rest)
                    if bb.c:
                        newc.append((bb, k))
                p.cons = newc + [(V(v) - rest, "eq")]
                progress = True
                break
            if not progress:
                return

    def _sub_all(self, p, var, val):
        def fa(a):
            return a.subs(var, val) if var in a.c else a

        def sx(e):
            return map_value(e, fa, self)
        p.env = {k: sx(v) for k, v in p.env.items()}
        for b in list(p.mem):
            p.mem[b] = [(fa(i), sx(v)) for i, v in p.mem[b]]
        p.acc = [(b, fa(i), rw) for b, i, rw in p.acc]
        p.subst[var] = val

    # ---- loops and cut points
    def _rotated(self, s, p):
        """`if (g) do { B } while (c);`  (C; or Python's `if g:  while True: B; if not c: break`)  is  `while (c) { B }`  when g and c have the same
        value in the state the `if` is reached in: the guarded bottom-tested loop is read as the top-tested loop it is.  Statements between B and
        the test (`++k` of `while (++k < j)`) become the loop's step.  Returns the top-tested loop statement, or None."""
        if s[3] or len(s[2]) != 1 or s[2][0][0] != "loop" or s[2][0][1] is not None:
            return None
        lp = s[2][0]
        if id(lp) in self._rot:
            cand = self._rot[id(lp)]
        else:
            body, step = list(lp[2]), list(lp[3])

            def split(stmts):
                """(statements before, condition to go on) of a tail `...; if c: pass else: break` / `...; if not_c: break`"""
                if not stmts or stmts[-1][0] != "if":
                    return None
                t = stmts[-1]
                if t[2] == [] and t[3] == [("break",)]:
                    c = t[1]
                elif t[2] == [("break",)] and t[3] == []:
                    c = ("not", t[1])
                else:
                    return None
                return stmts[:-1], c
            cand = None
            if step:
                sp = split(step)
                if sp is not None and all(x[0] == "set" and x[1][0] == "var" for x in sp[0]):
                    cand = ("loop", sp[1], body, sp[0])
            else:
                sp = split(body)
                if sp is not None and not any(x[0] in ("continue",) for x in R.walk_ir(sp[0]) ):
                    cand = ("loop", sp[1], sp[0], [])
            if cand is not None and any(x[0] == "break" for x in R.walk_ir([y for y in cand[3]])):
                cand = None
            self._rot[id(lp)] = cand
            if cand is not None:
                self._keep.append(cand)
        if cand is None:
            return None
        try:
            g, c = self._test_value(s[1], p), self._test_value(cand[1], p)
        except Unsupported:
            return None
        if g is None or g != c:
            return None
        self.loop_ids[id(cand)] = self.loop_ids.get(id(lp))
        self._orig[id(cand)] = lp
        return cand

    def _test_value(self, c, p, neg=False):
        """('ige', d) for a side-effect-free integer order test (or its negation) in the current state; None for anything else"""
        if c[0] == "not":
            return self._test_value(c[1], p, not neg)
        if c[0] != "cmp":
            return None
        v = self.ev(c, p)
        if v[0] != "cmp" or v[1] not in ("<", "<=") or not (self.is_int(v[2]) and self.is_int(v[3])):
            return None
        a, b = self.aff(v[2]), self.aff(v[3])
        if a is None or b is None:
            return None
        d = b - a - (1 if v[1] == "<" else 0)           # the test is d >= 0
        return ("ige", aff_ir(-d - 1 if neg else d))

    def loop(self, s, p, nxt, K):
        lid = self.loop_ids.get(id(s))
        if lid is None:
            raise Unsupported("loop inside a helper function")
        node = lid
        tops = [x for x, depth, parent in self.loops if depth == 0]
        if tops and self._orig.get(id(s), s) is tops[-1]:
            # the code after the last top-level loop (release of the buffers, slicing, return) is its own unit: cut point EPI
            after = nxt
            nxt = lambda q: self.arrive(EPI, ("loop", None, [], []), q, after)     # noqa: E731

        def from_head(q):
            def after_body(r):
                # the step section may leave the loop (`do { } while (c)` is lowered as  loop: body; step: if not c: break)
                return self.block(s[3], r, dict(K, fall=lambda z: self.arrive(node, s, z, from_head), brk=nxt, cont=None))
            Kb = dict(K, fall=after_body, brk=nxt, cont=after_body)
            if s[1] is None:
                return self.block(s[2], q, Kb)
            return self.branch(s[1], q, lambda r: self.block(s[2], r, Kb), nxt)
        return self.arrive(node, s, p, from_head)

    def _live_flags(self, s):
        """the control flags that are live at the head of loop s (a rotated loop: those of the loop it was read from, and of its own test)"""
        if not self.flags:
            return ()
        orig = self._orig.get(id(s), s)
        live = set(self.flag_live.get(id(orig), ()))
        if orig is not s and s[1] is not None:
            live |= self.flags & R.expr_vars(s[1])
        return tuple(sorted(live))

    def arrive(self, node, s, p, from_head):
        live = self._live_flags(s)
        if live:
            setting = tuple((v, p.env.get(v)) for v in live)
            for v, x in setting:
                if x is not None and x != ("unknown",) and not _is_flag_const(x):
                    raise Unsupported(f"control flag `{v}` arrives at {node} with a value that is not a constant: {show(x)}")
            if self.probe:
                # every (head, setting) pair is a control state of its own
                lid = node
                node = lid + "#" + ",".join(f"{v}={show(x) if x is not None else '-'}" for v, x in setting)
                self.settings.setdefault(lid, {})[node] = setting
            else:
                prim = self.primary.setdefault(node, setting)
                if setting != prim:
                    # the head's control state is (head, primary setting); under another setting the path simply runs on through the
                    # loop test and whatever follows (forward substitution of the flag) until it reaches a control state that is a cut point
                    p.passes += 1
                    if p.passes > 12:
                        raise Unsupported(f"a path goes through loop heads more than 12 times under control-flag settings other than the heads' own ({node}: {live})")
                    return from_head(p)
                note = f"{node}: control flag(s) {', '.join(f'{v} = {show(x) if x is not None else chr(45)}' for v, x in setting)} folded into the cut point"
                if note not in self.folded:
                    self.folded.append(note)
        first = node not in self.templates
        if first:
            self.templates[node] = self.make_template(node, s, p, live)
            self.node_order.append(node)
        self.record(p, node)
        if first:
            q = Path(node)
            for v, kind in self.templates[node].items():
                if kind[0] == "const":
                    q.env[v] = kind[1]
                elif kind[0] == "ptr":
                    q.env[v] = ("ptr", kind[1], ("var", v))
                else:
                    q.env[v] = ("var", v)
            from_head(q)

    def make_template(self, node, s, p, live=()):
        assigned = R.assigned_vars(s[2]) | R.assigned_vars(s[3])
        t = {}
        for v, val in p.env.items():
            if "$" in v:
                raise Unsupported("a helper's local variable is live at a loop head")
            if val == ("unknown",):
                t[v] = ("const", val)
            elif v in live and _is_flag_const(val):
                t[v] = ("const", val)           # part of the control state of this cut point
            elif is_closed(val) and v not in assigned:
                t[v] = ("const", val)
            elif val[0] == "ptr" and v not in assigned and v not in self.frozen and is_closed(val, self.frozen):
                t[v] = ("const", val)           # `end = base + L` kept for the loop test: a fixed place in the array, not a cursor
            elif val[0] == "ptr":
                t[v] = ("ptr", val[1])
                self.ints.add(v)
            elif val[0] in ("obj", "str", "null", "alloc", "addrof"):
                if v in assigned:
                    raise Unsupported(f"object-valued variable {v} is assigned inside a loop")
                t[v] = ("const", val)
            elif v in self.ints:
                t[v] = ("int",)
            else:
                t[v] = ("float",)
        return t

    def record(self, p, dst, ret=None, exc=None):
        if len(self.trans) > self.limit:
            raise Unsupported("too many paths")
        if ret is not None and ret[0] == "ptr" and ret[1].startswith("local:tuple") and ret[2] == ZERO:
            # a tuple built with PyTuple_New / PyTuple_SET_ITEM: the value is its items
            n = p.env.get(f"%len:{ret[1]}")
            items = {}
            for ix, v in p.mem.get(ret[1], []):
                items[int(ix.k)] = v
            if n is None or sorted(items) != list(range(int(n[1]))):
                raise Unsupported("a tuple is returned before every item is set")
            ret = ("obj", "tuple") + tuple(items[i] for i in range(int(n[1])))
        self.trans.append(dict(src=p.src, dst=dst, key=list(p.key), cons=list(p.cons), env=dict(p.env), mem={b: list(v) for b, v in p.mem.items()},
                               acc=list(p.acc), events=list(p.events), ret=ret, exc=exc, subst=dict(p.subst)))

    def finish(self, p, dst, ret=None, exc=None):
        self.record(p, dst, ret=ret, exc=exc)

    # ---- driver
    def _choose_primaries(self, args):
        """which setting of its live control flags is a loop head's own: a first execution in which every (head, setting) pair is a cut
        point gives the graph of control states; the setting under which the loop *iterates* (the pair lies on a cycle inside the loop's own
        nest) is the head's, every other setting is transient (the way into the loop, or out of it) and is folded into the paths that go
        through it.  Two iterating settings (a mode switch that persists across iterations) are not reducible to one head: undecided."""
        pr = Exec(self.unit, self.f.name, probe=True, nofold=self.nofold, **self._ctor)
        pr.opaque = set(self.opaque)
        pr.limit = self.limit
        pr.run(args)
        if not pr.settings:
            return True
        parent = {}
        for s, depth, par in pr.loops:
            parent[pr.loop_ids[id(s)]] = pr.loop_ids[id(par)] if par is not None else None

        def lid_of(name):
            return name.split("#")[0]

        def in_nest(name, root):
            x = lid_of(name)
            while x is not None:
                if x == root:
                    return True
                x = parent.get(x)
            return False
        succ = {}
        for t in pr.trans:
            succ.setdefault(t["src"], set()).add(t["dst"])
        for lid, names in pr.settings.items():
            if len(names) == 1:
                self.primary[lid] = next(iter(names.values()))
                continue
            rec = []
            for c in names:
                seen, todo = set(), [c]
                while todo:
                    x = todo.pop()
                    for y in succ.get(x, ()):
                        if y not in seen and in_nest(y, lid):
                            seen.add(y)
                            todo.append(y)
                if c in seen:
                    rec.append(c)
            if len(rec) == 1:
                self.primary[lid] = names[rec[0]]
            elif not rec:
                first = [n for n in pr.node_order if n in names]
                self.primary[lid] = names[first[0]]
            else:
                # a mode that persists across passes of the loop: these flags stay ordinary (integer) state variables of the system
                drop = {v for v, _ in next(iter(names.values()))}
                self.folded.append(f"{lid}: the loop iterates under {len(rec)} settings of {sorted(drop)} "
                                   f"({'; '.join(sorted(x.split('#', 1)[1] for x in rec))}): kept as state variables, not folded into the control state")
                self.nofold |= drop
                self.flags -= drop
                self.flag_live = flag_liveness(self.body, self.flags) if self.flags else {}
                self.primary = {}
                return False
        return True

    def run(self, args=None):
        self._setup_body(expand=True)
        for _ in range(4):
            if not (self.flags and not self.probe and not self.primary and any(self.flag_live.values())):
                break
            if self._choose_primaries(args):
                break
        p = Path(START)
        for i, (nm, cls, q) in enumerate(self.f.params):
            kind = self.param_kinds[i] if i < len(self.param_kinds) else None
            if args is not None and i < len(args):
                p.env[nm] = args[i]
            elif kind == "array":
                base = f"param:{nm}"
                self.allocs[base] = dict(kind="input", rows=None, cols=None, n=None, dtype=None, order=-1)
                p.env[nm] = ("ptr", base, ZERO)
                if i in self.array_len:
                    self.lengths[base] = V(self.f.params[self.array_len[i]][0])
            elif kind == "int":
                self.ints.add(nm)
                p.env[nm] = ("var", nm)
            else:
                p.env[nm] = ("opq", "param", (("str", nm),), "any")
        K = dict(fall=lambda q: self.finish(q, END, ret=("null",)), brk=None, cont=None, ret=lambda q, v: self.finish(q, END, ret=v))
        self.block(self.body, p, K)
        return self


def _find_cond(e):
    """first ('cond', c, a, b) inside an expression (depth first), or None"""
    if isinstance(e, tuple) and e:
        if e[0] == "cond":
            return e
        for x in e[1:]:
            r = _find_cond(x)
            if r is not None:
                return r
    elif isinstance(e, list):
        for x in e:
            r = _find_cond(x)
            if r is not None:
                return r
    elif isinstance(e, dict):
        for x in e.values():
            r = _find_cond(x)
            if r is not None:
                return r
    return None


def _replace(e, old, new):
    if e is old:
        return new
    if isinstance(e, tuple):
        return tuple(_replace(x, old, new) for x in e)
    if isinstance(e, list):
        return [_replace(x, old, new) for x in e]
    if isinstance(e, dict):
        return {k: _replace(v, old, new) for k, v in e.items()}
    return e


def hoist_cond(s):
    """a statement with a conditional expression inside an expression  ->  `if c: stmt[a] else: stmt[b]` (expressions are pure in this IR:
    every side effect is a statement); None when there is nothing to hoist"""
    if s[0] == "if":
        c = _find_cond(s[1])
        if c is None or c is s[1]:
            return None
        return ("if", c[1], [("if", _replace(s[1], c, c[2]), s[2], s[3])], [("if", _replace(s[1], c, c[3]), s[2], s[3])])
    parts = s[1:]
    c = _find_cond(list(parts))
    if c is None:
        return None
    return ("if", c[1], [(s[0],) + tuple(_replace(list(parts), c, c[2]))], [(s[0],) + tuple(_replace(list(parts), c, c[3]))])


def _is_pow2(q):
    q = Fraction(q)
    n, d = q.numerator, q.denominator
    return (n == 1 and d & (d - 1) == 0) or (d == 1 and n & (n - 1) == 0)


def rename_ir(stmts, mp):
    def rx(e):
        if isinstance(e, tuple):
            if e and e[0] == "var":
                return ("var", mp.get(e[1], e[1]))
            return tuple(rx(x) for x in e)
        if isinstance(e, list):
            return [rx(x) for x in e]
        if isinstance(e, dict):
            return {k: rx(v) for k, v in e.items()}
        return e
    out = []
    for s in stmts:
        if s[0] == "havoc":
            out.append(("havoc", mp.get(s[1], s[1])))
        elif s[0] in ("goto", "label"):
            out.append(s)
        else:
            out.append(rx(s))
    return out


def map_value(e, fa, ex):
    """rebuild a value with every integer-affine leaf a replaced by fa(a) (an Aff -> Aff map) and re-simplified"""
    if not isinstance(e, tuple) or not e:
        return e
    k = e[0]
    if k == "var":
        if e[1] in ex.ints:
            return aff_ir(fa(V(e[1])))
        return e
    if k == "aff":
        return aff_ir(fa(Aff(dict(e[1]), e[2])))
    if k == "opq" and e[3] == "int":
        return aff_ir(fa(V(opq_name(e))))
    if k in ("num", "str", "null", "bool", "sym", "unknown"):
        return e
    if k == "sel":
        return ("sel", e[1], map_value(e[2], fa, ex))
    if k in ("bin", "cmp"):
        return ex.simp((k, e[1], map_value(e[2], fa, ex), map_value(e[3], fa, ex)))
    if k in ("abs", "neg", "not"):
        r = (k, map_value(e[1], fa, ex))
        return ex.simp(r) if k in ("neg", "abs") else r
    if k == "ptr":
        return ("ptr", e[1], map_value(e[2], fa, ex))
    if k in ("ige", "ieq"):
        return (k, map_value(e[1], fa, ex))
    return tuple(map_value(x, fa, ex) if isinstance(x, tuple) else x for x in e)


# ---------------------------------------------------------------------------
# transition systems
class TS:
    """nodes (cut points) in order of discovery, phase of every node (index of its top-level loop; START = 0, exits = 99),
    state variables of every node {var: 'int' | 'float'}, transitions (dicts: src, dst, key, scal, arrays, acc, events, ret, exc)"""

    def __init__(self, ex):
        self.ex = ex
        self.label = ex.label
        self.nodes = []
        self.phase = {}
        self.state = {}
        self.trans = []
        self.allocs = {}
        self.roles = {}
        self.notes = []

    def copy(self):
        t = TS(self.ex)
        t.nodes = list(self.nodes)
        t.phase = dict(self.phase)
        t.state = {n: dict(s) for n, s in self.state.items()}
        t.trans = [dict(x, key=list(x["key"]), scal=dict(x["scal"]), arrays={b: list(v) for b, v in x["arrays"].items()}, acc=list(x["acc"])) for x in self.trans]
        t.allocs = {k: dict(v) for k, v in self.allocs.items()}
        t.roles = dict(self.roles)
        t.notes = list(self.notes)
        return t

    def from_(self, node):
        return [t for t in self.trans if t["src"] == node]

    def entries(self, p):
        return [t for t in self.trans if self.phase[t["src"]] < p == self.phase[t["dst"]]]

    def inner(self, p):
        return [t for t in self.trans if self.phase[t["src"]] == p == self.phase[t["dst"]]]

    def phases(self):
        return sorted({p for p in self.phase.values() if 0 < p < 98})

    def int_vars(self):
        return sorted({v for s in self.state.values() for v, k in s.items() if k == "int"})

    def float_vars(self):
        return sorted({v for s in self.state.values() for v, k in s.items() if k == "float"})


def values_of(t):
    """every value of a transition (for traversals)"""
    for a, _ in t["key"]:
        yield a
    yield from t["scal"].values()
    for st in t["arrays"].values():
        for i, v in st:
            yield aff_ir(i)
            yield v
    for b, i, rw in t["acc"]:
        yield aff_ir(i)
    if t.get("ret") is not None:
        yield t["ret"]
    if t.get("exc") is not None and isinstance(t["exc"], tuple):
        yield t["exc"]


def free_vars(e, acc=None):
    acc = set() if acc is None else acc
    if isinstance(e, tuple) and e:
        if e[0] == "var":
            acc.add(e[1])
        elif e[0] == "aff":
            acc.update(v for v, _ in e[1] if not v.startswith("<"))      # `<...>` names an opaque term, not a variable
        elif e[0] in ("num", "str", "sym"):
            pass
        else:
            for x in e[1:]:
                free_vars(x, acc)
    return acc


def map_trans(t, fv, ts):
    """rebuild a transition with every value passed through fv (value -> value); array indices through the same map"""
    def fa_ix(a):
        r = fv(aff_ir(a))
        rr = ts.ex.aff(r)
        if rr is None:
            raise Unsupported("array index is no longer affine")
        return rr
    out = dict(t)
    out["key"] = [(fv(a), b) for a, b in t["key"]]
    out["scal"] = {v: fv(x) for v, x in t["scal"].items()}
    out["arrays"] = {b: [(fa_ix(i), fv(x)) for i, x in st] for b, st in t["arrays"].items()}
    out["acc"] = [(b, fa_ix(i), rw) for b, i, rw in t["acc"]]
    out["ret"] = fv(t["ret"]) if t.get("ret") is not None else None
    out["exc"] = fv(t["exc"]) if isinstance(t.get("exc"), tuple) else t.get("exc")
    return out


def subst_vars(e, mp, ex):
    """replace start symbols: mp = {name: value}; integer names may map to affine values"""
    def go(e):
        if not isinstance(e, tuple) or not e:
            return e
        k = e[0]
        if k == "var":
            return mp.get(e[1], e)
        if k == "aff":
            a = Aff({}, e[2])
            for v, c in e[1]:
                r = mp.get(v)
                if r is None:
                    a = a + V(v).scale(c)
                else:
                    ra = ex.aff(r)
                    if ra is None:
                        raise Unsupported("non-affine substitution into an integer expression")
                    a = a + ra.scale(c)
            return aff_ir(a)
        if k in ("num", "str", "null", "bool", "sym", "unknown"):
            return e
        if k == "opq":
            return ("opq", e[1], tuple(go(x) for x in e[2]), e[3])
        if k in ("bin", "cmp"):
            return ex.simp((k, e[1], go(e[2]), go(e[3])))
        if k in ("neg", "abs"):
            return ex.simp((k, go(e[1])))
        return tuple(go(x) if isinstance(x, tuple) else x for x in e)
    return go(e)


def build_ts(ex):
    ts = TS(ex)
    top = {}
    nphase = 0
    for s, depth, parent in ex.loops:
        lid = ex.loop_ids[id(s)]
        if depth == 0:
            nphase += 1
            top[id(s)] = nphase
            ts.phase[lid] = nphase
        else:
            top[id(s)] = top[id(parent)]
            ts.phase[lid] = top[id(parent)]
    ts.phase[START] = 0
    ts.phase[EPI] = 98
    for n in (END, RAISE, FAIL):
        ts.phase[n] = 99
    # cut points in source order (the order of discovery depends on which arm of a test is followed first, e.g. `p != end` vs `k < L`)
    rank = {START: -1, EPI: 10 ** 6}
    ts.nodes = sorted(ex.node_order, key=lambda n: rank[n] if n in rank else int(n[1:]) if n[:1] == "H" and n[1:].isdigit() else 10 ** 5)
    for n in ts.nodes:
        if n not in ts.phase:
            raise Unsupported(f"cut point {n} without a phase")
    ts.state[START] = {}
    for n, tm in ex.templates.items():
        ts.state[n] = {v: ("int" if k[0] in ("int", "ptr") else "float") for v, k in tm.items() if k[0] != "const"}
    for n in (END, RAISE, FAIL):
        ts.state[n] = {}
    ts.allocs = {b: dict(i) for b, i in ex.allocs.items()}
    ts.notes += list(ex.folded)
    unbound = []
    for t in ex.trans:
        dst = t["dst"]
        scal = {}
        tm = ex.templates.get(dst, {})
        for v, kind in tm.items():
            val = t["env"].get(v)
            if kind[0] == "const":
                if val is not None and val != kind[1]:
                    raise Unsupported(f"`{v}` was taken for a constant of the loop at {dst} but arrives with another value")
                continue
            if val is None:
                # not bound on this path: the value at the source when the variable is part of the source's state, else no defined value
                # (a violation further down only when the variable is live at the destination)
                if v in ts.state.get(t["src"], {}) or v in ex.params or t["src"] not in ex.templates:
                    val = ("var", v)
                else:
                    val = ("unknown",)
                    unbound.append((len(ts.trans), v))
            if kind[0] == "ptr" and val != ("unknown",):
                if val[0] != "ptr" or val[1] != kind[1]:
                    raise Unsupported(f"pointer `{v}` arrives at {dst} pointing into another array")
                val = val[2]
            if val == ("unknown",):
                val = ("unknown",)
            scal[v] = val
        arrays = {b: list(st) for b, st in t["mem"].items() if not b.startswith("local:")}
        acc = [(b, i, rw) for b, i, rw in t["acc"] if not b.startswith("local:")]
        ts.trans.append(dict(src=t["src"], dst=dst, key=list(t["key"]), scal=scal, arrays=arrays, acc=acc, events=list(t["events"]), ret=t["ret"], exc=t["exc"]))
    # reads of variables that are not part of the state at the source: uninitialised
    for t in ts.trans:
        ok = set(ts.state[t["src"]]) | {p for p in ex.params}
        fv = set()
        for v in values_of(t):
            free_vars(v, fv)
        bad = sorted(x for x in fv - ok)
        if bad:
            raise Uninitialised(f"{ex.label}: {t['src']} -> {t['dst']}: `{bad[0]}` is read before it is assigned", bad[0], f"{t['src']} -> {t['dst']}")
    if unbound:
        live = liveness(ts, with_ret=True)
        for i, v in unbound:
            t = ts.trans[i]
            if v in live[t["dst"]]:
                raise Uninitialised(f"{ex.label}: {t['src']} -> {t['dst']}: `{v}` is read before it is assigned", v, f"{t['src']} -> {t['dst']}")
    return ts


# ---- roles
def assign_roles(ts):
    """name the arrays by what they are used for, not by how the source calls them"""
    inp = [b for b, i in ts.allocs.items() if i["kind"] == "input"]
    outs = [b for b, i in ts.allocs.items() if i["kind"] == "out"]
    work = [b for b, i in ts.allocs.items() if i["kind"] == "work"]
    roles = {}
    if len(inp) != 1:
        raise Unsupported(f"expected one input array, found {inp}")
    roles[inp[0]] = "peaks"
    for b in outs:
        c = ts.allocs[b]["cols"]
        r = {3: "rf", 2: "os"}.get(c)
        if r is None or r in roles.values():
            raise Unsupported(f"output array {b} with {c} columns")
        roles[b] = r

    def mentions_input(v):
        if isinstance(v, tuple) and v:
            if v[0] == "sel" and v[1] == inp[0]:
                return True
            return any(mentions_input(x) for x in v[1:])
        return False
    for b in work:
        holds_data = any(mentions_input(v) for t in ts.trans for i, v in t["arrays"].get(b, []))
        r = "pts" if holds_data else "cycle_index"
        if r in roles.values():
            raise Unsupported(f"two work arrays in the role of {r}")
        roles[b] = r
    ts.roles = roles

    def rn(e):
        if not isinstance(e, tuple) or not e:
            return e
        if e[0] == "sel":
            return ("sel", roles.get(e[1], e[1]), rn(e[2]))
        if e[0] == "ptr":
            return ("ptr", roles.get(e[1], e[1]), rn(e[2]))
        if e[0] == "obj" and e[1] == "view":
            return ("obj", "view", roles.get(e[2], e[2]), rn(e[3]))
        if e[0] in ("num", "str", "sym", "var", "aff"):
            return e
        return tuple(rn(x) if isinstance(x, tuple) else x for x in e)
    out = []
    for t in ts.trans:
        t2 = map_trans(t, rn, ts)
        t2["arrays"] = {roles.get(b, b): st for b, st in t2["arrays"].items()}
        t2["acc"] = [(roles.get(b, b), i, rw) for b, i, rw in t2["acc"]]
        t2["events"] = [tuple(roles.get(x, x) if isinstance(x, str) else x for x in ev) for ev in t["events"]]
        out.append(t2)
    ts.trans = out
    ts.allocs = {roles.get(b, b): i for b, i in ts.allocs.items()}
    return ts


# ---- cached array elements
def eliminate_caches(ts):
    """a float state variable A with A == base[e] at the head of a loop nest (e integer-affine in the loop's counters) is replaced by
    base[e]: proved by induction over the transitions of the nest, which must leave `base` alone"""
    ex = ts.ex
    for p in ts.phases():
        nodes = [n for n in ts.nodes if ts.phase[n] == p]
        ent, inn = ts.entries(p), ts.inner(p)
        fvars = sorted({v for n in nodes for v, k in ts.state[n].items() if k == "float"})
        ivars = sorted({v for n in nodes for v, k in ts.state[n].items() if k == "int"})
        for A in fvars:
            ev = [t["scal"].get(A) for t in ent]
            if not ev or any(v is None or v[0] != "sel" or v[2][0] != "num" for v in ev) or len({(v[1], v[2]) for v in ev}) != 1:
                continue
            base, c = ev[0][1], ev[0][2][1]
            if any(t["arrays"].get(base) for t in ent + inn):
                continue
            cands = [Aff({}, c)]
            for k in ivars:
                kv = [t["scal"].get(k) for t in ent]
                if kv and all(v is not None and v[0] == "num" for v in kv) and len({v[1] for v in kv}) == 1:
                    cands.append(V(k) + (c - kv[0][1]))
            found = None
            for e in cands:
                ok = True
                for t in inn:
                    if A not in ts.state[t["dst"]]:
                        continue
                    new = t["scal"].get(A, ("var", A))
                    mp = {v: t["scal"].get(v, ("var", v)) for v in e.c}
                    try:
                        want = ("sel", base, subst_vars(aff_ir(e), mp, ex))              # base[e] in the state after the transition
                        have = subst_vars(new, {A: ("sel", base, aff_ir(e))}, ex)          # new A, using the hypothesis A == base[e] before it
                    except Unsupported:
                        ok = False
                        break
                    if have != want:
                        ok = False
                        break
                if ok:
                    found = e
                    break
            if found is None:
                continue
            rep = ("sel", base, aff_ir(found))
            new_trans = []
            for t in ts.trans:
                if ts.phase[t["src"]] == p:
                    t = map_trans(t, lambda x, rep=rep, A=A: subst_vars(x, {A: rep}, ex), ts)
                if ts.phase[t["dst"]] == p and A in t["scal"]:
                    t = dict(t, scal={v: x for v, x in t["scal"].items() if v != A})
                new_trans.append(t)
            ts.trans = new_trans
            for n in nodes:
                ts.state[n].pop(A, None)
            ts.notes.append(f"phase {p}: {A} == {base}[{found}] (proved by induction), replaced")
    return ts


# ---- integer re-parametrisation
def _carries(x, v, ex):
    """x == v + constant"""
    a = ex.aff(x) if ex.is_int(x) else None
    return a is not None and set(a.c) == {v} and a.c[v] == 1


def reparametrise(ts):
    ex = ts.ex
    phases = ts.phases()
    web = {}       # (var, phase) -> web id
    c0 = {}        # web id -> entry constant
    scal_ok = {}   # web id -> may be scaled
    for v in ts.int_vars():
        prev = None
        for p in phases:
            nodes = [n for n in ts.nodes if ts.phase[n] == p]
            if not any(v in ts.state[n] for n in nodes):
                prev = None
                continue
            vals = [t["scal"].get(v, ("var", v)) for t in ts.entries(p) if v in ts.state[t["dst"]]]
            if vals and all(x[0] == "num" for x in vals) and len({x[1] for x in vals}) == 1:
                w = (v, p)
                c0[w] = vals[0][1]
                scal_ok[w] = True
            elif vals and prev is not None and any(x == ("var", v) or _carries(x, v, ex) for x in vals) \
                    and all(x[0] == "num" or x == ("var", v) or _carries(x, v, ex) for x in vals):
                # the variable is carried into the later loop nest (unchanged, or advanced / reset on the way there: a way out of the earlier
                # nest that was composed with its last pass): the same counter, the same parameters
                w = prev
            else:
                w = (v, p)
                c0[w] = Fraction(0)
                scal_ok[w] = False
            web[(v, p)] = w
            prev = w
    g = {}
    for w in set(web.values()):
        v = w[0]
        ps = {p for (vv, p), ww in web.items() if ww == w}
        ds = []
        ok = scal_ok[w]
        for t in ts.trans:
            if ts.phase[t["src"]] in ps and ts.phase[t["dst"]] in ps and v in ts.state[t["dst"]] and v in ts.state[t["src"]]:
                val = t["scal"].get(v, ("var", v))
                a = ex.aff(val) if ex.is_int(val) else None
                if a is None:
                    ok = False
                    break
                if not a.c:
                    ds.append(a.k - c0[w])
                elif set(a.c) == {v} and a.c[v] == 1:
                    ds.append(a.k)
                else:
                    ok = False
                    break
        gg = _gcd_all(ds) if ok and ds else 1
        g[w] = gg if gg > 1 else 1
        if not ok:
            g[w] = 1

    def par(v, node):
        p = ts.phase[node]
        w = web.get((v, p))
        if w is None:
            return Fraction(0), 1
        return c0[w], g[w]
    new = []
    for t in ts.trans:
        src, dst = t["src"], t["dst"]
        mp = {}
        for v, k in ts.state[src].items():
            if k == "int":
                c, gg = par(v, src)
                if c != 0 or gg != 1:
                    mp[v] = aff_ir(V(v).scale(gg) + c)
        t2 = map_trans(t, lambda x, mp=mp: subst_vars(x, mp, ex), ts) if mp else dict(t)
        sc = dict(t2["scal"])
        for v, k in ts.state[dst].items():
            if k != "int" or v not in sc:
                continue
            c, gg = par(v, dst)
            if c == 0 and gg == 1:
                continue
            a = ex.aff(sc[v]) if ex.is_int(sc[v]) else None
            if a is None:
                raise Unsupported(f"non-affine update of the counter {v}")
            a = (a - c).scale(Fraction(1, gg))
            if any(x.denominator != 1 for x in list(a.c.values()) + [a.k]):
                raise Unsupported(f"counter {v}: increments are not multiples of {gg}")
            sc[v] = aff_ir(a)
        t2["scal"] = sc
        new.append(t2)
    ts.trans = new
    for (v, p), w in sorted(web.items()):
        if c0[w] != 0 or g[w] != 1:
            ts.notes.append(f"{v} (phase {p}) = {c0[w]} + {g[w]}*{v}'")
    ts.params = {k: (c0[w], g[w]) for k, w in web.items()}
    # a variable that is re-initialised for a later loop nest (the loop counter of step 6) is another variable from there on
    first = {}
    for (v, p), w in sorted(web.items(), key=lambda x: x[0][1]):
        first.setdefault(v, w)
    ren = {}          # (var, phase) -> new name
    for (v, p), w in web.items():
        if w != first[v]:
            ren[(v, p)] = f"{v}@{w[1]}"
            ex.ints.add(ren[(v, p)])
    if ren:
        out = []
        for t in ts.trans:
            ps, pd = ts.phase[t["src"]], ts.phase[t["dst"]]
            mp = {v: ("var", nn) for (v, p), nn in ren.items() if p == ps}
            t2 = map_trans(t, lambda x, mp=mp: subst_vars(x, mp, ex), ts) if mp else dict(t)
            t2["scal"] = {ren.get((v, pd), v): x for v, x in t2["scal"].items()}
            out.append(t2)
        ts.trans = out
        for n in ts.state:
            p = ts.phase[n]
            ts.state[n] = {ren.get((v, p), v): k for v, k in ts.state[n].items()}
    return ts


# ---- retiming
def retime(ts, parent):
    """a counter that every entry into an inner loop advances by the same constant c (the stack index in `push`, an input cursor read with
    `*p++`, a loop counter incremented right after its use) is taken at the inner loop head as v - c: the increment then sits on the way out
    of the inner loop, wherever the source put it.  An exact change of variables per cut point; `parent`: inner loop head -> enclosing head"""
    ex = ts.ex
    for node, par in parent.items():
        if par is None or node not in ts.state:
            continue
        ent = [t for t in ts.trans if t["dst"] == node and t["src"] != node]
        if not ent:
            continue
        shift = {}
        for v, k in ts.state[node].items():
            if k != "int":
                continue
            cs = set()
            for t in ent:
                val = t["scal"].get(v, ("var", v))
                a = ex.aff(val) if ex.is_int(val) else None
                if a is None or set(a.c) != {v} or a.c[v] != 1 or v not in ts.state[t["src"]]:
                    cs = None
                    break
                cs.add(a.k)
            if cs and len(cs) == 1 and next(iter(cs)) != 0:
                shift[v] = next(iter(cs))
        if not shift:
            continue
        out = []
        for t in ts.trans:
            t2 = t
            if t["src"] == node:
                mp = {v: aff_ir(V(v) + c) for v, c in shift.items()}
                t2 = map_trans(t2, lambda x, mp=mp: subst_vars(x, mp, ex), ts)
            if t["dst"] == node:
                sc = dict(t2["scal"])
                for v, c in shift.items():
                    val = sc.get(v, ("var", v)) if t["src"] != node else sc.get(v, aff_ir(V(v) + c))
                    a = ex.aff(val) if ex.is_int(val) else None
                    if a is None:
                        raise Unsupported(f"non-affine update of the counter {v}")
                    sc[v] = aff_ir(a - c)
                t2 = dict(t2, scal=sc)
            out.append(t2)
        ts.trans = out
        for v, c in sorted(shift.items()):
            ts.notes.append(f"{v} at {node} taken as {v} - ({c})")
    return ts


# ---- equal variables, dead variables
def merge_equal(ts):
    ex = ts.ex
    ivars = ts.int_vars()
    presence = {v: tuple(n for n in ts.nodes if v in ts.state.get(n, {})) for v in ivars}
    classes = {}
    for v in ivars:
        classes.setdefault(presence[v], []).append(v)
    part = [sorted(c) for c in classes.values()]
    for _ in range(10):
        rep = {v: c[0] for c in part for v in c}
        mp = {v: ("var", r) for v, r in rep.items() if v != r}

        def sig(v):
            out = []
            for i, t in enumerate(ts.trans):
                if v in ts.state[t["dst"]]:
                    val = t["scal"].get(v, ("var", v))
                    out.append((i, repr(subst_vars(val, mp, ex))))
            return tuple(out)
        new = []
        for c in part:
            groups = {}
            for v in c:
                groups.setdefault(sig(v), []).append(v)
            new.extend(sorted(gp) for gp in groups.values())
        if sorted(new) == sorted(part):
            break
        part = new
    rep = {v: c[0] for c in part for v in c}
    mp = {v: ("var", r) for v, r in rep.items() if v != r}
    if mp:
        out = []
        for t in ts.trans:
            t2 = map_trans(t, lambda x: subst_vars(x, mp, ex), ts)
            t2["scal"] = {v: x for v, x in t2["scal"].items() if v not in mp}
            out.append(t2)
        ts.trans = out
        for n in ts.state:
            for v in mp:
                ts.state[n].pop(v, None)
        for v, r in sorted(mp.items()):
            ts.notes.append(f"{v} == {r[1]} (proved by induction), merged")
    # a counter that lives at fewer cut points than the one it copies (a second cursor `iend` that moves in step with `end` but is not needed
    # in the last loop): v == r wherever v is live, by induction over the transitions that arrive where v is live
    for _ in range(6):
        ivars = ts.int_vars()
        presence = {v: {n for n in ts.nodes if v in ts.state.get(n, {})} for v in ivars}
        found = None
        for v in ivars:
            for r in ivars:
                if r == v or not presence[v] < presence[r]:
                    continue
                hyp = {v: ("var", r)}
                ok = True
                for t in ts.trans:
                    if v not in ts.state[t["dst"]]:
                        continue
                    if v not in ts.state[t["src"]] and v not in t["scal"]:
                        ok = False
                        break
                    try:
                        a = subst_vars(t["scal"].get(v, ("var", v)), hyp, ex)
                        b = subst_vars(t["scal"].get(r, ("var", r)), hyp, ex)
                    except Unsupported:
                        ok = False
                        break
                    if a != b:
                        ok = False
                        break
                if ok:
                    found = (v, r)
                    break
            if found:
                break
        if not found:
            break
        v, r = found
        hyp = {v: ("var", r)}
        out = []
        for t in ts.trans:
            t2 = map_trans(t, lambda x: subst_vars(x, hyp, ex), ts) if v in ts.state[t["src"]] else dict(t)
            t2["scal"] = {w: x for w, x in t2["scal"].items() if w != v}
            out.append(t2)
        ts.trans = out
        for n in ts.state:
            ts.state[n].pop(v, None)
        ts.notes.append(f"{v} == {r} wherever {v} is live (proved by induction), merged")
    return ts


def observables(t, with_ret=False, with_acc=True):
    for a, _ in t["key"]:
        yield a
    for st in t["arrays"].values():
        for i, v in st:
            yield aff_ir(i)
            yield v
    if with_acc:
        for b, i, rw in t["acc"]:
            yield aff_ir(i)
    if with_ret and t.get("ret") is not None:
        yield t["ret"]
    if isinstance(t.get("exc"), tuple):
        yield t["exc"]


def liveness(ts, with_ret=False):
    live = {n: set() for n in ts.state}
    changed = True
    while changed:
        changed = False
        for t in ts.trans:
            if t["src"] == EPI and not with_ret:
                continue
            need = set()
            for v in observables(t, with_ret):
                free_vars(v, need)
            for v in live[t["dst"]]:
                free_vars(t["scal"].get(v, ("var", v)), need)
            need &= set(ts.state[t["src"]])
            if not need <= live[t["src"]]:
                live[t["src"]] |= need
                changed = True
    return live


def drop_dead(ts, with_ret=False):
    live = liveness(ts, with_ret)
    for n in ts.state:
        dead = [v for v in ts.state[n] if v not in live[n]]
        for v in dead:
            del ts.state[n][v]
    for t in ts.trans:
        t["scal"] = {v: x for v, x in t["scal"].items() if v in ts.state[t["dst"]]}
    return ts


def drop_arrays(ts, bases):
    ts = ts.copy()
    for t in ts.trans:
        t["arrays"] = {b: st for b, st in t["arrays"].items() if b not in bases}
        t["acc"] = [a for a in t["acc"] if a[0] not in bases]
    return ts


# ---- where a loop is left
def _has_sel(e):
    if isinstance(e, tuple) and e:
        if e[0] in ("sel", "unknown", "opq"):
            return True
        return any(_has_sel(x) for x in e[1:])
    return False


def merge_exits(ts):
    """A way out of a loop that is decided by integer tests alone and does nothing but update counters (`j < 2` at the inner head, `k >= L` at
    the count loop, `k >= j` at step 6) is taken as soon as its condition is known: the transition is composed into every transition that
    arrives at the head, and those keep the complementary condition.  The system then no longer depends on *where* the source tests the
    condition: at the top of the loop, at its bottom (do-while, `while True` + `if ...: break`), before entering it (`if j < 2: continue`), or
    through a flag that is cleared when the condition arises.  An exact rewriting of the transition relation (composition of relations);
    heads are processed from the innermost outwards, in source order."""
    ex = ts.ex
    parent = {}
    for s_, depth, par in ex.loops:
        parent[ex.loop_ids[id(s_)]] = ex.loop_ids[id(par)] if par is not None else None

    def in_nest(node, root):
        x = node
        while x is not None:
            if x == root:
                return True
            x = parent.get(x)
        return False
    heads = [n for n in ts.nodes if n[:1] == "H"]
    depth = {}
    for h in heads:
        d, x = 0, parent.get(h)
        while x is not None:
            d, x = d + 1, parent.get(x)
        depth[h] = d
    order = sorted(heads, key=lambda h: (-depth[h], heads.index(h)))
    for h in order:
        for _round in range(6):
            cand = None
            for t in ts.trans:
                if t["src"] != h or in_nest(t["dst"], h) or not t["key"]:
                    continue
                if any(a[0] not in ("ige", "ieq") for a, _ in t["key"]):
                    continue
                if any(st for st in t["arrays"].values()) or any(rw != "r" for b, i, rw in t["acc"]) or t["events"] or t.get("ret") is not None \
                        or t.get("exc") is not None:
                    continue          # (a read whose value is no longer used - `A = pts[0]` with A replaced by pts[k] - stays an access to be checked)
                if any(_has_sel(x) for x in t["scal"].values()) or any(_has_sel(a) for a, _ in t["key"]):
                    continue
                cand = t
                break
            if cand is None:
                break
            out = []
            for t in ts.trans:
                if t is cand:
                    continue
                if t["dst"] != h:
                    out.append(t)
                    continue
                mp = {v: x for v, x in t["scal"].items()}
                if any(x == ("unknown",) for v, x in mp.items() if any(v in free_vars(y) for y in values_of(cand))):
                    return ts          # the exit reads a variable that has no defined value on this way in: leave the system as it is
                base_cons, base_disj, _ = guard_of(t, ex)
                atoms = [(subst_vars(a, mp, ex), taken) for a, taken in cand["key"]]
                # the composed transition: all exit tests as recorded
                key = list(t["key"]) + atoms
                cons, disj, _ = guard_of(dict(key=key), ex)
                if feasible_with(cons, disj):
                    scal = {v: subst_vars(x, mp, ex) for v, x in cand["scal"].items()}
                    acc = list(t["acc"]) + [(b, ex.aff(subst_vars(aff_ir(i), mp, ex)), rw) for b, i, rw in cand["acc"]]
                    out.append(dict(t, dst=cand["dst"], key=_decided_dropped(key, ex), scal=scal, acc=acc))
                # ... and the ways on to the head: the first i - 1 exit tests as recorded, the i-th the other way
                for i in range(len(atoms)):
                    key = list(t["key"]) + atoms[:i] + [(atoms[i][0], not atoms[i][1])]
                    cons, disj, _ = guard_of(dict(key=key), ex)
                    if feasible_with(cons, disj):
                        out.append(dict(t, key=_decided_dropped(key, ex)))
            ts.trans = out
            ts.notes.append(f"{h}: the way out to {cand['dst']} when {' and '.join(('' if tk else 'not ') + show(a) for a, tk in cand['key'])} is taken "
                            "from wherever the head is reached")
    return ts


def _reads_work(e):
    """does the value read an array other than the input?"""
    if isinstance(e, tuple) and e:
        if e[0] == "sel" and e[1] != "peaks" and not str(e[1]).startswith("param:"):
            return True
        if e[0] in ("unknown", "opq"):
            return True
        return any(_reads_work(x) for x in e[1:])
    return False


def peel_entry(ts, pre=()):
    """What the entry state decides is done on the way in: while the state a START transition arrives with (constants, and `pre`, e.g. L >= 2)
    leaves exactly one way on from the head, and that way neither tests data nor reads the work arrays, the two are composed.  `j = -1; for k in
    range(L): push` and `push peaks[0]; j = 0; for k in range(1, L): push` then arrive at the count loop in the same state."""
    ex = ts.ex
    pre = list(pre)
    for _ in range(4):
        changed = False
        out = []
        for t in ts.trans:
            h = t["dst"]
            if t["src"] != START or h in (END, RAISE, FAIL, EPI) or any(x == ("unknown",) for x in t["scal"].values()):
                out.append(t)
                continue
            mp = dict(t["scal"])
            feas = []
            for u in ts.trans:
                if u["src"] != h:
                    continue
                atoms = [(subst_vars(a, mp, ex), tk) for a, tk in u["key"]]
                key = list(t["key"]) + atoms
                cons, disj, _ = guard_of(dict(key=key), ex)
                if feasible_with(cons + pre, disj):
                    feas.append((u, key))
            if len(feas) != 1:
                out.append(t)
                continue
            u, key = feas[0]
            if u["dst"] in (END, RAISE, FAIL) or u["events"] or u.get("ret") is not None or u.get("exc") is not None \
                    or any(a[0] not in ("ige", "ieq") for a, _ in u["key"]) or any(_reads_work(x) for x in values_of(u)):
                out.append(t)
                continue
            arrays = {b: list(st) for b, st in t["arrays"].items()}
            for b, st in u["arrays"].items():
                for i, x in st:
                    arrays.setdefault(b, []).append((ex.aff(subst_vars(aff_ir(i), mp, ex)), subst_vars(x, mp, ex)))
            acc = list(t["acc"]) + [(b, ex.aff(subst_vars(aff_ir(i), mp, ex)), rw) for b, i, rw in u["acc"]]
            scal = {v: subst_vars(x, mp, ex) for v, x in u["scal"].items()}
            out.append(dict(t, dst=u["dst"], key=_decided_dropped(key, ex), scal=scal, arrays=arrays, acc=acc))
            ts.notes.append(f"START -> {h} -> {u['dst']}: the entry state decides the first move at {h}; composed")
            changed = True
        ts.trans = out
        if not changed:
            break
    return ts


def _decided_dropped(key, ex):
    """a guard without the integer atoms that no longer mention a variable (decided by the composition) and without repeated atoms"""
    out = []
    for a, taken in key:
        if a[0] in ("ige", "ieq"):
            d = ex.aff(a[1])
            if d is not None and not d.c:
                continue
        if (a, taken) not in out:
            out.append((a, taken))
    return out


def coalesce_copies(ts):
    """a counter w that comes into being as a copy of another counter v (`n` handed to a helper that goes on counting in its own parameter;
    `top = j` before a later loop), possibly advanced on the way (v + c), while v itself is no longer live where w lives, IS v under another
    name: w is renamed to v.  Only names change."""
    ex = ts.ex
    for _ in range(8):
        done = False
        for w in ts.int_vars():
            nodes_w = [n for n in ts.nodes if w in ts.state.get(n, {})]
            entries = [t for t in ts.trans if t["dst"] in nodes_w and w not in ts.state.get(t["src"], {})]
            if not nodes_w or not entries:
                continue
            srcs = set()
            for t in entries:
                x = t["scal"].get(w)
                a = ex.aff(x) if x is not None and ex.is_int(x) else None
                if a is None or len(a.c) != 1 or list(a.c.values())[0] != 1:
                    srcs = None
                    break
                srcs.add(next(iter(a.c)))
            if not srcs or len(srcs) != 1:
                continue
            v = next(iter(srcs))
            if v == w or v in ex.params or any(v in ts.state.get(n, {}) for n in nodes_w) or not all(v in ts.state.get(t["src"], {}) for t in entries):
                continue
            mp = {w: ("var", v)}
            out = []
            for t in ts.trans:
                t2 = map_trans(t, lambda x: subst_vars(x, mp, ex), ts) if t["src"] in nodes_w else dict(t)
                if w in t2["scal"]:
                    sc = dict(t2["scal"])
                    sc[v] = sc.pop(w)
                    t2["scal"] = sc
                out.append(t2)
            ts.trans = out
            for n in nodes_w:
                ts.state[n][v] = ts.state[n].pop(w)
            ts.notes.append(f"{w} is {v} under another name from {nodes_w[0]} on (initialised from it, {v} is not used there any more); renamed")
            done = True
            break
        if not done:
            break
    return ts


def normalise(ts, with_ret=False, parent=None):
    ts = ts.copy()
    eliminate_caches(ts)
    drop_dead(ts, with_ret)
    coalesce_copies(ts)
    reparametrise(ts)
    retime(ts, parent if parent is not None else {"H2": "H1"})
    merge_equal(ts)
    drop_dead(ts, with_ret)
    return ts


# ---------------------------------------------------------------------------
# comparison
def _atom_cons(a, taken, ex):
    """integer test -> list of alternative constraint lists (None: not an integer test)"""
    if a[0] == "ige":
        d = ex.aff(a[1])
        return [[(d, "ge")]] if taken else [[(-d - 1, "ge")]]
    if a[0] == "ieq":
        d = ex.aff(a[1])
        return [[(d, "eq")]] if taken else [[(d - 1, "ge")], [(-d - 1, "ge")]]
    return None


def guard_of(t, ex):
    """(integer constraints, disjunctions [[alt constraints, ...], ...] from integer disequalities, {data atom repr: taken})"""
    cons, disj, data = [], [], {}
    for a, taken in t["key"]:
        alts = _atom_cons(a, taken, ex)
        if alts is None:
            data[repr(a)] = taken
        elif len(alts) == 1:
            cons += alts[0]
        else:
            disj.append(alts)
    return cons, disj, data


def feasible_with(cons, disj):
    """conjunction of `cons` and of one alternative of every disjunction"""
    if not disj:
        return feasible(cons)
    return any(feasible_with(cons + alt, disj[1:]) for alt in disj[0])


def equalities(cons):
    """substitution {var: Aff} implied by the constraints"""
    sub = {}
    cons = list(cons)
    for _ in range(8):
        eqs = [a for a, k in cons if k == "eq" and a.c] + implied_eqs(cons)
        progress = False
        for e in eqs:
            if any(v in sub for v in e.c):
                continue
            cand = [v for v, x in sorted(e.c.items()) if abs(x) == 1 and not v.startswith("<")]
            if not cand:
                continue
            v = cand[0]
            rest = Aff({w: x for w, x in e.c.items() if w != v}, e.k).scale(-1 / e.c[v])
            sub[v] = rest
            cons = [(a.subs(v, rest), k) for a, k in cons]
            cons = [(a, k) for a, k in cons if a.c] + [(V(v) - rest, "eq")]
            progress = True
            break
        if not progress:
            break
    return sub


def array_final(st, cons):
    """ordered stores [(index Aff, value)] -> {index repr: value repr}; a later store to the same index wins; two stores whose index
    relation is undecided are an analysis error"""
    out = {}
    order = []
    for n, (i, v) in enumerate(st):
        for i2, _ in st[n + 1:]:
            d = i2 - i
            if d.c and feasible(cons + [(d, "eq")]) and (feasible(cons + [(d - 1, "ge")]) or feasible(cons + [(-d - 1, "ge")])):
                raise Unsupported(f"two stores with undecided index relation ({i} / {i2})")
        out[repr(i)] = show(v)
        order.append(repr(i))
    return out


def effect_repr(t, ts, sub, live_dst, cons):
    ex = ts.ex
    mp = {v: aff_ir(a) for v, a in sub.items()}

    def f(x):
        return subst_vars(x, mp, ex) if mp else x
    t2 = map_trans(t, f, ts) if mp else t
    scal = {v: show(t2["scal"].get(v, ("var", v))) for v in sorted(live_dst)}
    arrays = {b: array_final(st, cons) for b, st in sorted(t2["arrays"].items()) if st}
    exc = show(t2["exc"]) if isinstance(t2.get("exc"), tuple) else None
    return {"to": t2["dst"], "scalars": scal, "stores": arrays, "exception": exc}


def rename_ts(ts, mp):
    """rename state variables (a bijection on names)"""
    ts = ts.copy()
    ex = ts.ex
    vmap = {v: ("var", w) for v, w in mp.items()}
    for v, w in mp.items():
        if v in ex.ints:
            ex.ints.add(w)
    out = []
    for t in ts.trans:
        t2 = map_trans(t, lambda x: subst_vars(x, vmap, ex), ts)
        t2["scal"] = {mp.get(v, v): x for v, x in t2["scal"].items()}
        out.append(t2)
    ts.trans = out
    ts.state = {n: {mp.get(v, v): k for v, k in s.items()} for n, s in ts.state.items()}
    return ts


def compare_named(a, b, only=None):
    """first difference between two normalised transition systems whose state variables already carry the same names (None: equal);
    `only`: restrict the comparison of the transitions to those leaving one cut point"""
    ex = a.ex
    if a.nodes != b.nodes or any(a.phase[n] != b.phase[n] for n in a.nodes):
        return {"what": "loop structure", "left": a.nodes, "right": b.nodes}
    for n in a.nodes:
        if a.state[n] != b.state[n]:
            return {"what": f"state variables at {n}", "left": sorted(a.state[n].items()), "right": sorted(b.state[n].items())}
    for n in a.nodes:
        if n == EPI or (only is not None and n != only):
            continue         # the epilogue (what is returned) is decided per implementation by the counter-balance rule
        TA, TB = a.from_(n), b.from_(n)
        GA = [guard_of(t, ex) for t in TA]
        GB = [guard_of(t, ex) for t in TB]
        hitA, hitB = [False] * len(TA), [False] * len(TB)
        for i, ta in enumerate(TA):
            for j, tb in enumerate(TB):
                ca, ja, da = GA[i]
                cb, jb, db = GB[j]
                if any(k in db and db[k] != v for k, v in da.items()):
                    continue
                cons = ca + cb
                if not feasible_with(cons, ja + jb):
                    continue
                sub = equalities(cons)
                if sub:
                    # the same data-dependent test spelled with what the integer tests of the two paths imply (`pts[j - 2]` after `j == 2` is
                    # `pts[0]`, whichever test the source makes first): opposite outcomes of one test are not jointly satisfiable
                    mp = {v: aff_ir(x) for v, x in sub.items()}
                    da2 = {repr(subst_vars(x, mp, ex)): y for x, y in ta["key"] if _atom_cons(x, y, ex) is None}
                    db2 = {repr(subst_vars(x, mp, ex)): y for x, y in tb["key"] if _atom_cons(x, y, ex) is None}
                    if any(k in db2 and db2[k] != v for k, v in da2.items()):
                        continue
                hitA[i] = hitB[j] = True
                if ta["dst"] != tb["dst"]:
                    return {"at": n, "what": f"from {n}: under the same conditions one goes to {ta['dst']}, the other to {tb['dst']}",
                            "left": [(show(x), y) for x, y in ta["key"]], "right": [(show(x), y) for x, y in tb["key"]]}
                live = set(a.state.get(ta["dst"], {}))
                ea = effect_repr(ta, a, sub, live, cons)
                eb = effect_repr(tb, b, sub, live, cons)
                if ea != eb:
                    part = next(k for k in ea if ea[k] != eb[k])
                    return {"at": n, "what": f"{n} -> {ta['dst']}: different {part}", "when": [f"{show(x)} is {y}" for x, y in ta["key"]],
                            "left": ea[part], "right": eb[part]}
        # Both systems are total and deterministic on their reachable states, so two related states always take a jointly satisfiable pair of
        # paths - compared above.  A path that met no counterpart is therefore only taken from states the other side never reaches in this
        # relation (a guard that ranges over integer states no run produces); it is a difference only when the other side has no way on at all.
        if bool(TA) != bool(TB) and any(feasible_with(g[0], g[1]) for g in (GA or GB)):
            return {"at": n, "what": f"from {n}: only one side has a way on", "left": len(TA), "right": len(TB)}
    return None


def compare(a, b):
    """a, b normalised.  Tries the renamings of b's state variables onto a's (same kind, same set of cut points) and returns
    (first difference under the best renaming | None, renaming)"""
    def sig(ts):
        out = {}
        for n in ts.nodes:
            for v, k in ts.state[n].items():
                out.setdefault(v, [k, []])[1].append(n)
        return {v: (k, tuple(ns)) for v, (k, ns) in out.items()}
    sa, sb = sig(a), sig(b)
    ga, gb = {}, {}
    for v, s in sa.items():
        ga.setdefault(s, []).append(v)
    for v, s in sb.items():
        gb.setdefault(s, []).append(v)
    if {s: len(v) for s, v in ga.items()} != {s: len(v) for s, v in gb.items()}:
        d = {"what": "state variables (kind, cut points where live)", "left": sorted((v, s[0], s[1]) for v, s in sa.items()),
             "right": sorted((v, s[0], s[1]) for v, s in sb.items())}
        fl = lambda g: {s: len(v) for s, v in g.items() if s[0] == "float"}       # noqa: E731
        if fl(ga) == fl(gb):
            # the two sides keep a different number of integer counters that this engine could not relate (only equal counters are merged):
            # nothing is proved either way
            d["undecided"] = True
        return d, {}
    groups = sorted(ga)
    best = None
    n = 0
    for perms in itertools.product(*[itertools.permutations(sorted(ga[s])) for s in groups]):
        n += 1
        if n > 5000:
            break
        mp = {}
        for s, perm in zip(groups, perms):
            for vb, va in zip(sorted(gb[s]), perm):
                mp[vb] = va
        # two-step renaming through fresh names (a permutation may map x -> y and y -> x)
        tmp = {vb: f"~{i}" for i, vb in enumerate(sorted(mp))}
        b2 = rename_ts(rename_ts(b, tmp), {tmp[vb]: va for vb, va in mp.items()})
        b2.ex = a.ex
        a.ex.ints |= b.ex.ints
        d = compare_named(a, b2)
        if d is None:
            return None, mp
        rank = a.nodes.index(d["at"]) if d.get("at") in a.nodes else -1
        if best is None or rank > best[2]:
            best = (d, mp, rank)           # the renaming under which the two sides agree longest
    return best[0], best[1]
