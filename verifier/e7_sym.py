"""E7b -- unit-wise symbolic comparison of the rainflow implementations.

The counting code is cut at its loop heads into *units* (push = the statements of the outer loop before the inner while;
pop = the body of the inner while; mid = the statements between the two top-level loops; tail = the body of the step-6 loop).
Every unit is executed once on a symbolic start state along each of its syntactic paths (a data-dependent test forks the
path and is recorded in the path key; `j == c` substitutes j := c on its true arm).  The result of a path is its effect:
final values of the state variables, the stores into the work arrays (as a map canonical index -> value), the output rows
written relative to the row cursor, and whether it left the loop by `break`.

Two implementations agree when, unit by unit, they have the same paths with the same effects.  This is insensitive to
temporaries, to the order of independent statements, to statements hoisted out of both arms of an if, to indices written
as `0` or `j - 2` under `j == 2`, and to the names of unit-local variables; it is sensitive to every value, index, count,
comparison and update.  No path feasibility is ever decided: both arms of every data-dependent test are followed.
"""
from __future__ import annotations

from fractions import Fraction

from .core import Unsupported
from .e8_karr import Aff, V, aff_of_ir

NCOLS = {"rf": 3, "os": 2}


# ---------------------------------------------------------------------------
# raw lowering: like the emit-grouped IR of e7_rainir but with the individual output stores kept
def raw_c(low, nodes):
    """C: statements with ('push', cursor, expr) kept as they are"""
    out = []
    for n in nodes:
        for s in low.stmt(n):
            out.append(_raw_c_nested(low, s))
    return out


def _raw_c_nested(low, s):
    return s


def ungroup(stmts):
    """emit-grouped IR -> raw: ('emit', arr, (e0, e1, ..)) becomes ('push', arr, e0), ('push', arr, e1), ..."""
    out = []
    for s in stmts:
        if s[0] == "emit":
            for e in s[2]:
                out.append(("push", s[1], e))
        elif s[0] == "for":
            out.append(("for", s[1], s[2], s[3], ungroup(s[4])))
        elif s[0] == "while":
            out.append(("while", s[1], ungroup(s[2])))
        elif s[0] == "if":
            out.append(("if", s[1], ungroup(s[2]), ungroup(s[3])))
        else:
            out.append(s)
    return out


# ---------------------------------------------------------------------------
def int_vars(stmts, seeds=("L", "k")):
    """scalars that only ever hold integers: loop variables and variables assigned only affine combinations of integer variables"""
    assigns = {}
    loopv = set()

    def walk(ss):
        for s in ss:
            if s[0] == "set" and s[1][0] == "var":
                assigns.setdefault(s[1][1], []).append(s[2])
            elif s[0] == "for":
                loopv.add(s[1])
                walk(s[4])
            elif s[0] == "while":
                walk(s[2])
            elif s[0] == "if":
                walk(s[2])
                walk(s[3])
    walk(stmts)
    ints = set(seeds) | loopv
    changed = True
    while changed:
        changed = False
        for v, es in assigns.items():
            if v in ints:
                continue
            ok = True
            for e in es:
                a = aff_of_ir(e)
                if a is None or not (a.vars() - {v}) <= ints or any(c.denominator != 1 for c in list(a.c.values()) + [a.k]):
                    ok = False
                    break
            if ok:
                ints.add(v)
                changed = True
    return ints


def _aff_to_ir(a):
    """canonical IR of an integer-affine value: a number, a variable, or ('aff', ((var, coef), ...), const)"""
    if not a.c:
        return ("num", a.k)
    if len(a.c) == 1 and a.k == 0 and list(a.c.values())[0] == 1:
        return ("var", list(a.c)[0])
    return ("aff", tuple(sorted((v, c) for v, c in a.c.items())), a.k)


class Path:
    def __init__(self, ints, rowvar=None):
        self.env = {}          # scalar -> value expr (absent: start value ('var', name))
        self.arr = {}          # array -> list of (index Aff, value)
        self.out = {}          # output array -> {(row offset, col): value}
        self.cur = {}          # C: output cursor advance (number of pushes) per output array
        self.key = []          # decisions: (canonical test, taken)
        self.subst = {}        # start-value substitutions from `v == c` tests
        self.brk = False
        self.ints = ints
        self.rowvar = rowvar
        self.acc = []          # (array, index Aff over the start state, 'r' | 'w')

    def fork(self):
        p = Path(self.ints, self.rowvar)
        p.env = dict(self.env)
        p.arr = {k: list(v) for k, v in self.arr.items()}
        p.out = {k: dict(v) for k, v in self.out.items()}
        p.cur = dict(self.cur)
        p.key = list(self.key)
        p.subst = dict(self.subst)
        p.brk = self.brk
        p.acc = list(self.acc)
        return p

    # ---- expressions
    def ev(self, e):
        k = e[0]
        if k == "num":
            return e
        if k == "var":
            if e[1] in self.env:
                return self.env[e[1]]
            if e[1] in self.subst:
                return ("num", self.subst[e[1]])
            return e
        if k == "idx":
            return self.read(e[1], self.ev(e[2]))
        if k in ("neg", "abs"):
            return self.simp((k, self.ev(e[1])))
        if k in ("bin", "cmp"):
            return self.simp((k, e[1], self.ev(e[2]), self.ev(e[3])))
        if k == "aff":
            return e
        raise Unsupported(f"expression {e}")

    def is_int(self, e):
        if e[0] == "num":
            return e[1].denominator == 1
        if e[0] == "var":
            return e[1] in self.ints
        if e[0] == "aff":
            return True
        if e[0] == "bin" and e[1] in "+-*":
            return self.is_int(e[2]) and self.is_int(e[3])
        if e[0] == "neg":
            return self.is_int(e[1])
        return False

    def aff(self, e):
        """Aff of an integer expression (with ('aff', ..) nodes understood), or None"""
        if e[0] == "aff":
            return Aff(dict(e[1]), e[2])
        if e[0] == "num":
            return Aff({}, e[1])
        if e[0] == "var":
            return V(e[1])
        if e[0] == "neg":
            a = self.aff(e[1])
            return None if a is None else -a
        if e[0] == "bin" and e[1] in "+-":
            a, b = self.aff(e[2]), self.aff(e[3])
            if a is None or b is None:
                return None
            return a + b if e[1] == "+" else a - b
        if e[0] == "bin" and e[1] == "*":
            a, b = self.aff(e[2]), self.aff(e[3])
            if a is None or b is None:
                return None
            if not a.c:
                return b.scale(a.k)
            if not b.c:
                return a.scale(b.k)
        return None

    def simp(self, e):
        """integer sub-expressions are brought to an affine normal form; float expressions keep their exact tree (only the two
        operands of a single + or * are ordered: IEEE addition and multiplication are commutative, not associative)"""
        if self.is_int(e):
            a = self.aff(e)
            if a is not None:
                if not a.c:
                    return ("num", a.k)
                if len(a.c) == 1 and a.k == 0 and list(a.c.values())[0] == 1:
                    return ("var", list(a.c)[0])
                return _aff_to_ir(a)
        if e[0] == "bin" and e[1] in "+*" and repr(e[3]) < repr(e[2]):
            return ("bin", e[1], e[3], e[2])
        if e[0] == "cmp":
            # integer comparison with both sides known
            a, b = (self.aff(e[2]) if self.is_int(e[2]) else None), (self.aff(e[3]) if self.is_int(e[3]) else None)
            if a is not None and b is not None:
                d = a - b
                if not d.c:
                    t = {"<": d.k < 0, ">": d.k > 0, "<=": d.k <= 0, ">=": d.k >= 0, "==": d.k == 0, "!=": d.k != 0}[e[1]]
                    return ("bool", t)
                return ("cmp", e[1], _aff_to_ir(d), ("num", Fraction(0)))
        return e

    def sub_all(self, var, val):
        """apply the path fact start(var) == val everywhere"""
        self.subst[var] = val

        def sx(e):
            k = e[0]
            if k == "var":
                return ("num", val) if e[1] == var else e
            if k == "aff":
                a = Aff(dict(e[1]), e[2])
                if var in a.c:
                    a = a.subs(var, val)
                return self.simp(_aff_to_ir(a))
            if k in ("neg", "abs"):
                return self.simp((k, sx(e[1])))
            if k in ("bin", "cmp"):
                return self.simp((k, e[1], sx(e[2]), sx(e[3])))
            if k == "sel":
                return self.simp_sel(e[1], sx(e[2]))
            return e
        self.env = {k: sx(v) for k, v in self.env.items()}
        for a in list(self.arr):
            self.arr[a] = [(self._aff_sub(i, var, val), sx(v)) for i, v in self.arr[a]]
        for o in self.out:
            self.out[o] = {k: sx(v) for k, v in self.out[o].items()}
        # decisions already taken keep the test as it was evaluated (siblings of a fork must share it)

    @staticmethod
    def _aff_sub(a, var, val):
        return a.subs(var, val) if var in a.c else a

    def simp_sel(self, arr, ix):
        return ("sel", arr, ix)

    # ---- arrays
    def index_aff(self, ix):
        a = self.aff(ix) if self.is_int(ix) else None
        if a is None:
            raise Unsupported(f"array index is not an integer-affine expression: {ix}")
        return a

    def read(self, arr, ix):
        a = self.index_aff(ix)
        self.acc.append((arr, a, "r"))
        for i, v in reversed(self.arr.get(arr, [])):
            d = a - i
            if not d.c:
                if d.k == 0:
                    return v
                continue
            raise Unsupported(f"read {arr}[{a}] after a store to {arr}[{i}] whose relation to it is not decided on this path")
        return ("sel", arr, _aff_to_ir(a))

    def store(self, arr, ix, val):
        a = self.index_aff(ix)
        self.acc.append((arr, a, "w"))
        self.arr.setdefault(arr, []).append((a, val))

    def array_state(self, arr):
        st = {}
        ups = self.arr.get(arr, [])
        for n, (i, v) in enumerate(ups):
            # a later store to an index whose relation to i is undecided makes the final value at i ambiguous
            for i2, _ in ups[n + 1:]:
                d = i2 - i
                if d.c:
                    raise Unsupported(f"two stores to {arr} with undecided index relation ({i} / {i2})")
            st[_aff_to_ir(i)] = v
        return st


def run_unit(stmts, ints, rowvar, start_env=None):
    """all paths of a loop-free statement list (nested loops are not allowed inside a unit)"""
    p0 = Path(ints, rowvar)
    if start_env:
        p0.env.update(start_env)
    paths = [p0]
    for s in stmts:
        nxt = []
        for p in paths:
            if p.brk:
                nxt.append(p)
                continue
            nxt.extend(_step(s, p))
        paths = nxt
    return paths


def _step(s, p):
    k = s[0]
    if k == "set":
        val = p.ev(s[2])
        if s[1][0] == "var":
            p.env[s[1][1]] = val
        else:
            p.store(s[1][1], p.ev(s[1][2]), val)
        return [p]
    if k == "push":          # C: *cursor++ = e
        arr = s[1]
        n = p.cur.get(arr, 0)
        nc = NCOLS.get(arr)
        if nc is None:
            raise Unsupported(f"push through an unknown cursor {arr}")
        p.out.setdefault(arr, {})[(n // nc, n % nc)] = p.ev(s[2])
        p.cur[arr] = n + 1
        return [p]
    if k == "cell":          # Python: arr[row, col] = e  with row = rowvar (+ const)
        _, arr, r, c, e = s
        row = p.ev(r)
        a = p.index_aff(row)
        # row relative to the cursor at unit start: the counter holds the index of the last row written
        d = a - V(p.rowvar)
        if d.c:
            raise Unsupported(f"output row {a} is not the row counter plus a constant")
        off = int(d.k) - 1
        if off < 0:
            raise Unsupported("output row written at or before the row the counter already points to")
        p.out.setdefault(arr, {})[(off, c)] = p.ev(e)
        return [p]
    if k == "break":
        p.brk = True
        return [p]
    if k == "if":
        c = p.ev(s[1])
        if c[0] == "bool":
            arm = s[2] if c[1] else s[3]
            return _run_arm(arm, [p])
        t, f = p, p.fork()
        # `v == const` on a start value: substitute on the true arm
        if c[0] == "cmp" and c[1] == "==" and c[2][0] == "aff" and len(c[2][1]) == 1 and c[2][1][0][1] in (1, -1) and c[3] == ("num", Fraction(0)):
            (var, co), = c[2][1]
            val = -c[2][2] / co
            t.key.append((c, True))
            f.key.append((c, False))
            t.sub_all(var, val)
        else:
            t.key.append((c, True))
            f.key.append((c, False))
        return _run_arm(s[2], [t]) + _run_arm(s[3], [f])
    if k in ("for", "while"):
        raise Unsupported("loop inside a unit")
    raise Unsupported(f"statement {k}")


def _run_arm(stmts, paths):
    for s in stmts:
        nxt = []
        for p in paths:
            if p.brk:
                nxt.append(p)
            else:
                nxt.extend(_step(s, p))
        paths = nxt
    return paths


# ---------------------------------------------------------------------------
def split_units(region):
    """region = [outer for, mid sets..., tail for]  ->  dict of units"""
    outer, tail = region[0], region[-1]
    mid = list(region[1:-1])
    if outer[0] != "for" or tail[0] != "for":
        raise Unsupported("region is not (count loop, ..., step-6 loop)")
    body = outer[4]
    wh = [i for i, s in enumerate(body) if s[0] == "while"]
    if len(wh) != 1 or wh[0] != len(body) - 1:
        raise Unsupported("the count loop body is not (push statements..., inner while)")
    w = body[wh[0]]
    return {"outer_range": (outer[1], outer[2], outer[3]), "push": body[:wh[0]], "while_cond": w[1], "pop": w[2],
            "mid": mid, "tail_range": (tail[1], tail[2], tail[3]), "tail": tail[4]}


def effects(region, rowvar=None, drop_arrays=(), drop_outputs=()):
    """{unit: {path key: effect}} and the set of state variables (scalars read before written in some unit)"""
    raw = ungroup(region)
    ints = int_vars(raw) | ({rowvar} if rowvar else set())
    u = split_units(raw)
    res = {}
    state = set()
    for name in ("push", "pop", "mid", "tail"):
        paths = run_unit(u[name], ints, rowvar)
        eff = {}
        for p in paths:
            key = tuple((repr(t), taken) for t, taken in p.key)
            outs = {a: {k: v for k, v in d.items()} for a, d in p.out.items() if a not in drop_outputs}
            rows = {}
            for a, d in outs.items():
                nrows = 1 + max(r for r, _ in d) if d else 0
                # every cell of every row written exactly once
                want = {(r, c) for r in range(nrows) for c in range(NCOLS[a])}
                if set(d) != want:
                    raise Unsupported(f"unit {name}: output {a} rows are not written completely ({sorted(d)})")
                rows[a] = nrows
            for a, n in p.cur.items():
                if a in drop_outputs:
                    continue
                if n % NCOLS[a]:
                    raise Unsupported(f"unit {name}: cursor {a} advanced by {n}, not a whole number of rows")
            scal = {}
            for v, val in p.env.items():
                scal[v] = val
            if rowvar and rowvar in scal:
                a = p.index_aff(scal[rowvar]) - V(rowvar)
                if a.c:
                    raise Unsupported("row counter is not advanced by a constant")
                adv = int(a.k)
                for arr, n in rows.items():
                    if n != adv:
                        raise Unsupported(f"unit {name}: {n} rows written to {arr} but the row counter advanced by {adv}")
                del scal[rowvar]
            elif rowvar and rows and any(rows.values()):
                raise Unsupported(f"unit {name}: rows written without advancing the row counter")
            eff[key] = {"acc": list(p.acc), "subst": dict(p.subst), "scalars": scal, "arrays": {a: p.array_state(a) for a in p.arr if a not in drop_arrays}, "out": outs, "rows": rows,
                        "break": p.brk, "keyexpr": [(t, taken) for t, taken in p.key]}
        res[name] = eff
    # state variables: read (as start values) anywhere in some effect or test
    def vars_in(e, acc):
        if isinstance(e, tuple):
            if e and e[0] == "var":
                acc.add(e[1])
            elif e and e[0] == "aff":
                acc.update(v for v, _ in e[1])
            else:
                for x in e:
                    vars_in(x, acc)
        elif isinstance(e, (list,)):
            for x in e:
                vars_in(x, acc)
        elif isinstance(e, dict):
            for x in e.values():
                vars_in(x, acc)
    for name, eff in res.items():
        for key, d in eff.items():
            acc = set()
            vars_in(list(d["scalars"].values()), acc)
            vars_in([list(x.values()) for x in d["arrays"].values()], acc)
            vars_in([list(x.values()) for x in d["out"].values()], acc)
            vars_in([t for t, _ in d["keyexpr"]], acc)
            state |= acc
    res["while_cond"] = u["while_cond"]
    res["outer_range"] = u["outer_range"]
    res["tail_range"] = u["tail_range"]
    res["ints"] = ints
    return res, state


def _rename_expr(e, mp):
    if isinstance(e, tuple):
        if e and e[0] == "var":
            return ("var", mp.get(e[1], e[1]))
        if e and e[0] == "sel":
            return ("sel", mp.get("[]" + e[1], e[1]), _rename_expr(e[2], mp))
        if e and e[0] == "aff":
            a = Aff({mp.get(v, v): c for v, c in e[1]}, e[2])
            return _aff_to_ir(a)
        if e and e[0] == "bin" and e[1] in "+*":
            a, b = _rename_expr(e[2], mp), _rename_expr(e[3], mp)
            if repr(b) < repr(a):
                a, b = b, a
            return ("bin", e[1], a, b)
        return tuple(_rename_expr(x, mp) for x in e)
    return e


def normal_form(res, state, mp=None, live=None):
    """comparable form of the effects: only live (state) scalars are kept; names mapped through mp"""
    mp = mp or {}
    live = state if live is None else live
    out = {}
    for name in ("push", "pop", "mid", "tail"):
        eff = {}
        for key, d in res[name].items():
            k2 = tuple(sorted((repr(_rename_expr(t, mp)), taken) for t, taken in d["keyexpr"]))
            sc = {mp.get(v, v): repr(_rename_expr(val, mp)) for v, val in d["scalars"].items() if v in live}
            ar = {mp.get("[]" + a, a): {repr(_rename_expr(i, mp)): repr(_rename_expr(v, mp)) for i, v in st.items()} for a, st in d["arrays"].items()}
            ou = {mp.get("[]" + a, a): {k: repr(_rename_expr(v, mp)) for k, v in dd.items()} for a, dd in d["out"].items()}
            eff[k2] = {"scalars": sc, "arrays": ar, "out": ou, "break": d["break"]}
        out[name] = eff
    out["while_cond"] = repr(_rename_expr(res["while_cond"], mp))
    out["outer_range"] = tuple(repr(_rename_expr(x, mp)) if isinstance(x, tuple) else mp.get(x, x) for x in res["outer_range"])
    out["tail_range"] = tuple(repr(_rename_expr(x, mp)) if isinstance(x, tuple) else mp.get(x, x) for x in res["tail_range"])
    return out


def _parse_index(s):
    # array_state keys are repr(Aff); keep them as opaque strings but allow renaming by re-parsing through Aff's own format
    return ("idxrepr", s)


def first_difference(a, b):
    for name in ("outer_range", "while_cond", "tail_range"):
        if a[name] != b[name]:
            return {"where": name, "left": a[name], "right": b[name]}
    for name in ("push", "pop", "mid", "tail"):
        ka, kb = set(a[name]), set(b[name])
        if ka != kb:
            return {"unit": name, "paths only left": [list(k) for k in sorted(ka - kb)][:2], "paths only right": [list(k) for k in sorted(kb - ka)][:2]}
        for k in sorted(ka):
            x, y = a[name][k], b[name][k]
            for part in ("break", "scalars", "arrays", "out"):
                if x[part] != y[part]:
                    return {"unit": name, "path": list(k), "part": part, "left": x[part], "right": y[part]}
    return None
