"""E1c -- canonical form of the parsed program, applied before any rule looks at it.

Two behaviour-preserving normalisations, so that rules written against one spelling accept the other:

 * polarity      `if not t: A else: B`  ->  `if t: B else: A`     (every if with an else arm - `elif` is `else: if` - and conditional expressions)
 * extra temps   a local the reference (refnames.json) does not know, assigned once from an expression and used exactly once by the
                 statement that follows its definition (only other such definitions may sit in between), is substituted back:
                 `t = a @ b; x = t + c`  ->  `x = a @ b + c`

Neither decides anything; both only undo a refactoring.  A temporary that is used twice, or used further away, is kept.
"""
from __future__ import annotations

import ast

from . import e1_names


class _Polarity(ast.NodeTransformer):
    def visit_If(self, node):
        self.generic_visit(node)
        t = node.test
        defines = any(isinstance(x, (ast.FunctionDef, ast.AsyncFunctionDef, ast.ClassDef)) for arm in (node.body, node.orelse) for x in arm)
        if isinstance(t, ast.UnaryOp) and isinstance(t.op, ast.Not) and node.orelse and not defines:
            node.test = t.operand
            node.body, node.orelse = node.orelse, node.body
        return node

    def visit_IfExp(self, node):
        self.generic_visit(node)
        t = node.test
        if isinstance(t, ast.UnaryOp) and isinstance(t.op, ast.Not):
            node.test = t.operand
            node.body, node.orelse = node.orelse, node.body
        return node


class _FlattenFStr(ast.NodeTransformer):
    """f"{f'{a:4}{b:4}'}{c:8}"  ->  f"{a:4}{b:4}{c:8}"  (a nested f-string without conversion or format spec is its own text)"""

    def visit_JoinedStr(self, node):
        self.generic_visit(node)
        vals = []
        for v in node.values:
            if isinstance(v, ast.FormattedValue) and isinstance(v.value, ast.JoinedStr) and v.conversion == -1 and v.format_spec is None:
                vals.extend(v.value.values)
            elif isinstance(v, ast.FormattedValue) and isinstance(v.value, ast.Constant) and isinstance(v.value.value, str) \
                    and v.conversion == -1 and v.format_spec is None:
                vals.append(ast.Constant(value=v.value.value))
            else:
                vals.append(v)
        # merge adjacent constants
        out = []
        for v in vals:
            if out and isinstance(v, ast.Constant) and isinstance(out[-1], ast.Constant) and isinstance(v.value, str) and isinstance(out[-1].value, str):
                out[-1] = ast.Constant(value=out[-1].value + v.value)
            else:
                out.append(v)
        node.values = out
        return node


class _Enumerate(ast.NodeTransformer):
    """`for i, x in enumerate(seq): ... x ...`  ->  `for i in range(len(seq)): ... seq[i] ...`  (x not rebound in the body, seq a plain name)"""

    def __init__(self, extra):
        self.extra = extra

    def visit_FunctionDef(self, node):
        return node if getattr(self, "_in", False) else self._enter(node)

    def _enter(self, node):
        self._in = True
        self.generic_visit(node)
        self._in = False
        return node

    def visit_For(self, node):
        self.generic_visit(node)
        it, tg = node.iter, node.target
        if isinstance(it, ast.Call) and isinstance(it.func, ast.Name) and it.func.id == "enumerate" and len(it.args) == 1 and not it.keywords \
                and isinstance(it.args[0], ast.Name) and isinstance(tg, ast.Tuple) and len(tg.elts) == 2 \
                and all(isinstance(e, ast.Name) for e in tg.elts) and tg.elts[1].id in self.extra:
            i, x, seq = tg.elts[0].id, tg.elts[1].id, it.args[0].id
            body = ast.Module(body=node.body + node.orelse, type_ignores=[])
            if _stores(body, x) == 0 and _stores(body, i) == 0 and _stores(body, seq) == 0:
                import copy

                class _S(ast.NodeTransformer):
                    def visit_Name(self, n):
                        if n.id == x and isinstance(n.ctx, ast.Load):
                            return ast.Subscript(value=ast.Name(id=seq, ctx=ast.Load()), slice=ast.Name(id=i, ctx=ast.Load()), ctx=ast.Load())
                        return n

                    def visit_Lambda(self, n):
                        return n
                node.body = [_S().visit(b) for b in node.body]
                node.orelse = [_S().visit(b) for b in node.orelse]
                node.target = ast.copy_location(ast.Name(id=i, ctx=ast.Store()), tg.elts[0])
                node.iter = ast.Call(func=ast.Name(id="range", ctx=ast.Load()),
                                     args=[ast.Call(func=ast.Name(id="len", ctx=ast.Load()), args=[ast.Name(id=seq, ctx=ast.Load())], keywords=[])], keywords=[])
        return node


class _Subst(ast.NodeTransformer):
    def __init__(self, name, value):
        self.name, self.value, self.n = name, value, 0

    def visit_Name(self, node):
        if node.id == self.name and isinstance(node.ctx, ast.Load):
            self.n += 1
            return self.value
        return node

    def visit_Lambda(self, node):
        return node


def _loads(node, name):
    return sum(1 for x in ast.walk(node) if isinstance(x, ast.Name) and x.id == name and isinstance(x.ctx, ast.Load))


def _stores(node, name):
    return sum(1 for x in ast.walk(node) if isinstance(x, ast.Name) and x.id == name and isinstance(x.ctx, (ast.Store, ast.Del)))


def _pure_simple(v):
    """an expression that can be re-evaluated at every use: names, attributes, subscripts, constants, arithmetic - no calls, no comprehensions,
    no displays (a dict / list / set literal creates a new mutable object at every evaluation)"""
    for x in ast.walk(v):
        if isinstance(x, (ast.Call, ast.ListComp, ast.SetComp, ast.DictComp, ast.GeneratorExp, ast.Lambda, ast.Await, ast.Yield, ast.YieldFrom,
                          ast.NamedExpr, ast.JoinedStr, ast.Dict, ast.List, ast.Set)):
            return False
    return True


def _used_as_object(fn, nm):
    """is the local ever written through (`nm[i] = ..`, `nm.a = ..`, `nm += ..`) or used as a method receiver?  Then it names an object
    (a view, a container) whose identity matters and it must not be replaced by copies of its defining expression."""
    for x in ast.walk(fn):
        if isinstance(x, (ast.Subscript, ast.Attribute)) and isinstance(x.ctx, (ast.Store, ast.Del)):
            b = x.value
            while isinstance(b, (ast.Subscript, ast.Attribute)):
                b = b.value
            if isinstance(b, ast.Name) and b.id == nm:
                return True
        if isinstance(x, ast.AugAssign) and isinstance(x.target, ast.Name) and x.target.id == nm:
            return True
        if isinstance(x, ast.Call) and isinstance(x.func, ast.Attribute) and isinstance(x.func.value, ast.Name) and x.func.value.id == nm:
            return True
        if isinstance(x, ast.keyword) and x.arg == "out" and isinstance(x.value, ast.Name) and x.value.id == nm:
            return True
    return False


def _base_name(t):
    while isinstance(t, (ast.Subscript, ast.Attribute, ast.Starred)):
        t = t.value
    return t.id if isinstance(t, ast.Name) else None


def _written_names(st):
    """names (or bases of subscripts / attributes) a statement may write"""
    out = set()
    for x in ast.walk(st):
        if isinstance(x, (ast.Assign,)):
            for t in x.targets:
                for y in ([t] if not isinstance(t, (ast.Tuple, ast.List)) else t.elts):
                    out.add(_base_name(y))
        elif isinstance(x, (ast.AugAssign, ast.AnnAssign)):
            out.add(_base_name(x.target))
        elif isinstance(x, (ast.For, ast.AsyncFor)):
            for y in ast.walk(x.target):
                if isinstance(y, ast.Name):
                    out.add(y.id)
        elif isinstance(x, ast.Call) and isinstance(x.func, ast.Attribute) and x.func.attr in ("sort", "fill", "resize", "append", "extend", "put", "itemset"):
            out.add(_base_name(x.func.value))
        elif isinstance(x, ast.keyword) and x.arg == "out":
            out.add(_base_name(x.value))
    out.discard(None)
    return out


def _multi_inline(stmts, i, nm, value, fn):
    """substitute a pure extra temporary used several times, when every use follows in this block and nothing it reads is written in between"""
    reads = {x.id for x in ast.walk(value) if isinstance(x, ast.Name)}
    total = _loads(fn, nm)
    seen = 0
    last = None
    for j in range(i + 1, len(stmts)):
        k = _loads(stmts[j], nm)
        if k:
            seen += k
            last = j
    if seen != total or last is None:
        return False
    for j in range(i + 1, last + 1):
        st = stmts[j]
        if isinstance(st, (ast.FunctionDef, ast.AsyncFunctionDef, ast.ClassDef, ast.While, ast.For, ast.AsyncFor)) and _loads(st, nm):
            return False            # a use inside a loop body or nested scope: the value could be re-read after a write
        w = _written_names(st)
        if w & reads and j < last:
            return False
        if w & reads and j == last:
            # the last user may write what the temporary reads only if it is a plain statement (reads happen before the store)
            if not isinstance(st, (ast.Assign, ast.AugAssign, ast.Expr, ast.Return)):
                return False
    import copy
    for j in range(i + 1, last + 1):
        if _loads(stmts[j], nm):
            s = _Subst(nm, None)
            s.value = None

            class _S(ast.NodeTransformer):
                def visit_Name(self, node):
                    if node.id == nm and isinstance(node.ctx, ast.Load):
                        return copy.deepcopy(value)
                    return node

                def visit_Lambda(self, node):
                    return node
            stmts[j] = _S().visit(stmts[j])
    return True


def _inline_block(stmts, fn, extra):
    changed = False
    i = 0
    while i < len(stmts):
        st = stmts[i]
        for f in ("body", "orelse", "finalbody"):
            v = getattr(st, f, None)
            if isinstance(v, list) and v and isinstance(v[0], ast.stmt):
                changed |= _inline_block(v, fn, extra)
        if isinstance(st, ast.Try):
            for h in st.handlers:
                changed |= _inline_block(h.body, fn, extra)
        if isinstance(st, ast.Assign) and len(st.targets) == 1 and isinstance(st.targets[0], ast.Name) and st.targets[0].id in extra:
            nm = st.targets[0].id
            if _stores(fn, nm) == 1 and _loads(fn, nm) > 1 and _pure_simple(st.value) and not _used_as_object(fn, nm) \
                    and _multi_inline(stmts, i, nm, st.value, fn):
                del stmts[i]
                changed = True
                continue
            if _stores(fn, nm) == 1 and _loads(fn, nm) == 1:
                # the user must be the next statement, skipping over other extra-temporary definitions that do not use it
                j = i + 1
                while j < len(stmts) and isinstance(stmts[j], ast.Assign) and len(stmts[j].targets) == 1 and \
                        isinstance(stmts[j].targets[0], ast.Name) and stmts[j].targets[0].id in extra and _loads(stmts[j], nm) == 0:
                    j += 1
                if j < len(stmts) and _loads(stmts[j], nm) == 1 and not isinstance(stmts[j], (ast.FunctionDef, ast.AsyncFunctionDef, ast.ClassDef)):
                    user = stmts[j]
                    # compound user: only its header expression may hold the use (the body could run later / repeatedly)
                    ok = True
                    if isinstance(user, (ast.For, ast.AsyncFor)):
                        ok = _loads(user.iter, nm) == 1
                    elif isinstance(user, (ast.While,)):
                        ok = False
                    elif isinstance(user, ast.If):
                        ok = _loads(user.test, nm) == 1
                    elif isinstance(user, (ast.With, ast.AsyncWith, ast.Try)):
                        ok = False
                    if ok:
                        s = _Subst(nm, st.value)
                        stmts[j] = s.visit(user)
                        del stmts[i]
                        changed = True
                        continue
        i += 1
    return changed


def canon(tree, rel):
    _Polarity().visit(tree)
    table = e1_names.ref().get(rel) or {}

    def visit(node, prefix, seen):
        for c in ast.iter_child_nodes(node):
            if isinstance(c, (ast.FunctionDef, ast.AsyncFunctionDef)):
                q = prefix + c.name
                k = q
                i = 2
                while k in seen:
                    k = f"{q}#{i}"
                    i += 1
                seen.add(k)
                rl = table.get(k)
                if rl is not None:
                    refn = {n for n, _ in rl}
                    cur = {n for n, _ in e1_names.locals_in_order(c)}
                    extra = cur - refn
                    if extra:
                        _Enumerate(extra).visit(c)
                        ast.fix_missing_locations(c)
                        for _ in range(8):
                            if not _inline_block(c.body, c, extra):
                                break
                visit(c, q + ".", seen)
            elif isinstance(c, ast.ClassDef):
                visit(c, prefix + c.name + ".", seen)
            else:
                visit(c, prefix, seen)
    visit(tree, "", set())
    _FlattenFStr().visit(tree)
    ast.fix_missing_locations(tree)
    return tree
