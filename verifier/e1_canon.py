"""E1c -- canonical form of the parsed program, applied before any rule looks at it.

Two behaviour-preserving normalisations, so that rules written against one spelling accept the other:

 * polarity      `if not t: A else: B`  ->  `if t: B else: A`     (every if with an else arm - `elif` is `else: if` - and conditional expressions)
 * extra temps   a local the reference (refnames.json) does not know, assigned once from an expression and used exactly once by the
                 statement that follows its definition (only other such definitions may sit in between), is substituted back:
                 `t = a @ b; x = t + c`  ->  `x = a @ b + c`

Neither decides anything; both only undo a refactoring.  A temporary that is used twice, or used further away, is kept.
"""
from __future__ import annotations

import ast

from . import e1_names


class _Polarity(ast.NodeTransformer):
    def visit_If(self, node):
        self.generic_visit(node)
        t = node.test
        defines = any(isinstance(x, (ast.FunctionDef, ast.AsyncFunctionDef, ast.ClassDef)) for arm in (node.body, node.orelse) for x in arm)
        if isinstance(t, ast.UnaryOp) and isinstance(t.op, ast.Not) and node.orelse and not defines:
            node.test = t.operand
            node.body, node.orelse = node.orelse, node.body
        return node

    def visit_IfExp(self, node):
        self.generic_visit(node)
        t = node.test
        if isinstance(t, ast.UnaryOp) and isinstance(t.op, ast.Not):
            node.test = t.operand
            node.body, node.orelse = node.orelse, node.body
        return node


class _FlattenFStr(ast.NodeTransformer):
    """f"{f'{a:4}{b:4}'}{c:8}"  ->  f"{a:4}{b:4}{c:8}"  (a nested f-string without conversion or format spec is its own text)"""

    def visit_JoinedStr(self, node):
        self.generic_visit(node)
        vals = []
        for v in node.values:
            if isinstance(v, ast.FormattedValue) and isinstance(v.value, ast.JoinedStr) and v.conversion == -1 and v.format_spec is None:
                vals.extend(v.value.values)
            elif isinstance(v, ast.FormattedValue) and isinstance(v.value, ast.Constant) and isinstance(v.value.value, str) \
                    and v.conversion == -1 and v.format_spec is None:
                vals.append(ast.Constant(value=v.value.value))
            else:
                vals.append(v)
        # merge adjacent constants
        out = []
        for v in vals:
            if out and isinstance(v, ast.Constant) and isinstance(out[-1], ast.Constant) and isinstance(v.value, str) and isinstance(out[-1].value, str):
                out[-1] = ast.Constant(value=out[-1].value + v.value)
            else:
                out.append(v)
        node.values = out
        return node


class _Subst(ast.NodeTransformer):
    def __init__(self, name, value):
        self.name, self.value, self.n = name, value, 0

    def visit_Name(self, node):
        if node.id == self.name and isinstance(node.ctx, ast.Load):
            self.n += 1
            return self.value
        return node

    def visit_Lambda(self, node):
        return node


def _loads(node, name):
    return sum(1 for x in ast.walk(node) if isinstance(x, ast.Name) and x.id == name and isinstance(x.ctx, ast.Load))


def _stores(node, name):
    return sum(1 for x in ast.walk(node) if isinstance(x, ast.Name) and x.id == name and isinstance(x.ctx, (ast.Store, ast.Del)))


def _inline_block(stmts, fn, extra):
    changed = False
    i = 0
    while i < len(stmts):
        st = stmts[i]
        for f in ("body", "orelse", "finalbody"):
            v = getattr(st, f, None)
            if isinstance(v, list) and v and isinstance(v[0], ast.stmt):
                changed |= _inline_block(v, fn, extra)
        if isinstance(st, ast.Try):
            for h in st.handlers:
                changed |= _inline_block(h.body, fn, extra)
        if isinstance(st, ast.Assign) and len(st.targets) == 1 and isinstance(st.targets[0], ast.Name) and st.targets[0].id in extra:
            nm = st.targets[0].id
            if _stores(fn, nm) == 1 and _loads(fn, nm) == 1:
                # the user must be the next statement, skipping over other extra-temporary definitions that do not use it
                j = i + 1
                while j < len(stmts) and isinstance(stmts[j], ast.Assign) and len(stmts[j].targets) == 1 and \
                        isinstance(stmts[j].targets[0], ast.Name) and stmts[j].targets[0].id in extra and _loads(stmts[j], nm) == 0:
                    j += 1
                if j < len(stmts) and _loads(stmts[j], nm) == 1 and not isinstance(stmts[j], (ast.FunctionDef, ast.AsyncFunctionDef, ast.ClassDef)):
                    user = stmts[j]
                    # compound user: only its header expression may hold the use (the body could run later / repeatedly)
                    ok = True
                    if isinstance(user, (ast.For, ast.AsyncFor)):
                        ok = _loads(user.iter, nm) == 1
                    elif isinstance(user, (ast.While,)):
                        ok = False
                    elif isinstance(user, ast.If):
                        ok = _loads(user.test, nm) == 1
                    elif isinstance(user, (ast.With, ast.AsyncWith, ast.Try)):
                        ok = False
                    if ok:
                        s = _Subst(nm, st.value)
                        stmts[j] = s.visit(user)
                        del stmts[i]
                        changed = True
                        continue
        i += 1
    return changed


def canon(tree, rel):
    _Polarity().visit(tree)
    table = e1_names.ref().get(rel) or {}

    def visit(node, prefix, seen):
        for c in ast.iter_child_nodes(node):
            if isinstance(c, (ast.FunctionDef, ast.AsyncFunctionDef)):
                q = prefix + c.name
                k = q
                i = 2
                while k in seen:
                    k = f"{q}#{i}"
                    i += 1
                seen.add(k)
                rl = table.get(k)
                if rl is not None:
                    refn = {n for n, _ in rl}
                    cur = {n for n, _ in e1_names.locals_in_order(c)}
                    extra = cur - refn
                    if extra:
                        for _ in range(8):
                            if not _inline_block(c.body, c, extra):
                                break
                visit(c, q + ".", seen)
            elif isinstance(c, ast.ClassDef):
                visit(c, prefix + c.name + ".", seen)
            else:
                visit(c, prefix, seen)
    visit(tree, "", set())
    _FlattenFStr().visit(tree)
    ast.fix_missing_locations(tree)
    return tree
