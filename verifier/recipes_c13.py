"""Self-test recipes of C13: behaviour-preserving spellings that must stay silent and breaking edits that must be reported.
Format: (property, "break" | "neutral", [rules expected to fail], file, old text (exactly once in the file), new text, description)."""

B = "pyyeti/nastran/bulk.py"
W = "pyyeti/writer.py"

_T1_LARGE = '''        rows = npts // 2
        r = rows * 2
        if rows:
            writer.vecwrite(
                f, "*       " + form * 2 + "\\n", t[:r:2], d[:r:2], t[1:r:2], d[1:r:2]
            )
        f.write("*       ")
        for j in range(r, npts):
            f.write(form.format(t[j], d[j]))
'''

_T1_SMALL_TAIL = '''        f.write("        ")
        for j in range(r, npts):
            f.write(form.format(t[j], d[j]))
    f.write("ENDT\\n")
'''

_T1_GUARD = '''    if n != 16 and n != 32:
        raise ValueError(f"`form` produces a {n} length string. It must be 16 or 32.")
'''

_NASINTS = '''    n = len(ints)
    firstline = 10 - start
    if n >= firstline:
        i = firstline
        f.write(("{:8d}" * i + "\\n").format(*ints[:i]))
        while n >= i + 8:
            f.write(("{:8s}" + "{:8d}" * 8 + "\\n").format("", *ints[i : i + 8]))
            i += 8
        if n > i:
            n -= i
            f.write(("{:8s}" + "{:8d}" * n + "\\n").format("", *ints[i:]))
    else:
        f.write(("{:8d}" * n + "\\n").format(*ints))
'''

_WTSET_LOOP = '''        if end > start:
            output.append(f"{ids[start]:d} THRU {ids[end]:d}, ")
            start = end + 1
        else:
            output.append(f"{ids[start]:d}, ")
            start += 1
    output[-1] = output[-1].rstrip(", ")  # strip the trailing comma from the last item
'''

_DMIG_TERM = '''                        if mtype < 3:  # real
                            num_str = f"{num:16.9E}"
                        else:  # complex
                            num_str = f"{num.real:16.9E}{num.imag:16.9E}"
                        if mtype & 1 == 0:  # if even
                            num_str = num_str.replace("E", "D")
                        f.write(f"{'*':<8s}{gi:16d}{ci:16d}{num_str:s}\\n")
'''

_DMIG_FORM = '''        else:
            if np.allclose(m.transpose(), m):
                form = 6
            else:
                form = 1
'''

RECIPES = [
    # ------------------------------------------------------------------------------------------------------------ neutral: wttabled1
    ("C13", "neutral", [], B, _T1_GUARD, '''    if not (n == 16 or n == 32):
        raise ValueError(f"`form` produces a {n} length string. It must be 16 or 32.")
''', "tabled1 guard as not (a or b)"),
    ("C13", "neutral", [], B, _T1_GUARD, '''    if n in (16, 32):
        pass
    else:
        raise ValueError(f"`form` produces a {n} length string. It must be 16 or 32.")
''', "tabled1 guard with the accepting arm first"),
    ("C13", "neutral", [], B, _T1_LARGE, '''        r = npts - npts % 2
        if r > 0:
            line = f"*       {form * 2}\\n"
            writer.vecwrite(f, line, t[0:r:2], d[0:r:2], t[1:r:2], d[1:r:2])
        f.write("*       ")
        for tj, dj in zip(t[r:], d[r:]):
            f.write(form.format(tj, dj))
''', "tabled1 large field: r by modulo, f-string template, zip loop"),
    ("C13", "neutral", [], B, _T1_LARGE, '''        rows = npts // 2
        r = 2 * rows
        if npts >= 2:
            writer.vecwrite(
                f, "*       " + 2 * form + "\\n", t[:r:2], d[:r:2], t[1:r:2], d[1:r:2]
            )
        f.write("*       " + "".join(form.format(t[j], d[j]) for j in range(r, npts)))
''', "tabled1 large field: guard on npts, leftover as one joined write"),
    ("C13", "neutral", [], B, _T1_SMALL_TAIL, '''        f.write("        ")
        f.write("".join([form.format(a, b) for a, b in zip(t[r:], d[r:])]))
    f.write("ENDT")
    f.write("\\n")
''', "tabled1 small field: list comprehension, ENDT and newline written separately"),
    ("C13", "neutral", [], B, '''        f.write(f"{tablestr:<8s}{tid:16d}\\n*\\n")
''', '''        f.write("{:<8s}{:16d}\\n".format(tablestr, tid))
        f.write("*\\n")
''', "tabled1 header through str.format and two writes"),
    ("C13", "neutral", [], B, '''        f.write(f"{tablestr:<8s}{tid:8d}\\n")
        rows = npts // 4''', '''        f.write("%-8s%8d\\n" % (tablestr, tid))
        rows = npts // 4''', "tabled1 small header through % formatting"),
    ("C13", "neutral", [], B, '''    npts = len(t)
    if len(d) != npts:
        raise ValueError(f"len(d) is {len(d)} but len(t) is {npts}")
''', '''    npts = t.size
    if d.size != npts:
        raise ValueError(f"len(d) is {len(d)} but len(t) is {npts}")
''', "tabled1 npts from .size"),
    # ------------------------------------------------------------------------------------------------------------ neutral: wtgrids
    ("C13", "neutral", [], B, '''            string = "GRID    {:8d}{:8d}" + form * 3 + "{:8d}\\n"
        writer.vecwrite(f, string, grids, cp, xyz[:, 0], xyz[:, 1], xyz[:, 2], cd)''',
     '''            string = f"GRID    {{:8d}}{{:8d}}{form}{form}{form}{{:8d}}\\n"
        writer.vecwrite(f, string, grids, cp, xyz[:, 0], xyz[:, 1], xyz[:, 2], cd)''', "wtgrids small template as an f-string"),
    ("C13", "neutral", [], B, '''    if ps == seid == "":
        if len(teststr) > 8:''', '''    if ps == seid == "":
        if length == 16:''', "wtgrids arm selected by length == 16"),
    # ------------------------------------------------------------------------------------------------------------ neutral: wtdmig / rddmig
    ("C13", "neutral", [], B, _DMIG_TERM, '''                        if mtype < 3:  # real
                            num_str = "{:16.9E}".format(num)
                        else:  # complex
                            num_str = "%16.9E%16.9E" % (num.real, num.imag)
                        if mtype % 2 == 0:  # if even
                            num_str = num_str.replace("E", "D")
                        f.write(f"{'*':<8s}{gi:16d}{ci:16d}{num_str:s}\\n")
''', "wtdmig term through str.format / %, parity by modulo"),
    ("C13", "neutral", [], B, _DMIG_TERM, '''                        real_spec = "16.9E"
                        if mtype < 3:  # real
                            num_str = format(num, real_spec)
                        else:  # complex
                            num_str = format(num.real, real_spec) + format(num.imag, real_spec)
                        if mtype in (2, 4):
                            num_str = num_str.replace("E", "D")
                        f.write("{:<8s}{:16d}{:16d}{:s}\\n".format("*", gi, ci, num_str))
''', "wtdmig term through format(x, spec) with the spec in a variable"),
    ("C13", "neutral", [], B, _DMIG_FORM, '''        else:
            form = 6 if np.allclose(m, m.T) else 1
''', "wtdmig symmetric test as a conditional expression on m.T"),
    ("C13", "neutral", [], B, '''                start_row = col if form == 6 else 0
''', '''                if form == 6:
                    start_row = col
                else:
                    start_row = 0
''', "wtdmig start row as a statement"),
    ("C13", "neutral", [], B, '''                        mat[ri, ci] = real
                        if form == 6:
                            mat[ci, ri] = real
''', '''                        mat[ri, ci] = real
                        if form == 6:
                            mat[ci, ri] = mat[ri, ci]
''', "rddmig mirror reads back the stored entry"),
    # ------------------------------------------------------------------------------------------------------------ neutral: readers
    ("C13", "neutral", [], B, '''        d[tid] = np.vstack([vec[8:-1:2], vec[9:-1:2]]).T
''', '''        d[tid] = np.column_stack((vec[8:-1:2], vec[9:-1:2]))
''', "rdtabled1 column_stack"),
    ("C13", "neutral", [], B, '''    for tid in d:
        vec = d[tid]
        d[tid] = np.vstack([vec[8:-1:2], vec[9:-1:2]]).T
    return d
''', '''    tables = {}
    for tid, vec in d.items():
        tables[tid] = np.array([vec[8:-1:2], vec[9:-1:2]]).T
    return tables
''', "rdtabled1 items() into a new dict"),
    ("C13", "neutral", [], B, '''        c = np.size(v, 1)
        if c < 8:
            v = np.hstack((v, np.zeros((np.size(v, 0), 8 - c))))
        return v
''', '''        nrows, c = v.shape[0], v.shape[1]
        if c >= 8:
            return v
        return np.concatenate((v, np.zeros((nrows, 8 - c))), axis=1)
''', "rdgrids early return + concatenate"),
    # ------------------------------------------------------------------------------------------------------------ neutral: list writers
    ("C13", "neutral", [], B, _NASINTS, '''    n = len(ints)
    # number of integers that fit on the first line:
    i = min(n, 10 - start)
    f.write(("{:8d}" * i + "\\n").format(*ints[:i]))
    # full continuation lines:
    while n - i >= 8:
        f.write(("{:8s}" + "{:8d}" * 8 + "\\n").format("", *ints[i : i + 8]))
        i += 8
    # last, partial continuation line:
    if i < n:
        f.write(("{:8s}" + "{:8d}" * (n - i) + "\\n").format("", *ints[i:]))
''', "wtnasints flattened with min() (the correct version of the flattening)"),
    ("C13", "neutral", [], B, _WTSET_LOOP, '''        if end > start:
            item = f"{ids[start]:d} THRU {ids[end]:d}, "
        else:
            item = f"{ids[start]:d}, "
        output.append(item)
        start = end + 1
    output[-1] = output[-1].rstrip(", ")  # strip the trailing comma from the last item
''', "wtset cursor update hoisted (end == start in the single arm)"),
    # ------------------------------------------------------------------------------------------------------------ break
    ("C13", "break", ["C13-R1"], B, '''        f.write("*       ")
        for j in range(r, npts):''', '''        f.write("*      ")
        for j in range(r, npts):''', "tabled1 last-line head of 7 columns"),
    ("C13", "break", ["C13-R1"], B, '''                f, "*       " + form * 2 + "\\n", t[:r:2], d[:r:2], t[1:r:2], d[1:r:2]''',
     '''                f, "*       " + form * 2 + "\\n", t[:r:2], t[1:r:2], d[:r:2], d[1:r:2]''', "tabled1 interleave order"),
    ("C13", "break", ["C13-R1"], B, _T1_GUARD, '''    if n != 16 and n != 32 and n != 24:
        raise ValueError(f"`form` produces a {n} length string. It must be 16 or 32.")
''', "tabled1 guard lets 24 through"),
    ("C13", "break", ["C13-R1"], B, '''        for j in range(r, npts):
            f.write(form.format(t[j], d[j]))
    else:''', '''        for j in range(r + 1, npts):
            f.write(form.format(t[j], d[j]))
    else:''', "tabled1 leftover loop skips a pair"),
    ("C13", "break", ["C13-R1"], B, '''            string = "GRID    {:8d}{:8d}" + form * 3 + "{:8d}{:>8}{:>8}\\n"''',
     '''            string = "GRID    {:8d}{:8d}" + form * 3 + "{:8d}{:>8}{:>8}{:>8}\\n"''', "wtgrids ninth field / one field too many"),
    ("C13", "break", ["C13-R1"], B, '''        if len(teststr) > 8:
            string = (
                "GRID*   {:16d}{:16d}" + form * 2 + "\\n*       " + form + "{:16d}\\n"
            )''', '''        if len(teststr) < 8:
            string = (
                "GRID*   {:16d}{:16d}" + form * 2 + "\\n*       " + form + "{:16d}\\n"
            )''', "wtgrids wide template selected for the narrow form"),
    ("C13", "break", ["C13-R3"], B, '''        d[tid] = np.vstack([vec[8:-1:2], vec[9:-1:2]]).T
''', '''        d[tid] = np.vstack([vec[8::2], vec[9::2]]).T
''', "rdtabled1 reads the ENDT field"),
    ("C13", "break", ["C13-R3"], B, '''            v = np.hstack((v, np.zeros((np.size(v, 0), 8 - c))))''', '''            v = np.hstack((v, np.zeros((np.size(v, 0), 7 - c))))''',
     "rdgrids pads to 7 columns"),
    ("C13", "break", ["C13-R3"], B, '''                start_row = col if form == 6 else 0
''', '''                start_row = col + 1 if form == 6 else 0
''', "wtdmig form 6 skips the diagonal"),
    ("C13", "break", ["C13-R3"], B, '''                        if mtype & 1 == 0:  # if even''', '''                        if mtype & 1 == 1:  # if even''', "wtdmig D exponent for the single-precision types"),
    ("C13", "break", ["C13-R3"], B, '''                        mat[ri, ci] = val
                        if form == 6:
                            mat[ci, ri] = val
''', '''                        mat[ri, ci] = val
                        if form == 6:
                            mat[ci, ri] = val.conjugate()
''', "rddmig mirrors the conjugate"),
    ("C13", "break", ["C13-R3"], B, _DMIG_FORM, '''        elif ytools.mattype(m, "symmetric"):
            form = 6
        else:
            form = 1
''', "wtdmig symmetric test through ytools.mattype (accepts near-diagonal non-symmetric matrices)"),
    ("C13", "neutral", [], B, '''            f.write(("{:8s}" + "{:8d}" * n + "\\n").format("", *ints[i:]))''',
     '''            f.write(("{:8s}" + "{:8d}" * (n % 8) + "\\n").format("", *ints[i:]))''', "wtnasints last-line count modulo 8 where fewer than 8 are left"),
    ("C13", "break", ["C13-R4"], B, '''        while n >= i + 8:
            f.write(("{:8s}" + "{:8d}" * 8 + "\\n").format("", *ints[i : i + 8]))
            i += 8
        if n > i:
            n -= i
            f.write(("{:8s}" + "{:8d}" * n + "\\n").format("", *ints[i:]))''', '''        while n > i + 8:
            f.write(("{:8s}" + "{:8d}" * 8 + "\\n").format("", *ints[i : i + 8]))
            i += 8
        if n > i:
            n -= i
            f.write(("{:8s}" + "{:8d}" * (n % 8) + "\\n").format("", *ints[i:]))''', "wtnasints last-line count modulo 8 when 8 can be left"),
    ("C13", "break", ["C13-R4"], B, '''        while n >= i + 8:
            f.write(("{:8s}" + "{:8d}" * 8 + "\\n").format("", *ints[i : i + 8]))
            i += 8
        if n > i:''', '''        while n >= i + 8:
            f.write(("{:8s}" + "{:8d}" * 8 + "\\n").format("", *ints[i : i + 8]))
            i += 9
        if n > i:''', "wtnasints cursor advances by 9"),
    ("C13", "break", ["C13-R4"], B, '''        if end > start:
            output.append(f"{ids[start]:d} THRU {ids[end]:d}, ")
            start = end + 1
        else:
            output.append(f"{ids[start]:d}, ")
            start += 1
''', '''        if end > start + 1:
            output.append(f"{ids[start]:d} THRU {ids[end]:d}, ")
        else:
            output.append(f"{ids[start]:d}, ")
        start = end + 1
''', "wtset drops the second id of a run of two"),
    ("C13", "break", ["C13-R4"], B, '''            fields.extend([seq[start], "THRU", seq[end]])
            start = end + 1''', '''            fields.extend([seq[start], "THRU", seq[end]])
            start = end''', "_wt_with_thru repeats the end of a run"),
]
