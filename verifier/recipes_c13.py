"""Self-test recipes of C13: behaviour-preserving spellings that must stay silent and breaking edits that must be reported.
Format: (property, "break" | "neutral", [rules expected to fail], file, old text (exactly once in the file), new text, description)."""

B = "pyyeti/nastran/bulk.py"
W = "pyyeti/writer.py"

_T1_LARGE = '''        rows = npts // 2
        r = rows * 2
        if rows:
            writer.vecwrite(
                f, "*       " + form * 2 + "\\n", t[:r:2], d[:r:2], t[1:r:2], d[1:r:2]
            )
        f.write("*       ")
        for j in range(r, npts):
            f.write(form.format(t[j], d[j]))
'''

_T1_SMALL_TAIL = '''        f.write("        ")
        for j in range(r, npts):
            f.write(form.format(t[j], d[j]))
    f.write("ENDT\\n")
'''

_T1_GUARD = '''    if n != 16 and n != 32:
        raise ValueError(f"`form` produces a {n} length string. It must be 16 or 32.")
'''

_NASINTS = '''    n = len(ints)
    firstline = 10 - start
    if n >= firstline:
        i = firstline
        f.write(("{:8d}" * i + "\\n").format(*ints[:i]))
        while n >= i + 8:
            f.write(("{:8s}" + "{:8d}" * 8 + "\\n").format("", *ints[i : i + 8]))
            i += 8
        if n > i:
            n -= i
            f.write(("{:8s}" + "{:8d}" * n + "\\n").format("", *ints[i:]))
    else:
        f.write(("{:8d}" * n + "\\n").format(*ints))
'''

_WTSET_LOOP = '''        if end > start:
            output.append(f"{ids[start]:d} THRU {ids[end]:d}, ")
            start = end + 1
        else:
            output.append(f"{ids[start]:d}, ")
            start += 1
    output[-1] = output[-1].rstrip(", ")  # strip the trailing comma from the last item
'''

_DMIG_TERM = '''                        if mtype < 3:  # real
                            num_str = f"{num:16.9E}"
                        else:  # complex
                            num_str = f"{num.real:16.9E}{num.imag:16.9E}"
                        if mtype & 1 == 0:  # if even
                            num_str = num_str.replace("E", "D")
                        f.write(f"{'*':<8s}{gi:16d}{ci:16d}{num_str:s}\\n")
'''

_DMIG_FORM = '''        else:
            if np.allclose(m.transpose(), m):
                form = 6
            else:
                form = 1
'''

RECIPES = [
    # ------------------------------------------------------------------------------------------------------------ neutral: wttabled1
    ("C13", "neutral", [], B, _T1_GUARD, '''    if not (n == 16 or n == 32):
        raise ValueError(f"`form` produces a {n} length string. It must be 16 or 32.")
''', "tabled1 guard as not (a or b)"),
    ("C13", "neutral", [], B, _T1_GUARD, '''    if n in (16, 32):
        pass
    else:
        raise ValueError(f"`form` produces a {n} length string. It must be 16 or 32.")
''', "tabled1 guard with the accepting arm first"),
    ("C13", "neutral", [], B, _T1_LARGE, '''        r = npts - npts % 2
        if r > 0:
            line = f"*       {form * 2}\\n"
            writer.vecwrite(f, line, t[0:r:2], d[0:r:2], t[1:r:2], d[1:r:2])
        f.write("*       ")
        for tj, dj in zip(t[r:], d[r:]):
            f.write(form.format(tj, dj))
''', "tabled1 large field: r by modulo, f-string template, zip loop"),
    ("C13", "neutral", [], B, _T1_LARGE, '''        rows = npts // 2
        r = 2 * rows
        if npts >= 2:
            writer.vecwrite(
                f, "*       " + 2 * form + "\\n", t[:r:2], d[:r:2], t[1:r:2], d[1:r:2]
            )
        f.write("*       " + "".join(form.format(t[j], d[j]) for j in range(r, npts)))
''', "tabled1 large field: guard on npts, leftover as one joined write"),
    ("C13", "neutral", [], B, _T1_SMALL_TAIL, '''        f.write("        ")
        f.write("".join([form.format(a, b) for a, b in zip(t[r:], d[r:])]))
    f.write("ENDT")
    f.write("\\n")
''', "tabled1 small field: list comprehension, ENDT and newline written separately"),
    ("C13", "neutral", [], B, '''        f.write(f"{tablestr:<8s}{tid:16d}\\n*\\n")
''', '''        f.write("{:<8s}{:16d}\\n".format(tablestr, tid))
        f.write("*\\n")
''', "tabled1 header through str.format and two writes"),
    ("C13", "neutral", [], B, '''        f.write(f"{tablestr:<8s}{tid:8d}\\n")
        rows = npts // 4''', '''        f.write("%-8s%8d\\n" % (tablestr, tid))
        rows = npts // 4''', "tabled1 small header through % formatting"),
    ("C13", "neutral", [], B, '''    npts = len(t)
    if len(d) != npts:
        raise ValueError(f"len(d) is {len(d)} but len(t) is {npts}")
''', '''    npts = t.size
    if d.size != npts:
        raise ValueError(f"len(d) is {len(d)} but len(t) is {npts}")
''', "tabled1 npts from .size"),
    # ------------------------------------------------------------------------------------------------------------ neutral: wtgrids
    ("C13", "neutral", [], B, '''            string = "GRID    {:8d}{:8d}" + form * 3 + "{:8d}\\n"
        writer.vecwrite(f, string, grids, cp, xyz[:, 0], xyz[:, 1], xyz[:, 2], cd)''',
     '''            string = f"GRID    {{:8d}}{{:8d}}{form}{form}{form}{{:8d}}\\n"
        writer.vecwrite(f, string, grids, cp, xyz[:, 0], xyz[:, 1], xyz[:, 2], cd)''', "wtgrids small template as an f-string"),
    ("C13", "neutral", [], B, '''    if ps == seid == "":
        if len(teststr) > 8:''', '''    if ps == seid == "":
        if length == 16:''', "wtgrids arm selected by length == 16"),
    # ------------------------------------------------------------------------------------------------------------ neutral: wtdmig / rddmig
    ("C13", "neutral", [], B, _DMIG_TERM, '''                        if mtype < 3:  # real
                            num_str = "{:16.9E}".format(num)
                        else:  # complex
                            num_str = "%16.9E%16.9E" % (num.real, num.imag)
                        if mtype % 2 == 0:  # if even
                            num_str = num_str.replace("E", "D")
                        f.write(f"{'*':<8s}{gi:16d}{ci:16d}{num_str:s}\\n")
''', "wtdmig term through str.format / %, parity by modulo"),
    ("C13", "neutral", [], B, _DMIG_TERM, '''                        real_spec = "16.9E"
                        if mtype < 3:  # real
                            num_str = format(num, real_spec)
                        else:  # complex
                            num_str = format(num.real, real_spec) + format(num.imag, real_spec)
                        if mtype in (2, 4):
                            num_str = num_str.replace("E", "D")
                        f.write("{:<8s}{:16d}{:16d}{:s}\\n".format("*", gi, ci, num_str))
''', "wtdmig term through format(x, spec) with the spec in a variable"),
    ("C13", "neutral", [], B, _DMIG_FORM, '''        else:
            form = 6 if np.allclose(m, m.T) else 1
''', "wtdmig symmetric test as a conditional expression on m.T"),
    ("C13", "neutral", [], B, '''                start_row = col if form == 6 else 0
''', '''                if form == 6:
                    start_row = col
                else:
                    start_row = 0
''', "wtdmig start row as a statement"),
    ("C13", "neutral", [], B, '''                        mat[ri, ci] = real
                        if form == 6:
                            mat[ci, ri] = real
''', '''                        mat[ri, ci] = real
                        if form == 6:
                            mat[ci, ri] = mat[ri, ci]
''', "rddmig mirror reads back the stored entry"),
    # ------------------------------------------------------------------------------------------------------------ neutral: readers
    ("C13", "neutral", [], B, '''        d[tid] = np.vstack([vec[8:-1:2], vec[9:-1:2]]).T
''', '''        d[tid] = np.column_stack((vec[8:-1:2], vec[9:-1:2]))
''', "rdtabled1 column_stack"),
    ("C13", "neutral", [], B, '''    for tid in d:
        vec = d[tid]
        d[tid] = np.vstack([vec[8:-1:2], vec[9:-1:2]]).T
    return d
''', '''    tables = {}
    for tid, vec in d.items():
        tables[tid] = np.array([vec[8:-1:2], vec[9:-1:2]]).T
    return tables
''', "rdtabled1 items() into a new dict"),
    ("C13", "neutral", [], B, '''        c = np.size(v, 1)
        if c < 8:
            v = np.hstack((v, np.zeros((np.size(v, 0), 8 - c))))
        return v
''', '''        nrows, c = v.shape[0], v.shape[1]
        if c >= 8:
            return v
        return np.concatenate((v, np.zeros((nrows, 8 - c))), axis=1)
''', "rdgrids early return + concatenate"),
    # ------------------------------------------------------------------------------------------------------------ neutral: list writers
    ("C13", "neutral", [], B, _NASINTS, '''    n = len(ints)
    # number of integers that fit on the first line:
    i = min(n, 10 - start)
    f.write(("{:8d}" * i + "\\n").format(*ints[:i]))
    # full continuation lines:
    while n - i >= 8:
        f.write(("{:8s}" + "{:8d}" * 8 + "\\n").format("", *ints[i : i + 8]))
        i += 8
    # last, partial continuation line:
    if i < n:
        f.write(("{:8s}" + "{:8d}" * (n - i) + "\\n").format("", *ints[i:]))
''', "wtnasints flattened with min() (the correct version of the flattening)"),
    ("C13", "neutral", [], B, _WTSET_LOOP, '''        if end > start:
            item = f"{ids[start]:d} THRU {ids[end]:d}, "
        else:
            item = f"{ids[start]:d}, "
        output.append(item)
        start = end + 1
    output[-1] = output[-1].rstrip(", ")  # strip the trailing comma from the last item
''', "wtset cursor update hoisted (end == start in the single arm)"),
    # ------------------------------------------------------------------------------------------------------------ break
    ("C13", "break", ["C13-R1"], B, '''        f.write("*       ")
        for j in range(r, npts):''', '''        f.write("*      ")
        for j in range(r, npts):''', "tabled1 last-line head of 7 columns"),
    ("C13", "break", ["C13-R1"], B, '''                f, "*       " + form * 2 + "\\n", t[:r:2], d[:r:2], t[1:r:2], d[1:r:2]''',
     '''                f, "*       " + form * 2 + "\\n", t[:r:2], t[1:r:2], d[:r:2], d[1:r:2]''', "tabled1 interleave order"),
    ("C13", "break", ["C13-R1"], B, _T1_GUARD, '''    if n != 16 and n != 32 and n != 24:
        raise ValueError(f"`form` produces a {n} length string. It must be 16 or 32.")
''', "tabled1 guard lets 24 through"),
    ("C13", "break", ["C13-R1"], B, '''        for j in range(r, npts):
            f.write(form.format(t[j], d[j]))
    else:''', '''        for j in range(r + 1, npts):
            f.write(form.format(t[j], d[j]))
    else:''', "tabled1 leftover loop skips a pair"),
    ("C13", "break", ["C13-R1"], B, '''            string = "GRID    {:8d}{:8d}" + form * 3 + "{:8d}{:>8}{:>8}\\n"''',
     '''            string = "GRID    {:8d}{:8d}" + form * 3 + "{:8d}{:>8}{:>8}{:>8}\\n"''', "wtgrids ninth field / one field too many"),
    ("C13", "break", ["C13-R1"], B, '''        if len(teststr) > 8:
            string = (
                "GRID*   {:16d}{:16d}" + form * 2 + "\\n*       " + form + "{:16d}\\n"
            )''', '''        if len(teststr) < 8:
            string = (
                "GRID*   {:16d}{:16d}" + form * 2 + "\\n*       " + form + "{:16d}\\n"
            )''', "wtgrids wide template selected for the narrow form"),
    ("C13", "break", ["C13-R3"], B, '''        d[tid] = np.vstack([vec[8:-1:2], vec[9:-1:2]]).T
''', '''        d[tid] = np.vstack([vec[8::2], vec[9::2]]).T
''', "rdtabled1 reads the ENDT field"),
    ("C13", "break", ["C13-R3"], B, '''            v = np.hstack((v, np.zeros((np.size(v, 0), 8 - c))))''', '''            v = np.hstack((v, np.zeros((np.size(v, 0), 7 - c))))''',
     "rdgrids pads to 7 columns"),
    ("C13", "break", ["C13-R3"], B, '''                start_row = col if form == 6 else 0
''', '''                start_row = col + 1 if form == 6 else 0
''', "wtdmig form 6 skips the diagonal"),
    ("C13", "break", ["C13-R3"], B, '''                        if mtype & 1 == 0:  # if even''', '''                        if mtype & 1 == 1:  # if even''', "wtdmig D exponent for the single-precision types"),
    ("C13", "break", ["C13-R3"], B, '''                        mat[ri, ci] = val
                        if form == 6:
                            mat[ci, ri] = val
''', '''                        mat[ri, ci] = val
                        if form == 6:
                            mat[ci, ri] = val.conjugate()
''', "rddmig mirrors the conjugate"),
    ("C13", "break", ["C13-R3"], B, _DMIG_FORM, '''        elif ytools.mattype(m, "symmetric"):
            form = 6
        else:
            form = 1
''', "wtdmig symmetric test through ytools.mattype (accepts near-diagonal non-symmetric matrices)"),
    ("C13", "neutral", [], B, '''            f.write(("{:8s}" + "{:8d}" * n + "\\n").format("", *ints[i:]))''',
     '''            f.write(("{:8s}" + "{:8d}" * (n % 8) + "\\n").format("", *ints[i:]))''', "wtnasints last-line count modulo 8 where fewer than 8 are left"),
    ("C13", "break", ["C13-R4"], B, '''        while n >= i + 8:
            f.write(("{:8s}" + "{:8d}" * 8 + "\\n").format("", *ints[i : i + 8]))
            i += 8
        if n > i:
            n -= i
            f.write(("{:8s}" + "{:8d}" * n + "\\n").format("", *ints[i:]))''', '''        while n > i + 8:
            f.write(("{:8s}" + "{:8d}" * 8 + "\\n").format("", *ints[i : i + 8]))
            i += 8
        if n > i:
            n -= i
            f.write(("{:8s}" + "{:8d}" * (n % 8) + "\\n").format("", *ints[i:]))''', "wtnasints last-line count modulo 8 when 8 can be left"),
    ("C13", "break", ["C13-R4"], B, '''        while n >= i + 8:
            f.write(("{:8s}" + "{:8d}" * 8 + "\\n").format("", *ints[i : i + 8]))
            i += 8
        if n > i:''', '''        while n >= i + 8:
            f.write(("{:8s}" + "{:8d}" * 8 + "\\n").format("", *ints[i : i + 8]))
            i += 9
        if n > i:''', "wtnasints cursor advances by 9"),
    ("C13", "break", ["C13-R4"], B, '''        if end > start:
            output.append(f"{ids[start]:d} THRU {ids[end]:d}, ")
            start = end + 1
        else:
            output.append(f"{ids[start]:d}, ")
            start += 1
''', '''        if end > start + 1:
            output.append(f"{ids[start]:d} THRU {ids[end]:d}, ")
        else:
            output.append(f"{ids[start]:d}, ")
        start = end + 1
''', "wtset drops the second id of a run of two"),
    ("C13", "break", ["C13-R4"], B, '''            fields.extend([seq[start], "THRU", seq[end]])
            start = end + 1''', '''            fields.extend([seq[start], "THRU", seq[end]])
            start = end''', "_wt_with_thru repeats the end of a run"),
]

_T1_BODY = """    if n == 32:
        tablestr = tablestr + "*"
        f.write(f"{tablestr:<8s}{tid:16d}\\n*\\n")
        rows = npts // 2
        r = rows * 2
        if rows:
            writer.vecwrite(
                f, "*       " + form * 2 + "\\n", t[:r:2], d[:r:2], t[1:r:2], d[1:r:2]
            )
        f.write("*       ")
        for j in range(r, npts):
            f.write(form.format(t[j], d[j]))
    else:
        f.write(f"{tablestr:<8s}{tid:8d}\\n")
        rows = npts // 4
        r = rows * 4
        if rows:
            writer.vecwrite(
                f,
                "        " + form * 4 + "\\n",
                t[:r:4],
                d[:r:4],
                t[1:r:4],
                d[1:r:4],
                t[2:r:4],
                d[2:r:4],
                t[3:r:4],
                d[3:r:4],
            )
        f.write("        ")
        for j in range(r, npts):
            f.write(form.format(t[j], d[j]))
    f.write("ENDT\\n")
"""

_T1_DEF = '''@guitools.write_text_file
def wttabled1(f, tid, t, d, title=None, form="{:16.9E}{:16.9E}", tablestr="TABLED1"):
'''

RECIPES += [
    ("C13", "neutral", [], B, _T1_BODY, """    wide = n == 32
    if not wide:
        f.write(f"{tablestr:<8s}{tid:8d}\\n")
        nfull = npts // 4
        stop = 4 * nfull
        if nfull:
            cols = [t[0:stop:4], d[0:stop:4], t[1:stop:4], d[1:stop:4], t[2:stop:4], d[2:stop:4], t[3:stop:4], d[3:stop:4]]
            writer.vecwrite(f, "        " + form * 4 + "\\n", *cols)
        f.write("        ")
        for k in range(stop, npts):
            f.write(form.format(t[k], d[k]))
        f.write("ENDT\\n")
        return
    tablestr = tablestr + "*"
    nfull = npts // 2
    stop = 2 * nfull
    f.write(f"{tablestr:<8s}{tid:16d}\\n*\\n")
    if nfull > 0:
        writer.vecwrite(f, "*       " + form * 2 + "\\n", t[:stop:2], d[:stop:2], t[1:stop:2], d[1:stop:2])
    f.write("*       ")
    for k in range(stop, npts):
        f.write(form.format(t[k], d[k]))
    f.write("ENDT\\n")
""", "tabled1 arms swapped, early return, renamed locals, starred column list"),
    ("C13", "neutral", [], B, _T1_DEF, '''_TABLED1_FORM = "{:16.9E}" * 2
_HEAD8 = " " * 8


@guitools.write_text_file
def wttabled1(f, tid, t, d, title=None, form=_TABLED1_FORM, tablestr="TABLED1"):
''', "tabled1 default form as a module constant (F10 key must survive)"),
    ("C13", "neutral", [], B, '''        f.write("        ")
        for j in range(r, npts):
            f.write(form.format(t[j], d[j]))
    f.write("ENDT\\n")
''', '''        f.write(" " * 8)
        _wt_tail(f, form, t, d, r, npts)
        return
    f.write("ENDT\\n")


def _wt_tail(f, form, t, d, first, stop):
    for j in range(first, stop):
        f.write(form.format(t[j], d[j]))
    f.write("ENDT\\n")
''', "tabled1 small field: leftover loop and ENDT in an extracted helper"),
    ("C13", "neutral", [], B, '''def wtgrids(
    f,''', '''_GRID_FORM = "{:16.8f}"


def wtgrids(
    f,''', "module constant added before wtgrids (no use)"),
    ("C13", "neutral", [], W, '    length = 1\n    fncs = []\n    for i, arg in enumerate(args):\n        if not isinstance(arg, str) and hasattr(arg, "__len__"):\n            if np.ndim(arg) == 2:\n                fncs.append(_get_matrow)\n                curlen = np.size(arg, 0)\n            elif len(arg) == 1:\n                fncs.append(_get_scalar1)\n                curlen = 1\n            else:\n                fncs.append(_get_itemi)\n                curlen = len(arg)\n            if curlen > 1:\n                if length > 1:\n                    if so is not None:\n                        if range(curlen)[so] != range(length)[so]:\n                            msg = (\n                                "length mismatch with slice object:"\n                                f" arg # {i + 1} is incompatible with "\n                                "previous args"\n                            )\n                            raise ValueError(msg)\n                    elif curlen != length:\n                        msg = (\n                            f"length mismatch: arg # {i + 1} has "\n                            f"length {curlen}; expected {length} or 1."\n                        )\n                        raise ValueError(msg)\n                length = curlen\n        else:\n            fncs.append(_get_scalar)\n    _vecwrite(f, string, length, args, fncs, postfunc, pfargs, so)\n',
     '    nrows = 1\n    fncs = []\n    for i, arg in enumerate(args):\n        if not isinstance(arg, str) and hasattr(arg, "__len__"):\n            if np.ndim(arg) == 2:\n                fncs.append(_get_matrow)\n                curlen = np.size(arg, 0)\n            elif len(arg) == 1:\n                fncs.append(_get_scalar1)\n                curlen = 1\n            else:\n                fncs.append(_get_itemi)\n                curlen = len(arg)\n            if 1 < curlen:\n                if nrows > 1:\n                    if so is not None:\n                        if range(curlen)[so] != range(nrows)[so]:\n                            msg = (\n                                "nrows mismatch with slice object:"\n                                f" arg # {i + 1} is incompatible with "\n                                "previous args"\n                            )\n                            raise ValueError(msg)\n                    elif curlen != nrows:\n                        msg = (\n                            f"nrows mismatch: arg # {i + 1} has "\n                            f"nrows {curlen}; expected {nrows} or 1."\n                        )\n                        raise ValueError(msg)\n                nrows = curlen\n            continue\n        fncs.append(_get_scalar)\n    _vecwrite(f, string, nrows, args, fncs, postfunc, pfargs, so)\n', "vecwrite: count renamed, 1 < curlen, continue instead of else"),
    ("C13", "neutral", [], B, '''    while start < length:
        end = _find_sequence(ids, start)
        if end > start:
            output.append(f"{ids[start]:d} THRU {ids[end]:d}, ")''', '''    while True:
        if start >= length:
            break
        end = _find_sequence(ids, start)
        if end > start:
            output.append(f"{ids[start]:d} THRU {ids[end]:d}, ")''', "wtset loop with break"),
]

RECIPES += [
    ("C13", "neutral", [], B, "        d[tid] = np.vstack([vec[8:-1:2], vec[9:-1:2]]).T\n", "        d[tid] = vec[8:-1].reshape(-1, 2)\n", "rdtabled1 pairs by reshape"),
    ("C13", "neutral", [], B, "        d[tid] = np.vstack([vec[8:-1:2], vec[9:-1:2]]).T\n",
     "        last = len(vec) - 1\n        d[tid] = np.vstack([vec[8:last:2], vec[9:last:2]]).T\n", "rdtabled1 explicit end index"),
    ("C13", "neutral", [], B, "            v = np.hstack((v, np.zeros((np.size(v, 0), 8 - c))))\n", "            v = np.pad(v, ((0, 0), (0, 8 - c)))\n", "rdgrids np.pad"),
    ("C13", "neutral", [], B, "            v = np.hstack((v, np.zeros((np.size(v, 0), 8 - c))))\n",
     "            missing = 8 - c\n            v = np.append(v, np.zeros((len(v), missing)), axis=1)\n", "rdgrids np.append"),
    ("C13", "break", ["C13-R3"], B, "        d[tid] = np.vstack([vec[8:-1:2], vec[9:-1:2]]).T\n", "        d[tid] = vec[9:-1].reshape(-1, 2)\n", "rdtabled1 reshape starting one field late"),
]

RECIPES += [
    ("C13", "neutral", [], B, _T1_BODY, '''    per = 64 // n  # pairs on a full line
    if n == 32:
        head = "*       "
        f.write(f"{tablestr + '*':<8s}{tid:16d}\\n*\\n")
    else:
        head = " " * 8
        f.write(f"{tablestr:<8s}{tid:8d}\\n")
    r = npts - npts % per
    if r:
        columns = [x[i:r:per] for i in range(per) for x in (t, d)]
        writer.vecwrite(f, head + form * per + "\\n", *columns)
    f.write(head)
    for j in range(r, npts):
        f.write(form.format(t[j], d[j]))
    f.write("ENDT\\n")
''', "tabled1 one code path for both field widths (per = 64 // n)"),
]

RECIPES += [
    ("C13", "neutral", [], B, _NASINTS, '''    n = len(ints)
    i = min(n, 10 - start)
    f.write(("{:8d}" * i + "\\n").format(*ints[:i]))
    for k in range(i, n, 8):
        chunk = ints[k : k + 8]
        f.write(("{:8s}" + "{:8d}" * len(chunk) + "\\n").format("", *chunk))
''', "wtnasints continuation lines by a range loop over chunks"),
    ("C13", "break", ["C13-R4"], B, _NASINTS, '''    n = len(ints)
    i = min(n, 10 - start)
    f.write(("{:8d}" * i + "\\n").format(*ints[:i]))
    for k in range(i, n, 8):
        chunk = ints[k : k + 7]
        f.write(("{:8s}" + "{:8d}" * len(chunk) + "\\n").format("", *chunk))
''', "wtnasints chunks of 7 with a stride of 8"),
    ("C13", "neutral", [], B, _DMIG_FORM + '''
        # determine type of matrix:
        if np.iscomplexobj(m):
            mtype = 4 if m.dtype.itemsize > 8 else 3
        else:
            mtype = 2 if m.dtype.itemsize > 4 else 1
''', '''        else:
            def _square_form(a):
                if np.allclose(a.transpose(), a):
                    return 6
                return 1

            form = _square_form(m)

        # determine type of matrix:
        def _dmig_type(a):
            wide = a.dtype.itemsize
            if np.iscomplexobj(a):
                return 4 if wide > 8 else 3
            return 2 if wide > 4 else 1

        tin = _dmig_type(m)
        mtype = tin
''', "wtdmig form / type through local helper functions"),
]

RECIPES += [
    ("C13", "neutral", [], B, '''def wtgrids(
    f,
    grids,
    cp=0,
    xyz=np.array([[0.0, 0.0, 0.0]]),
    cd=0,
    ps="",
    seid="",
    form="{:16.8f}",
):''', '''_WIDE = 16
_GRID_REAL = "{:%d.8f}" % _WIDE


def wtgrids(
    f,
    grids,
    cp=0,
    xyz=np.array([[0.0, 0.0, 0.0]]),
    cd=0,
    ps="",
    seid="",
    form=_GRID_REAL,
):''', "wtgrids default form assembled at module level (F11 key must survive)"),
    ("C13", "break", ["C13-R1"], B, '''    seid="",
    form="{:16.8f}",
):''', '''    seid="",
    form="{:16.9f}",
):''', "wtgrids another unbounded default (not the known finding)"),
]

RECIPES += [
    ("C13", "neutral", [], B, _DMIG_FORM, '''        else:
            def _is_symmetric(a):
                if a.shape[0] != a.shape[1]:
                    return False
                return np.allclose(a, a.T)

            if _is_symmetric(m):
                form = 6
            else:
                form = 1
''', "wtdmig symmetric test in a local predicate with an early return"),
]

RECIPES += [
    ("C13", "break", ["C13-R3"], B, '''                        mat[ri, ci] = real
                        if form == 6:
                            mat[ci, ri] = real
''', '''                        mat[ci, ri] = real
                        if form == 6:
                            mat[ri, ci] = real
''', "rddmig stores the transposed entry"),
    ("C13", "break", ["C13-R3"], B, '''                        mat[ri, ci] = val
                        if form == 6:
                            mat[ci, ri] = val
''', '''                        mat[ri, ci] = val
                        if form != 6:
                            mat[ci, ri] = val
''', "rddmig mirrors every form but 6"),
    ("C13", "break", ["C13-R1"], B, '''    if length != 8 and length != 16:
        raise ValueError(''', '''    if length != 8 or length != 16:
        raise ValueError(''', "wtgrids guard that nothing passes"),
    ("C13", "break", ["C13-R3"], B, '''                            num_str = num_str.replace("E", "D")''', '''                            num_str = num_str.replace("D", "E")''', "wtdmig D exponent replacement reversed"),
    ("C13", "neutral", [], B, '''        if c < 8:
            v = np.hstack''', '''        if c <= 8:
            v = np.hstack''', "rdgrids zero-width padding at exactly 8 columns"),
]

RECIPES += [
    ("C13", "neutral", [], B, '''                            num_str = f"{num.real:16.9E}{num.imag:16.9E}"''', '''                            re_part, im_part = num.real, num.imag
                            num_str = f"{re_part:16.9E}" + f"{im_part:16.9E}"''', "wtdmig complex parts through temporaries (F12 keys must survive)"),
]

RECIPES += [
    ("C13", "neutral", [], W, '''                fncs.append(_get_itemi)
''', '''                fncs.append(lambda vec, k: [vec[k]])
''', "vecwrite accessor as a lambda"),
    ("C13", "neutral", [], B, '''        for col in range(m.shape[1]):
            if m[:, col].any():''', '''        nrow_m, ncol_m = value.shape
        for col in range(ncol_m):
            if m[:, col].any():''', "wtdmig column count from the frame's shape"),
]

RECIPES += [
    ("C13", "neutral", [], B, '''    t, d = np.atleast_1d(t, d)
    t = t.ravel()
    d = d.ravel()
    npts = len(t)''', '''    t = np.ravel(np.asarray(t))
    d = np.ravel(np.asarray(d))
    npts = len(t)''', "tabled1 inputs flattened with np.ravel"),
    ("C13", "neutral", [], B, '''        rows = npts // 4
        r = rows * 4
        if rows:''', '''        rows, rem = divmod(npts, 4)
        r = npts - rem
        if rows != 0:''', "tabled1 small field: divmod"),
    ("C13", "neutral", [], B, '''        f.write(f"{tablestr:<8s}{tid:8d}\\n")
        rows = npts // 4''', '''        f.write(tablestr.ljust(8) + str(tid).rjust(8) + "\\n")
        rows = npts // 4''', "tabled1 small header by ljust / rjust"),
    ("C13", "neutral", [], B, '''        c = np.size(v, 1)
        if c < 8:''', '''        c = len(v[0])
        if c < 8:''', "rdgrids column count as len(v[0])"),
]

RECIPES += [
    ("C13", "neutral", [], B, '''    if start == length - 1:
        return start
    current_val = seq[start]
    i = start + 1
    while i < length and seq[i] == current_val + 1:
        current_val += 1
        i += 1
    return i - 1
''', '''    last = start
    for i in range(start + 1, length):
        if seq[i] != seq[i - 1] + 1:
            break
        last = i
    return last
''', "_find_sequence as a for loop with break"),
    ("C13", "neutral", [], B, '''    if start == length - 1:
        return start
    current_val = seq[start]
    i = start + 1
    while i < length and seq[i] == current_val + 1:
        current_val += 1
        i += 1
    return i - 1
''', '''    i = start
    while i + 1 < length and seq[i + 1] == seq[i] + 1:
        i += 1
    return i
''', "_find_sequence without the early return"),
    ("C13", "neutral", [], W, '''    v = range(length)
    if so is not None:
        v = v[so]
    if postfunc:
        if pfargs is None:
            pfargs = []
        for i in v:
            curargs = getith(i, args, fncs)
            s = postfunc(string.format(*curargs), *pfargs)
            fout.write(s)
    else:
        for i in v:
            curargs = getith(i, args, fncs)
            fout.write(string.format(*curargs))
''', '''    rows = range(length) if so is None else range(length)[so]
    extra = [] if pfargs is None else pfargs
    for i in rows:
        line = string.format(*getith(i, args, fncs))
        if postfunc:
            line = postfunc(line, *extra)
        fout.write(line)
''', "_vecwrite with a single loop"),
    ("C13", "neutral", [], B, '''        if end > start:
            if len(fields) > init_length:
                fields = init_func(fields)
            fields.extend([seq[start], "THRU", seq[end]])
            start = end + 1
            fields = init_func(fields)
        else:
            fields.append(seq[start])
            start += 1
''', '''        if end == start:
            fields += [seq[start]]
            start = start + 1
        else:
            if len(fields) > init_length:
                fields = init_func(fields)
            fields += [seq[start], "THRU", seq[end]]
            fields = init_func(fields)
            start = end + 1
''', "_wt_with_thru arms swapped, list +=, update after the flush"),
]

RECIPES += [
    ("C13", "neutral", [], B, _NASINTS, '''    n = len(ints)
    first = 10 - start
    f.write("".join(f"{v:8d}" for v in ints[:first]) + "\\n")
    for i in range(first, n, 8):
        f.write(" " * 8 + "".join("{:8d}".format(v) for v in ints[i : i + 8]) + "\\n")
''', "wtnasints lines joined from comprehensions"),
    ("C13", "break", ["C13-R4"], B, _NASINTS, '''    n = len(ints)
    first = 10 - start
    f.write("".join(f"{v:8d}" for v in ints[:first]) + "\\n")
    for i in range(first, n, 8):
        f.write(" " * 8 + "".join("{:8d}".format(v) for v in ints[i : i + 9]) + "\\n")
''', "wtnasints comprehension lines of 9 integers"),
]

RECIPES += [
    ("C13", "break", ["C13-R3"], B, "        d[tid] = np.vstack([vec[8:-1:2], vec[9:-1:2]]).T\n", "        d[tid] = np.vstack([vec[8:-1:2], vec[9:1:2]]).T\n", "rdtabled1 ordinates cut at an absolute index"),
]

RECIPES += [
    ("C13", "break", ["C13-R4"], B, '''    output = [f"SET {setid:d} = "]
    start = 0
''', '''    output = [f"SET {setid:d} = "]
    start = 1
''', "wtset skips the first id"),
]

RECIPES += [
    ("C13", "neutral", [], B, _NASINTS, '''    n = len(ints)
    firstline = 10 - start
    if n < firstline:
        f.write(("%8d" * n + "\\n") % tuple(ints))
        return
    i = firstline
    f.write(("%8d" * i + "\\n") % tuple(ints[:i]))
    while n >= i + 8:
        f.write(("%8s" + "%8d" * 8 + "\\n") % ("", *ints[i : i + 8]))
        i += 8
    if n > i:
        rest = n - i
        f.write(("%8s" + "%8d" * rest + "\\n") % ("", *ints[i:]))
''', "wtnasints with % formatting and an early return"),
    ("C13", "neutral", [], B, '''            i = j
            dct[name] = pd.DataFrame(mat, index=rowindex, columns=colindex)''', '''            i = j
            frame = pd.DataFrame(mat, rowindex, colindex)
            dct[name] = frame''', "rddmig DataFrame with positional index / columns"),
]

RECIPES += [
    ("C13", "neutral", [], B, '''                for row in range(start_row, m.shape[0]):
                    num = m[row, col]
                    if num != 0.0:''', '''                for row in range(m.shape[0]):
                    if row < start_row:
                        continue
                    num = m[row, col]
                    if num != 0.0:''', "wtdmig rows above the start row skipped by continue"),
    ("C13", "break", ["C13-R3"], B, '''                for row in range(start_row, m.shape[0]):
                    num = m[row, col]
                    if num != 0.0:''', '''                for row in range(m.shape[0]):
                    if row <= start_row:
                        continue
                    num = m[row, col]
                    if num != 0.0:''', "wtdmig first row of every column skipped by continue"),
]

RECIPES += [
    ("C13", "neutral", [], B, '''                        mat[ri, ci] = real
                        if form == 6:
                            mat[ci, ri] = real
''', '''                        mat[ri, ci] = real
                        if form in (6,):
                            mat[ci, ri] = real
''', "rddmig mirror condition as a membership test"),
    ("C13", "neutral", [], B, '''        f.write("*       ")
        for j in range(r, npts):
            f.write(form.format(t[j], d[j]))
    else:''', '''        f.write(f"{'*':<8s}")
        for j in range(r, len(d)):
            f.write(form.format(t[j], d[j]))
    else:''', "tabled1 last-line head through a formatted literal, loop bound len(d)"),
]

RECIPES += [
    ("C13", "neutral", [], B, '''    for tid in d:
        vec = d[tid]
        d[tid] = np.vstack([vec[8:-1:2], vec[9:-1:2]]).T
    return d
''', '''    return {tid: np.vstack([vec[8:-1:2], vec[9:-1:2]]).T for tid, vec in d.items()}
''', "rdtabled1 as a dict comprehension"),
    ("C13", "break", ["C13-R3"], B, '''    for tid in d:
        vec = d[tid]
        d[tid] = np.vstack([vec[8:-1:2], vec[9:-1:2]]).T
    return d
''', '''    return {tid: np.vstack([vec[8:-1:2], vec[10:-1:2]]).T for tid, vec in d.items()}
''', "rdtabled1 dict comprehension with a shifted ordinate stride"),
]


# ====================================================================================================================== second hardening pass
# constructs the evaluator was taught in the second pass: each has a behaviour-preserving recipe (must be silent) and a recipe with a defect placed
# inside the new form (must be reported by the named rule)
_T1_TITLE_BODY = """    if title:
        f.write(f"$ {title:s}\\n")
""" + _T1_BODY

_T1_LEFT_SMALL = '''        f.write("        ")
        for j in range(r, npts):
            f.write(form.format(t[j], d[j]))
    f.write("ENDT\\n")
'''

_T1_INPUTS = '''    t, d = np.atleast_1d(t, d)
    t = t.ravel()
    d = d.ravel()
    npts = len(t)'''

_T1_SMALL_VEC = '''        if rows:
            writer.vecwrite(
                f,
                "        " + form * 4 + "\\n",
                t[:r:4],
                d[:r:4],
                t[1:r:4],
                d[1:r:4],
                t[2:r:4],
                d[2:r:4],
                t[3:r:4],
                d[3:r:4],
            )
'''

_GRIDS_BODY = '''    if ps == seid == "":
        if len(teststr) > 8:
            string = (
                "GRID*   {:16d}{:16d}" + form * 2 + "\\n*       " + form + "{:16d}\\n"
            )
        else:
            string = "GRID    {:8d}{:8d}" + form * 3 + "{:8d}\\n"
        writer.vecwrite(f, string, grids, cp, xyz[:, 0], xyz[:, 1], xyz[:, 2], cd)
    else:
        if len(teststr) > 8:
            string = (
                "GRID*   {:16d}{:16d}"
                + form * 2
                + "\\n*       "
                + form
                + "{:16d}{:>16}{:>16}\\n"
            )
        else:
            string = "GRID    {:8d}{:8d}" + form * 3 + "{:8d}{:>8}{:>8}\\n"
        writer.vecwrite(
            f, string, grids, cp, xyz[:, 0], xyz[:, 1], xyz[:, 2], cd, ps, seid
        )
'''

_DMIG_COLS = '''        for col in range(m.shape[1]):
            if m[:, col].any():
                start_row = col if form == 6 else 0
                if colids.nlevels == 2:
                    gj, cj = colids[col]
                else:
                    gj = colids[col]
                    cj = 0
                f.write(f"{'DMIG*':<8s}{name:<16s}{gj:16d}{cj:16d}\\n")
                for row in range(start_row, m.shape[0]):
                    num = m[row, col]
                    if num != 0.0:
                        gi, ci = rowids[row]
''' + _DMIG_TERM

_WTSET_FULL = '''    output = [f"SET {setid:d} = "]
    start = 0
    while start < length:
        end = _find_sequence(ids, start)
''' + _WTSET_LOOP

_SPOINTS_TAIL = '''    def init(fields, write=True):
        if write:
            wtcard8(f, fields)
        return ["SPOINT"]

    _wt_with_thru(f, spoints, init)
'''

_THRU_LOOP = '''    length = len(seq)
    start = 0
    fields = init_func([], False)
    init_length = len(fields)
    while start < length:
        end = _find_sequence(seq, start)
        if end > start:
            if len(fields) > init_length:
                fields = init_func(fields)
            fields.extend([seq[start], "THRU", seq[end]])
            start = end + 1
            fields = init_func(fields)
        else:
            fields.append(seq[start])
            start += 1
        if len(fields) == 9:
            fields = init_func(fields)
'''

_RDDMIG_MAIN = '''    if f is not None and not isinstance(f, str):
        # assume file handle, assume punch
        cards = rdcards(
            f,
            name="dmig",
            return_var="list",
            blank="",
            follow_includes=follow_includes,
            include_symbols=include_symbols,
        )
        return _cards_to_df(cards, dmig_names)

    # read op2 or punch ... try op2, if that fails, assume punch:
    dmigfile = guitools.get_file_name(f, read=True)
    try:
        o2 = op2.OP2(dmigfile)
    except ValueError:
        cards = rdcards(
            dmigfile,
            name="dmig",
            return_var="list",
            blank="",
            follow_includes=follow_includes,
            include_symbols=include_symbols,
        )
        dct = _cards_to_df(cards, dmig_names)
    else:
        o2dct = _read_op2_dmig(o2, dmig_names)
        del o2
        dct = _recs_to_df(o2dct)
    return dct
'''


def _pair(neutral_new, break_new, old, rules, what, bad, file=B):
    return [("C13", "neutral", [], file, old, neutral_new, what),
            ("C13", "break", rules, file, old, break_new, what + " -- " + bad)]


RECIPES += (
    # ---- a counted `while` loop is the `for ... in range` it spells
    _pair('''        f.write("        ")
        j = r
        while j < npts:
            f.write(form.format(t[j], d[j]))
            j += 1
    f.write("ENDT\\n")
''', '''        f.write("        ")
        j = r + 1
        while j < npts:
            f.write(form.format(t[j], d[j]))
            j += 1
    f.write("ENDT\\n")
''', _T1_LEFT_SMALL, ["C13-R1"], "tabled1 small field: leftover pairs by a counted while loop", "the loop starts one pair late")
    + _pair('''        f.write("        ")
        j = r
        while True:
            if not j < npts:
                break
            f.write(form.format(t[j], d[j]))
            j = j + 1
    f.write("ENDT\\n")
''', '''        f.write("        ")
        j = r
        while True:
            if not j < npts - 1:
                break
            f.write(form.format(t[j], d[j]))
            j = j + 1
    f.write("ENDT\\n")
''', _T1_LEFT_SMALL, ["C13-R1"], "tabled1 small field: leftover pairs by `while True` + break", "the last pair is never written")
    # ---- generator used as a helper of a loop
    + _pair('''    def _runs():
        first = 0
        while first < length:
            last = _find_sequence(ids, first)
            yield first, last
            first = last + 1

    output = [f"SET {setid:d} = "]
    for start, end in _runs():
        if end > start:
            output.append(f"{ids[start]:d} THRU {ids[end]:d}, ")
        else:
            output.append(f"{ids[start]:d}, ")
    output[-1] = output[-1].rstrip(", ")  # strip the trailing comma from the last item
''', '''    def _runs():
        first = 0
        while first < length:
            last = _find_sequence(ids, first)
            yield first, last
            first = last + 2

    output = [f"SET {setid:d} = "]
    for start, end in _runs():
        if end > start:
            output.append(f"{ids[start]:d} THRU {ids[end]:d}, ")
        else:
            output.append(f"{ids[start]:d}, ")
    output[-1] = output[-1].rstrip(", ")  # strip the trailing comma from the last item
''', _WTSET_FULL, ["C13-R4"], "wtset: the runs come from a (nested) generator", "the generator skips the id after every run")
    # ---- the position of the THRU loop carried by another quantity
    + _pair('''    output = [f"SET {setid:d} = "]
    end = -1
    while end + 1 < length:
        first = end + 1
        end = _find_sequence(ids, first)
        if end > first:
            output.append(f"{ids[first]:d} THRU {ids[end]:d}, ")
        else:
            output.append(f"{ids[first]:d}, ")
    output[-1] = output[-1].rstrip(", ")  # strip the trailing comma from the last item
''', '''    output = [f"SET {setid:d} = "]
    end = 0
    while end + 1 < length:
        first = end + 1
        end = _find_sequence(ids, first)
        if end > first:
            output.append(f"{ids[first]:d} THRU {ids[end]:d}, ")
        else:
            output.append(f"{ids[first]:d}, ")
    output[-1] = output[-1].rstrip(", ")  # strip the trailing comma from the last item
''', _WTSET_FULL, ["C13-R4"], "wtset: the position is carried by the last index written", "the first id is never written")
    + _pair('''    length = len(seq)
    fields = init_func([], False)
    init_length = len(fields)
    done = 0  # number of ids written so far
    while done != length:
        end = _find_sequence(seq, done)
        if end == done:
            fields.append(seq[done])
        else:
            if len(fields) > init_length:
                fields = init_func(fields)
            fields.extend([seq[done], "THRU", seq[end]])
            fields = init_func(fields)
        done = end + 1
        if len(fields) == 9:
            fields = init_func(fields)
''', '''    length = len(seq)
    fields = init_func([], False)
    init_length = len(fields)
    done = 0  # number of ids written so far
    while done != length:
        end = _find_sequence(seq, done)
        if end == done:
            fields.append(seq[done])
        else:
            if len(fields) > init_length:
                fields = init_func(fields)
            fields.extend([seq[done], "THRU", seq[end]])
            fields = init_func(fields)
        done = end
        if len(fields) == 9:
            fields = init_func(fields)
''', _THRU_LOOP, ["C13-R4"], "_wt_with_thru: counter of ids written, `!=` test, one update", "the counter stops on the last id of a run")
    # ---- callbacks: functools.partial of a module-level helper, lambda
    + _pair('''    import functools

    _wt_with_thru(f, spoints, functools.partial(_spoint_card, f, ("SPOINT",)))


def _spoint_card(f, first_fields, fields, write=True):
    if write:
        wtcard8(f, fields)
    return list(first_fields)
''', '''    import functools

    _wt_with_thru(f, spoints[1:], functools.partial(_spoint_card, f, ("SPOINT",)))


def _spoint_card(f, first_fields, fields, write=True):
    if write:
        wtcard8(f, fields)
    return list(first_fields)
''', _SPOINTS_TAIL, ["C13-R4"], "wtspoints: the closure replaced by functools.partial of a module-level helper", "the first id is not handed on")
    + [("C13", "neutral", [], B, _SPOINTS_TAIL, '''    _wt_with_thru(
        f, spoints, lambda fields, write=True: (wtcard8(f, fields) if write else None, ["SPOINT"])[1]
    )
''', "wtspoints: the closure as a lambda")]
    # ---- (b, a)[condition]
    + _pair('''                start_row = (0, col)[form == 6]
''', '''                start_row = (0, col + 1)[form == 6]
''', '''                start_row = col if form == 6 else 0
''', ["C13-R3"], "wtdmig: start row by a tuple indexed with the condition", "form 6 skips the diagonal")
    # ---- rows by enumerate over the sliced column
    + _pair('''        for col in range(m.shape[1]):
            column = m[:, col]
            if not column.any():
                continue
            start_row = col if form == 6 else 0
            if colids.nlevels == 2:
                gj, cj = colids[col]
            else:
                gj, cj = colids[col], 0
            f.write(f"{'DMIG*':<8s}{name:<16s}{gj:16d}{cj:16d}\\n")
            for row, num in enumerate(column[start_row:], start_row):
                if num == 0.0:
                    continue
                gi, ci = rowids[row]
                if mtype < 3:  # real
                    num_str = f"{num:16.9E}"
                else:  # complex
                    num_str = f"{num.real:16.9E}{num.imag:16.9E}"
                if mtype & 1 == 0:  # if even
                    num_str = num_str.replace("E", "D")
                f.write(f"{'*':<8s}{gi:16d}{ci:16d}{num_str:s}\\n")
''', '''        for col in range(m.shape[1]):
            column = m[:, col]
            if not column.any():
                continue
            start_row = col + 1 if form == 6 else 0
            if colids.nlevels == 2:
                gj, cj = colids[col]
            else:
                gj, cj = colids[col], 0
            f.write(f"{'DMIG*':<8s}{name:<16s}{gj:16d}{cj:16d}\\n")
            for row, num in enumerate(column[start_row:], start_row):
                if num == 0.0:
                    continue
                gi, ci = rowids[row]
                if mtype < 3:  # real
                    num_str = f"{num:16.9E}"
                else:  # complex
                    num_str = f"{num.real:16.9E}{num.imag:16.9E}"
                if mtype & 1 == 0:  # if even
                    num_str = num_str.replace("E", "D")
                f.write(f"{'*':<8s}{gi:16d}{ci:16d}{num_str:s}\\n")
''', _DMIG_COLS, ["C13-R3"], "wtdmig: rows of a column by enumerate(column[start_row:], start_row) (F12 keys must survive)", "form 6 skips the diagonal")
    # ---- closed form instead of a loop counter
    + _pair('''    n = len(ints)
    firstline = 10 - start
    if n >= firstline:
        f.write(("{:8d}" * firstline + "\\n").format(*ints[:firstline]))
        nfull = (n - firstline) // 8
        stop = firstline + 8 * nfull
        for i in range(firstline, stop, 8):
            f.write(("{:8s}" + "{:8d}" * 8 + "\\n").format("", *ints[i : i + 8]))
        nleft = n - stop
        if nleft > 0:
            f.write(("{:8s}" + "{:8d}" * nleft + "\\n").format("", *ints[stop:]))
    else:
        f.write(("{:8d}" * n + "\\n").format(*ints))
''', '''    n = len(ints)
    firstline = 10 - start
    if n >= firstline:
        f.write(("{:8d}" * firstline + "\\n").format(*ints[:firstline]))
        nfull = (n - firstline) // 8
        stop = firstline + 8 * nfull
        for i in range(firstline, stop, 8):
            f.write(("{:8s}" + "{:8d}" * 8 + "\\n").format("", *ints[i : i + 8]))
        nleft = n - stop
        if nleft > 1:
            f.write(("{:8s}" + "{:8d}" * nleft + "\\n").format("", *ints[stop:]))
    else:
        f.write(("{:8d}" * n + "\\n").format(*ints))
''', _NASINTS, ["C13-R4"], "wtnasints: number of full lines and their end in closed form, range loop with a stride", "a single leftover integer is dropped")
    # ---- the remainder as a slice of its own
    + _pair('''    first = ints[: 10 - start]
    rest = ints[10 - start :]
    f.write(("{:8d}" * len(first) + "\\n").format(*first))
    for k in range(0, len(rest), 8):
        chunk = rest[k : k + 8]
        f.write(("{:8s}" + "{:8d}" * len(chunk) + "\\n").format("", *chunk))
''', '''    first = ints[: 10 - start]
    rest = ints[11 - start :]
    f.write(("{:8d}" * len(first) + "\\n").format(*first))
    for k in range(0, len(rest), 8):
        chunk = rest[k : k + 8]
        f.write(("{:8s}" + "{:8d}" * len(chunk) + "\\n").format("", *chunk))
''', _NASINTS, ["C13-R4"], "wtnasints: first line and remainder as two slices, the remainder in chunks of 8", "the remainder starts one integer late")
    + _pair('''        pairs = d[tid][8:-1]  # x1, y1, x2, y2, ... (the last field is ENDT)
        d[tid] = np.column_stack((pairs[::2], pairs[1::2]))
''', '''        pairs = d[tid][8:-1]  # x1, y1, x2, y2, ... (the last field is ENDT)
        d[tid] = np.column_stack((pairs[1::2], pairs[::2]))
''', '''        vec = d[tid]
        d[tid] = np.vstack([vec[8:-1:2], vec[9:-1:2]]).T
''', ["C13-R3"], "rdtabled1: data fields sliced once, columns as every second element of that slice", "abscissae and ordinates exchanged")
    # ---- lists filled in a loop with a constant trip count, starred
    + _pair('''        if rows:
            columns = []
            for k in range(4):
                columns.append(t[k:r:4])
                columns.append(d[k:r:4])
            writer.vecwrite(f, "        " + form * 4 + "\\n", *columns)
''', '''        if rows:
            columns = []
            for k in range(4):
                columns.append(d[k:r:4])
                columns.append(t[k:r:4])
            writer.vecwrite(f, "        " + form * 4 + "\\n", *columns)
''', _T1_SMALL_VEC, ["C13-R1"], "tabled1 small field: the column list filled by a loop over range(4)", "ordinate before abscissa")
    # ---- pieces of a template from a literal table keyed by conditions
    + _pair('''    pieces = {
        # (16 character fields, ps / seid given): text before, between and after the coordinates
        (False, False): ("GRID    {:8d}{:8d}", "", "{:8d}\\n"),
        (False, True): ("GRID    {:8d}{:8d}", "", "{:8d}{:>8}{:>8}\\n"),
        (True, False): ("GRID*   {:16d}{:16d}", "\\n*       ", "{:16d}\\n"),
        (True, True): ("GRID*   {:16d}{:16d}", "\\n*       ", "{:16d}{:>16}{:>16}\\n"),
    }
    extra = not (ps == seid == "")
    before, between, after = pieces[length > 8, extra]
    string = before + form + form + between + form + after
    columns = [grids, cp, xyz[:, 0], xyz[:, 1], xyz[:, 2], cd]
    if extra:
        columns += [ps, seid]
    writer.vecwrite(f, string, *columns)
''', '''    pieces = {
        # (16 character fields, ps / seid given): text before, between and after the coordinates
        (False, False): ("GRID    {:8d}{:8d}", "", "{:8d}\\n"),
        (False, True): ("GRID    {:8d}{:8d}", "", "{:8d}{:>8}{:>8}\\n"),
        (True, False): ("GRID*   {:16d}{:16d}", "\\n*       ", "{:16d}\\n"),
        (True, True): ("GRID*   {:16d}{:16d}", "\\n*      ", "{:16d}{:>16}{:>16}\\n"),
    }
    extra = not (ps == seid == "")
    before, between, after = pieces[length > 8, extra]
    string = before + form + form + between + form + after
    columns = [grids, cp, xyz[:, 0], xyz[:, 1], xyz[:, 2], cd]
    if extra:
        columns += [ps, seid]
    writer.vecwrite(f, string, *columns)
''', _GRIDS_BODY, ["C13-R1"], "wtgrids: template pieces from a literal table keyed by (wide, ps/seid given), one starred vecwrite", "a 7-column continuation head in one entry")
    # ---- output collected and written at once: writelines, "".join(list), print(..., file=f)
    + _pair("""    head = []
    if title:
        head.append(f"$ {title:s}\\n")
    if n == 32:
        head.append(f"{tablestr + '*':<8s}{tid:16d}\\n")
        head.append("*\\n")
        start, per = "*       ", 2
    else:
        head.append(f"{tablestr:<8s}{tid:8d}\\n")
        start, per = " " * 8, 4
    f.writelines(head)
    nfull, nleft = divmod(npts, per)
    r = npts - nleft
    if nfull > 0:
        if per == 2:
            writer.vecwrite(f, start + form * 2 + "\\n", t[:r:2], d[:r:2], t[1:r:2], d[1:r:2])
        else:
            writer.vecwrite(
                f,
                start + form * 4 + "\\n",
                t[:r:4],
                d[:r:4],
                t[1:r:4],
                d[1:r:4],
                t[2:r:4],
                d[2:r:4],
                t[3:r:4],
                d[3:r:4],
            )
    tail = [start]
    tail.extend(form.format(t[j], d[j]) for j in range(r, npts))
    print("".join(tail), "ENDT", sep="", file=f)
""", """    head = []
    if title:
        head.append(f"$ {title:s}\\n")
    if n == 32:
        head.append(f"{tablestr + '*':<8s}{tid:16d}\\n")
        start, per = "*       ", 2
    else:
        head.append(f"{tablestr:<8s}{tid:8d}\\n")
        start, per = " " * 8, 4
    f.writelines(head)
    nfull, nleft = divmod(npts, per)
    r = npts - nleft
    if nfull > 0:
        if per == 2:
            writer.vecwrite(f, start + form * 2 + "\\n", t[:r:2], d[:r:2], t[1:r:2], d[1:r:2])
        else:
            writer.vecwrite(
                f,
                start + form * 4 + "\\n",
                t[:r:4],
                d[:r:4],
                t[1:r:4],
                d[1:r:4],
                t[2:r:4],
                d[2:r:4],
                t[3:r:4],
                d[3:r:4],
            )
    tail = [start]
    tail.extend(form.format(t[j], d[j]) for j in range(r, npts))
    print("".join(tail), "ENDT", sep="", file=f)
""", _T1_TITLE_BODY, ["C13-R3"], "wttabled1: header by writelines, last line joined from a list and written with print(..., file=f)",
            "the blank continuation line of the large-field header is lost (first pair in field 4)")
    # ---- shifts
    + _pair('''        r = npts >> 2 << 2
        if r >= 4:''', '''        r = npts >> 2 << 2
        if r >= 0:''', '''        rows = npts // 4
        r = rows * 4
        if rows:''', ["C13-R2"], "tabled1 small field: full-line extent by shifts", "the guard lets an empty vectorised write through")
    # ---- inputs unpacked from a generator expression over np.atleast_1d(t, d)
    + _pair('''    t, d = (arr.ravel() for arr in np.atleast_1d(t, d))
    npts = len(t)''', '''    d, t = (arr.ravel() for arr in np.atleast_1d(t, d))
    npts = len(t)''', _T1_INPUTS, ["C13-R1"], "tabled1 inputs flattened by a generator expression over np.atleast_1d(t, d)", "abscissae and ordinates exchanged")
    # ---- the cards handed to the card reader without a local, op2 branch first
    + [("C13", "neutral", [], B, _RDDMIG_MAIN, '''    if f is not None and not isinstance(f, str):
        # assume file handle, assume punch
        source = f
    else:
        # read op2 or punch ... try op2, if that fails, assume punch:
        source = guitools.get_file_name(f, read=True)
        try:
            o2 = op2.OP2(source)
        except ValueError:
            pass
        else:
            o2dct = _read_op2_dmig(o2, dmig_names)
            del o2
            return _recs_to_df(o2dct)
    return _cards_to_df(
        rdcards(
            source,
            name="dmig",
            return_var="list",
            blank="",
            follow_includes=follow_includes,
            include_symbols=include_symbols,
        ),
        dmig_names,
    )
''', "rddmig: one rdcards call whose result is passed straight to the card reader")]
    # ---- a number formatter of its own, the spec handed down as an argument
    + _pair('''                        num_str = _dmig_number(num, mtype, "16.9E")
                        f.write(f"{'*':<8s}{gi:16d}{ci:16d}{num_str:s}\\n")


def _dmig_number(num, mtype, spec):
    if mtype < 3:  # real
        num_str = format(num, spec)
    else:  # complex
        num_str = format(num.real, spec) + format(num.imag, spec)
    if mtype & 1 == 0:  # if even
        num_str = num_str.replace("E", "D")
    return num_str
''', '''                        num_str = _dmig_number(num, mtype, "16.10E")
                        f.write(f"{'*':<8s}{gi:16d}{ci:16d}{num_str:s}\\n")


def _dmig_number(num, mtype, spec):
    if mtype < 3:  # real
        num_str = format(num, spec)
    else:  # complex
        num_str = format(num.real, spec) + format(num.imag, spec)
    if mtype & 1 == 0:  # if even
        num_str = num_str.replace("E", "D")
    return num_str
''', _DMIG_TERM, ["C13-R1"], "wtdmig: the term formatted by a module-level helper that gets the spec as an argument (F12 keys must survive)",
            "another spec that is too narrow (not the known finding)")
)

# ---- further spellings met while generalising the rules (second pass)
_RDGRIDS_PAD = '''        c = np.size(v, 1)
        if c < 8:
            v = np.hstack((v, np.zeros((np.size(v, 0), 8 - c))))
        return v
'''

RECIPES += (
    _pair('''        nrows, c = v.shape
        if c < 8:
            out = np.zeros((nrows, 8))
            out[:, :c] = v
            return out
        return v
''', '''        nrows, c = v.shape
        if c < 8:
            out = np.zeros((nrows, 7))
            out[:, :c] = v
            return out
        return v
''', _RDGRIDS_PAD, ["C13-R3"], "rdgrids: a zero array of 8 columns allocated and the card columns copied in", "7 columns allocated")
    # two other ways to test symmetry (a stricter test than the original: not output-identical for nearly symmetric matrices, so only the broken
    # variants are kept - they are reported as violations only because the rule understands the form)
    + [("C13", "break", ["C13-R3"], B, _DMIG_FORM, '''        else:
            if np.allclose(m - m.conj().T, 0):
                form = 6
            else:
                form = 1
''', "wtdmig: symmetric test on the difference with the conjugate transpose"),
       ("C13", "break", ["C13-R3"], B, _DMIG_FORM, '''        else:
            if not (m != m.T.conj()).any():
                form = 6
            else:
                form = 1
''', "wtdmig: symmetric test as `no element differs from the conjugate transpose`")]
    + _pair('''    n = len(ints)
    firstline = 10 - start
    f.write(("{:8d}" * min(n, firstline) + "\\n").format(*ints[:firstline]))
    nlines = (n - firstline + 7) // 8  # continuation lines
    for k in range(nlines):
        lo = firstline + 8 * k
        chunk = ints[lo : lo + 8]
        f.write(("{:8s}" + "{:8d}" * len(chunk) + "\\n").format("", *chunk))
''', '''    n = len(ints)
    firstline = 10 - start
    f.write(("{:8d}" * min(n, firstline) + "\\n").format(*ints[:firstline]))
    nlines = (n - firstline + 7) // 8  # continuation lines
    for k in range(nlines):
        lo = firstline + 8 * k
        chunk = ints[lo : lo + 8]
        f.write(("{:8s}" + "{:8d}" * 8 + "\\n").format("", *chunk))
''', _NASINTS, ["C13-R4"], "wtnasints: continuation lines counted by a ceiling division, positions from the line number", "the last line is given 8 fields whatever is left")
    + _pair('''        vec = d[tid]
        d[tid] = np.stack((vec[8:-1:2], vec[9:-1:2]), axis=1)
''', '''        vec = d[tid]
        d[tid] = np.stack((vec[8:-1:2], vec[9:-2:2]), axis=1)
''', '''        vec = d[tid]
        d[tid] = np.vstack([vec[8:-1:2], vec[9:-1:2]]).T
''', ["C13-R3"], "rdtabled1: np.stack(..., axis=1)", "the last ordinate is cut off")
    + [("C13", "neutral", [], B, '''        vec = d[tid]
        d[tid] = np.vstack([vec[8:-1:2], vec[9:-1:2]]).T
''', '''        vec = d[tid]
        d[tid] = np.array(list(zip(vec[8:-1:2], vec[9:-1:2])))
''', "rdtabled1: rows from zip"),
       ("C13", "neutral", [], B, '''        for col in range(m.shape[1]):
            if m[:, col].any():''', '''        for col, column in enumerate(m.T):
            if column.any():''', "wtdmig: columns by enumerate(m.T)")]
)

# ---- obligations added in the second pass: card order of the GRID vectors, non-zero DMIG terms are never skipped
RECIPES += [
    ("C13", "break", ["C13-R1"], B, '''            string = "GRID    {:8d}{:8d}" + form * 3 + "{:8d}\\n"
        writer.vecwrite(f, string, grids, cp, xyz[:, 0], xyz[:, 1], xyz[:, 2], cd)''', '''            string = "GRID    {:8d}{:8d}" + form * 3 + "{:8d}\\n"
        writer.vecwrite(f, string, grids, cp, xyz[:, 1], xyz[:, 0], xyz[:, 2], cd)''', "wtgrids: x and y columns exchanged"),
    ("C13", "break", ["C13-R1"], B, '''        writer.vecwrite(
            f, string, grids, cp, xyz[:, 0], xyz[:, 1], xyz[:, 2], cd, ps, seid
        )''', '''        writer.vecwrite(
            f, string, grids, cd, xyz[:, 0], xyz[:, 1], xyz[:, 2], cp, ps, seid
        )''', "wtgrids: cp and cd exchanged"),
    ("C13", "neutral", [], B, '''    if ps == seid == "":
        if len(teststr) > 8:
            string = (
                "GRID*   {:16d}{:16d}" + form * 2 + "\\n*       " + form + "{:16d}\\n"
            )
        else:
            string = "GRID    {:8d}{:8d}" + form * 3 + "{:8d}\\n"
        writer.vecwrite(f, string, grids, cp, xyz[:, 0], xyz[:, 1], xyz[:, 2], cd)''', '''    x, y, z = xyz.T
    if ps == seid == "":
        if len(teststr) > 8:
            string = (
                "GRID*   {:16d}{:16d}" + form * 2 + "\\n*       " + form + "{:16d}\\n"
            )
        else:
            string = "GRID    {:8d}{:8d}" + form * 3 + "{:8d}\\n"
        writer.vecwrite(f, string, grids, cp, x, y, z, cd)''', "wtgrids: coordinate columns unpacked from xyz.T"),
    ("C13", "break", ["C13-R3"], B, '''                    if num != 0.0:
                        gi, ci = rowids[row]''', '''                    if num == 0.0:
                        gi, ci = rowids[row]''', "wtdmig: only the zero terms are written"),
    ("C13", "break", ["C13-R3"], B, '''                    if num != 0.0:
                        gi, ci = rowids[row]''', '''                    if num > 0.0:
                        gi, ci = rowids[row]''', "wtdmig: negative terms are skipped"),
    ("C13", "neutral", [], B, '''                    if num != 0.0:
                        gi, ci = rowids[row]''', '''                    if not num == 0:
                        gi, ci = rowids[row]''', "wtdmig: zero test as `not num == 0`"),
]

# ---- DMIG card layout: the fields rddmig takes are the fields wtdmig writes
_RDDMIG_TERMS = '''                rowids = c[j][4::4]
                rowdofs = c[j][5::4]
                reals = c[j][6::4]
                if mtype < 3:
                    for nid, dof, real in zip(rowids, rowdofs, reals):
                        ri = np.searchsorted(r_id_dof, nid * 10 + dof)
                        mat[ri, ci] = real
                        if form == 6:
                            mat[ci, ri] = real
                else:
                    imags = c[j][7::4]
                    for nid, dof, real, imag in zip(rowids, rowdofs, reals, imags):
                        val = real + 1j * imag
                        ri = np.searchsorted(r_id_dof, nid * 10 + dof)
                        mat[ri, ci] = val
                        if form == 6:
                            mat[ci, ri] = val
'''

RECIPES += (
    _pair('''                card = c[j]
                if mtype < 3:
                    for k in range(4, len(card) - 2, 4):
                        nid, dof, real = card[k : k + 3]
                        ri = np.searchsorted(r_id_dof, nid * 10 + dof)
                        mat[ri, ci] = real
                        if form == 6:
                            mat[ci, ri] = real
                else:
                    for k in range(4, len(card) - 3, 4):
                        nid, dof, real, imag = card[k : k + 4]
                        val = real + 1j * imag
                        ri = np.searchsorted(r_id_dof, nid * 10 + dof)
                        mat[ri, ci] = val
                        if form == 6:
                            mat[ci, ri] = val
''', '''                card = c[j]
                if mtype < 3:
                    for k in range(4, len(card) - 2, 4):
                        nid, dof, real = card[k : k + 3]
                        ri = np.searchsorted(r_id_dof, nid * 10 + dof)
                        mat[ri, ci] = real
                        if form == 6:
                            mat[ci, ri] = real
                else:
                    for k in range(4, len(card) - 3, 4):
                        nid, dof, imag, real = card[k : k + 4]
                        val = real + 1j * imag
                        ri = np.searchsorted(r_id_dof, nid * 10 + dof)
                        mat[ri, ci] = val
                        if form == 6:
                            mat[ci, ri] = val
''', _RDDMIG_TERMS, ["C13-R3"], "rddmig: the terms of a column card taken group by group (range with stride 4, unpacked slice)", "real and imaginary field exchanged")
    + [("C13", "break", ["C13-R3"], B, _RDDMIG_TERMS, _RDDMIG_TERMS.replace("rowdofs = c[j][5::4]", "rowdofs = c[j][6::4]"), "rddmig: row dof read from the field of the real part"),
       ("C13", "break", ["C13-R3"], B, _RDDMIG_TERMS, _RDDMIG_TERMS.replace("imags = c[j][7::4]", "imags = c[j][7::3]"), "rddmig: imaginary parts read with a stride of 3"),
       ("C13", "break", ["C13-R3"], B, _RDDMIG_TERMS, _RDDMIG_TERMS.replace("ri = np.searchsorted(r_id_dof, nid * 10 + dof)\n                        mat[ri, ci] = real",
                                                                         "ri = np.searchsorted(r_id_dof, nid * 100 + dof)\n                        mat[ri, ci] = real"),
        "rddmig: row key formed as 100 * id + dof (the index keys are 10 * id + dof)"),
       ("C13", "break", ["C13-R3"], B, '''                        f.write(f"{'*':<8s}{gi:16d}{ci:16d}{num_str:s}\\n")''', '''                        f.write(f"{'*':<8s}{ci:16d}{gi:16d}{num_str:s}\\n")''',
        "wtdmig: row dof written before the row grid"),
       ("C13", "break", ["C13-R3"], B, '''                        f.write(f"{'*':<8s}{gi:16d}{ci:16d}{num_str:s}\\n")''', '''                        f.write(f"{'*':<8s}{gi:16d}{ci:8d}{num_str:s}\\n")''',
        "wtdmig: a term line with an 8-character field among 16-character fields"),
       ("C13", "break", ["C13-R3"], B, '''                nid, dof = c[j][1:3]
                if form != 9:
                    nid = nid * 10 + dof
                ci = np.searchsorted(c_id_dof, nid)''', '''                nid, dof = c[j][2:4]
                if form != 9:
                    nid = nid * 10 + dof
                ci = np.searchsorted(c_id_dof, nid)''', "rddmig: column grid / dof read one field late")]
)

# ---- callers of wtnasints: the head of the card fills the fields before `start`
RECIPES += (
    _pair('''    f.write("%-8s%8d" % ("CSUPER", superid))
    f.write("{:8d}".format(0))
    wtnasints(f, 4, grids)
''', '''    f.write("%-8s%8d" % ("CSUPER", superid))
    wtnasints(f, 4, grids)
''', '''    f.write(f"CSUPER  {superid:8d}{0:8d}")
    wtnasints(f, 4, grids)
''', ["C13-R4"], "wtcsuper: the head of the card by % formatting and two writes", "the zero field is not written but the integers still start in field 4")
    + [("C13", "break", ["C13-R4"], B, '''    f.write("EXTRN   ")
    ints = np.zeros(len(ids) * 2, dtype=int)
    ints[::2] = ids
    ints[1::2] = dof
    wtnasints(f, 2, ints)''', '''    f.write("EXTRN   ")
    ints = np.zeros(len(ids) * 2, dtype=int)
    ints[::2] = ids
    ints[1::2] = dof
    wtnasints(f, 3, ints)''', "wtextrn: integers announced for field 3 although only the card name is on the line")]
)

# ---- DMIG reader: the index a key is searched in holds the keys of that kind (form 6: column DOF merged into the row DOF)
_PREP_SYM = '''            if form == 6 or (form == 1 and square):
                for nid, dof in col_iddof:
                    add_iddof(row_ids, row_iddof, nid, dof)
                rowindex = _mk_index(row_iddof)
                colindex = rowindex
'''

RECIPES += (
    _pair('''            if form == 6 or (form == 1 and square):
                for pair in col_iddof:
                    add_iddof(row_ids, row_iddof, *pair)
                colindex = rowindex = _mk_index(row_iddof)
''', '''            if form == 6 or (form == 1 and square):
                if form == 1:
                    for pair in col_iddof:
                        add_iddof(row_ids, row_iddof, *pair)
                colindex = rowindex = _mk_index(row_iddof)
''', _PREP_SYM, ["C13-R3"], "rddmig: column DOF merged into the row DOF with a starred pair, chained assignment of the shared index",
            "form 6: the column DOF are not merged, their keys are searched in the row index")
    + [("C13", "break", ["C13-R3"], B, _PREP_SYM, '''            if form == 6 or (form == 1 and square):
                rowindex = _mk_index(row_iddof)
                colindex = rowindex
''', "rddmig: symmetric forms use the row index for the columns without merging the column DOF"),
       ("C13", "break", ["C13-R3"], B, '''            else:
                rowindex = _mk_index(row_iddof)
                colindex = _mk_index(col_iddof)
        else:
            rowindex = _mk_index(row_iddof)''', '''            else:
                rowindex = _mk_index(col_iddof)
                colindex = _mk_index(row_iddof)
        else:
            rowindex = _mk_index(row_iddof)''', "rddmig: general forms build the row index from the column DOF and vice versa")]
)

# ---- constructs met in a round of refactorings written blind (second pass): each with a defect placed inside
_DMIG_TYPE = '''        if np.iscomplexobj(m):
            mtype = 4 if m.dtype.itemsize > 8 else 3
        else:
            mtype = 2 if m.dtype.itemsize > 4 else 1
'''

_T1_LARGE_VEC = '''            writer.vecwrite(
                f, "*       " + form * 2 + "\\n", t[:r:2], d[:r:2], t[1:r:2], d[1:r:2]
            )
'''

RECIPES += (
    # the loop variable is used after the loop (the last value of the range, or what it was before when the range is empty)
    _pair('''    n = len(ints)
    firstline = 10 - start
    if n >= firstline:
        i = firstline
        f.write(("{:8d}" * i + "\\n").format(*ints[:i]))
        # full continuation lines; `i` is where each of these lines ends:
        for i in range(firstline + 8, n + 1, 8):
            f.write(("{:8s}" + "{:8d}" * 8 + "\\n").format("", *ints[i - 8 : i]))
        if n > i:
            n -= i
            f.write(("{:8s}" + "{:8d}" * n + "\\n").format("", *ints[i:]))
    else:
        f.write(("{:8d}" * n + "\\n").format(*ints))
''', '''    n = len(ints)
    firstline = 10 - start
    if n >= firstline:
        i = firstline
        f.write(("{:8d}" * i + "\\n").format(*ints[:i]))
        # full continuation lines; `i` is where each of these lines ends:
        for i in range(firstline + 8, n + 1, 8):
            f.write(("{:8s}" + "{:8d}" * 8 + "\\n").format("", *ints[i - 8 : i]))
        if n > i + 1:
            n -= i
            f.write(("{:8s}" + "{:8d}" * n + "\\n").format("", *ints[i:]))
    else:
        f.write(("{:8d}" * n + "\\n").format(*ints))
''', _NASINTS, ["C13-R4"], "wtnasints: full lines by a range over their end positions, the loop variable used after the loop",
            "a single integer left after the full lines is not written")
    + _pair('''    n = len(ints)
    firstline = 10 - start
    if n >= firstline:
        i = firstline
        f.write(("{:8d}" * i + "\\n").format(*ints[:i]))
        nfull, nlast = divmod(n - i, 8)
        last = i + 8 * nfull
        while i < last:
            f.write(("{:8s}" + "{:8d}" * 8 + "\\n").format("", *ints[i : i + 8]))
            i += 8
        if nlast:
            f.write(("{:8s}" + "{:8d}" * nlast + "\\n").format("", *ints[last:]))
    else:
        f.write(("{:8d}" * n + "\\n").format(*ints))
''', '''    n = len(ints)
    firstline = 10 - start
    if n >= firstline:
        i = firstline
        f.write(("{:8d}" * i + "\\n").format(*ints[:i]))
        nfull, nlast = divmod(n - i, 8)
        last = i + 8 * nfull
        while i < last:
            f.write(("{:8s}" + "{:8d}" * 8 + "\\n").format("", *ints[i : i + 8]))
            i += 8
        if nlast:
            f.write(("{:8s}" + "{:8d}" * nlast + "\\n").format("", *ints[last + 1 :]))
    else:
        f.write(("{:8d}" * n + "\\n").format(*ints))
''', _NASINTS, ["C13-R4"], "wtnasints: divmod for the full lines, a while loop in steps of 8 up to their end", "the remainder starts one integer late")
    # items produced by a generator function, consumed by extend(...)
    + _pair('''    def _runs():
        first = 0
        while first < length:
            last = _find_sequence(ids, first)
            yield first, last
            first = last + 1

    output = [f"SET {setid:d} = "]
    output.extend(
        f"{ids[start]:d} THRU {ids[end]:d}, " if end > start else f"{ids[start]:d}, "
        for start, end in _runs()
    )
    output[-1] = output[-1].rstrip(", ")  # strip the trailing comma from the last item
''', '''    def _runs():
        first = 0
        while first < length:
            last = _find_sequence(ids, first)
            yield first, last
            first = last + 1

    output = [f"SET {setid:d} = "]
    output.extend(
        f"{ids[start]:d} THRU {ids[end]:d}, " if end > start + 1 else f"{ids[start]:d}, "
        for start, end in _runs()
    )
    output[-1] = output[-1].rstrip(", ")  # strip the trailing comma from the last item
''', _WTSET_FULL, ["C13-R4"], "wtset: the items by output.extend(<generator expression over a generator function>)", "a run of two loses its second id")
    # tables indexed by flags, number formats with attribute fields
    + _pair('''        iscomplex = np.iscomplexobj(m)
        isdouble = m.dtype.itemsize > (4, 8)[iscomplex]
        mtype = ((1, 2), (3, 4))[iscomplex][isdouble]
''', '''        iscomplex = np.iscomplexobj(m)
        isdouble = m.dtype.itemsize > (4, 8)[iscomplex]
        mtype = ((1, 3), (2, 4))[iscomplex][isdouble]
''', _DMIG_TYPE, ["C13-R3"], "wtdmig: matrix type from a table indexed by [is complex][is double]", "table transposed: complex single precision gets type 2")
    + _pair('''                        num_format, exponent = {
                            1: ("{0:16.9E}", "E"),
                            2: ("{0:16.9E}", "D"),
                            3: ("{0.real:16.9E}{0.imag:16.9E}", "E"),
                            4: ("{0.real:16.9E}{0.imag:16.9E}", "D"),
                        }[mtype]
                        num_str = num_format.format(num).replace("E", exponent)
                        f.write("{:<8s}{:16d}{:16d}{:s}\\n".format("*", gi, ci, num_str))
''', '''                        num_format, exponent = {
                            1: ("{0:16.9E}", "E"),
                            2: ("{0:16.9E}", "D"),
                            3: ("{0.real:16.9E}{0.imag:16.9E}", "E"),
                            4: ("{0.imag:16.9E}{0.real:16.9E}", "D"),
                        }[mtype]
                        num_str = num_format.format(num).replace("E", exponent)
                        f.write("{:<8s}{:16d}{:16d}{:s}\\n".format("*", gi, ci, num_str))
''', _DMIG_TERM, ["C13-R3"], "wtdmig: number format and exponent letter from a table indexed by the type, fields {0.real} / {0.imag} (F12 keys must survive)",
            "type 4 writes the imaginary part first")
    # True / False as numbers
    + _pair('''        mtype = 1 + 2 * np.iscomplexobj(m) + (m.dtype.itemsize > 4 * (1 + np.iscomplexobj(m)))
''', '''        mtype = 1 + np.iscomplexobj(m) + 2 * (m.dtype.itemsize > 4 * (1 + np.iscomplexobj(m)))
''', _DMIG_TYPE, ["C13-R3"], "wtdmig: matrix type by arithmetic on truth values", "weights exchanged: real double precision gets type 3")
    + _pair('''                start_row = col * (form == 6)
''', '''                start_row = (col + 1) * (form == 6)
''', '''                start_row = col if form == 6 else 0
''', ["C13-R3"], "wtdmig: start row as col * (form == 6)", "form 6 skips the diagonal")
    # columns of a reshaped slice
    + _pair('''            t2, d2 = t[:r].reshape(rows, 2), d[:r].reshape(-1, 2)
            writer.vecwrite(f, "*       " + form * 2 + "\\n", t2[:, 0], d2[:, 0], t2.T[1], d2.T[1])
''', '''            t2, d2 = t[:r].reshape(rows, 2), d[:r].reshape(-1, 2)
            writer.vecwrite(f, "*       " + form * 2 + "\\n", t2[:, 0], t2.T[1], d2[:, 0], d2.T[1])
''', _T1_LARGE_VEC, ["C13-R1"], "tabled1 large field: the vectors as columns of the reshaped full lines", "both abscissae before both ordinates")
    + _pair('''            pairs = ((t[k:r:2], d[k:r:2]) for k in range(2))
            writer.vecwrite(f, "*       " + form * 2 + "\\n", *itertools.chain.from_iterable(pairs))
''', '''            pairs = ((d[k:r:2], t[k:r:2]) for k in range(2))
            writer.vecwrite(f, "*       " + form * 2 + "\\n", *itertools.chain.from_iterable(pairs))
''', _T1_LARGE_VEC, ["C13-R1"], "tabled1 large field: the vectors chained from a generator of pairs", "ordinate before abscissa")
    + [("C13", "neutral", [], B, '''        vec = d[tid]
        d[tid] = np.vstack([vec[8:-1:2], vec[9:-1:2]]).T
''', '''        vec = d[tid]
        d[tid] = np.concatenate(([vec[8:-1:2]], [vec[9:-1:2]])).T
''', "rdtabled1: two one-row blocks concatenated and transposed")]
    # the values of a term from a generator expression zipped with the labels
    + _pair('''                card = c[j]
                if mtype < 3:
                    values = card[6::4]
                else:
                    values = (real + 1j * imag for real, imag in zip(card[6::4], card[7::4]))
                for nid, dof, val in zip(card[4::4], card[5::4], values):
                    ri = np.searchsorted(r_id_dof, nid * 10 + dof)
                    mat[ri, ci] = val
                    if form == 6:
                        mat[ci, ri] = val
''', '''                card = c[j]
                if mtype < 3:
                    values = card[6::4]
                else:
                    values = (real + 1j * imag for real, imag in zip(card[6::4], card[8::4]))
                for nid, dof, val in zip(card[4::4], card[5::4], values):
                    ri = np.searchsorted(r_id_dof, nid * 10 + dof)
                    mat[ri, ci] = val
                    if form == 6:
                        mat[ci, ri] = val
''', _RDDMIG_TERMS, ["C13-R3"], "rddmig: the values of a card from a generator expression, one loop for real and complex cards", "imaginary parts read from the next term's row grid")
)


# ---- further behaviour-preserving spellings tried while generalising (second pass)
RECIPES += [
    ("C13", "neutral", [], B, '    n = len(form.format(1, 1))\n    if n != 16 and n != 32:\n        raise ValueError(f"`form` produces a {n} length string. It must be 16 or 32.")\n', '    if (n := len(form.format(1, 1))) not in {16, 32}:\n        raise ValueError(f"`form` produces a {n} length string. It must be 16 or 32.")\n', 'tabled1 guard with a walrus and a set literal'),
    ("C13", "neutral", [], B, '        f.write("        ")\n        for j in range(r, npts):\n            f.write(form.format(t[j], d[j]))\n    f.write("ENDT\\n")\n', '        f.write("        ")\n        f.writelines(form.format(a, b) for a, b in zip(t[r:], d[r:]))\n    f.write("ENDT\\n")\n', 'tabled1 small field: leftover pairs by writelines(<generator expression>)'),
    ("C13", "neutral", [], B, '        f.write("        ")\n        for j in range(r, npts):\n            f.write(form.format(t[j], d[j]))\n    f.write("ENDT\\n")\n', '        f.write("        " + "".join(map(form.format, t[r:], d[r:])))\n    f.write("ENDT\\n")\n', 'tabled1 small field: leftover pairs by "".join(map(form.format, ...))'),
    ("C13", "neutral", [], B, '        c = np.size(v, 1)\n        if c < 8:\n            v = np.hstack((v, np.zeros((np.size(v, 0), 8 - c))))\n        return v\n', '        ncol = v.shape[1]\n        pad = max(0, 8 - ncol)\n        if pad:\n            v = np.hstack((v, np.zeros((v.shape[0], pad))))\n        return v\n', 'rdgrids: pad = max(0, 8 - ncol), padded when pad is non-zero'),
    ("C13", "neutral", [], B, '    if n != 16 and n != 32:\n        raise ValueError(f"`form` produces a {n} length string. It must be 16 or 32.")\n', '    _PER_LINE = {16: 4, 32: 2}\n    if n not in _PER_LINE:\n        raise ValueError(f"`form` produces a {n} length string. It must be 16 or 32.")\n', 'tabled1 guard by membership in a dict of layouts'),
    ("C13", "neutral", [], B, '    n = len(ints)\n    firstline = 10 - start\n    if n >= firstline:\n        i = firstline\n        f.write(("{:8d}" * i + "\\n").format(*ints[:i]))\n        while n >= i + 8:\n            f.write(("{:8s}" + "{:8d}" * 8 + "\\n").format("", *ints[i : i + 8]))\n            i += 8\n        if n > i:\n            n -= i\n            f.write(("{:8s}" + "{:8d}" * n + "\\n").format("", *ints[i:]))\n    else:\n        f.write(("{:8d}" * n + "\\n").format(*ints))\n', '    n = len(ints)\n    firstline = 10 - start\n    i = min(firstline, n)\n    f.write(("{:8d}" * i + "\\n").format(*ints[:i]))\n    while i < n:\n        j = min(i + 8, n)\n        f.write(("{:8s}" + "{:8d}" * (j - i) + "\\n").format("", *ints[i:j]))\n        i = j\n', 'wtnasints: a single while loop, each line up to j = min(i + 8, n)'),
    ("C13", "neutral", [], B, '        if np.iscomplexobj(m):\n            mtype = 4 if m.dtype.itemsize > 8 else 3\n        else:\n            mtype = 2 if m.dtype.itemsize > 4 else 1\n', '        mtype = {(False, False): 1, (False, True): 2, (True, False): 3, (True, True): 4}[\n            bool(np.iscomplexobj(m)), m.dtype.itemsize > (8 if np.iscomplexobj(m) else 4)\n        ]\n', 'wtdmig: matrix type from a dict keyed by (is complex, is double)'),
    ("C13", "neutral", [], B, '    output = [f"SET {setid:d} = "]\n    start = 0\n    while start < length:\n        end = _find_sequence(ids, start)\n        if end > start:\n            output.append(f"{ids[start]:d} THRU {ids[end]:d}, ")\n            start = end + 1\n        else:\n            output.append(f"{ids[start]:d}, ")\n            start += 1\n    output[-1] = output[-1].rstrip(", ")  # strip the trailing comma from the last item\n', '    output = [f"SET {setid:d} = "]\n    start = 0\n    while start < length:\n        end = _find_sequence(ids, start)\n        item = f"{ids[start]:d}" if end == start else f"{ids[start]:d} THRU {ids[end]:d}"\n        output.append(item + ", ")\n        start = end + 1\n    output[-1] = output[-1].rstrip(", ")  # strip the trailing comma from the last item\n', 'wtset: the item by a conditional expression, one update of the cursor'),
]

# ---- constructs met in the second blind round: value objects with methods, callable objects, bound format methods, templates put into templates,
# ---- a count of what is left instead of a position, the length of a range, a queue of cards
_CSUPER_TAIL = '''    f.write(f"CSUPER  {superid:8d}{0:8d}")
    wtnasints(f, 4, grids)
'''

RECIPES += (
    _pair('''    head = _CsuperHead(superid)
    f.write(head.text())
    wtnasints(f, head.start, grids)


class _CsuperHead:
    """The fields of a CSUPER card that come before the grid ids."""

    def __init__(self, superid):
        self.superid = superid
        self.start = 4  # field in which the grid ids start

    def text(self):
        return f"CSUPER  {self.superid:8d}{0:8d}"
''', '''    head = _CsuperHead(superid)
    f.write(head.text())
    wtnasints(f, head.start, grids)


class _CsuperHead:
    """The fields of a CSUPER card that come before the grid ids."""

    def __init__(self, superid):
        self.superid = superid
        self.start = 3  # field in which the grid ids start

    def text(self):
        return f"CSUPER  {self.superid:8d}{0:8d}"
''', _CSUPER_TAIL, ["C13-R4"], "wtcsuper: the head of the card in a small class (attributes set in __init__, a method renders the text)", "the start field held by the object is 3")
    + _pair('''    _wt_with_thru(f, spoints, _SpointStarter(f))


class _SpointStarter:
    """Callable that writes the finished card and starts the next one."""

    def __init__(self, f):
        self.f = f

    def __call__(self, fields, write=True):
        if write:
            wtcard8(self.f, fields)
        return ["SPOINT"]
''', '''    _wt_with_thru(f, spoints[:-1], _SpointStarter(f))


class _SpointStarter:
    """Callable that writes the finished card and starts the next one."""

    def __init__(self, f):
        self.f = f

    def __call__(self, fields, write=True):
        if write:
            wtcard8(self.f, fields)
        return ["SPOINT"]
''', _SPOINTS_TAIL, ["C13-R4"], "wtspoints: the closure replaced by a callable object", "the last id is not handed on")
    + _pair("""    if title:
        f.write(f"$ {title:s}\\n")
    layout = _Tabled1Layout.for_width(n)
    f.write(layout.first_line(tablestr, tid))
    rows = npts // layout.per_line
    r = rows * layout.per_line
    if rows:
        writer.vecwrite(f, layout.full_line(form), *layout.columns(t, d, r))
    f.write(layout.cont)
    for j in range(r, npts):
        f.write(form.format(t[j], d[j]))
    f.write("ENDT\\n")


class _Tabled1Layout(NamedTuple):
    star: str
    head: str
    cont: str
    per_line: int

    @classmethod
    def for_width(cls, n):
        if n == 32:
            return cls("*", "{:<8s}{:16d}\\n*\\n", "*       ", 2)
        return cls("", "{:<8s}{:8d}\\n", "        ", 4)

    def first_line(self, tablestr, tid):
        return self.head.format(tablestr + self.star, tid)

    def full_line(self, form):
        return self.cont + form * self.per_line + "\\n"

    def columns(self, t, d, stop):
        cols = []
        for j in range(self.per_line):
            cols.extend((t[j : stop : self.per_line], d[j : stop : self.per_line]))
        return cols
""", """    if title:
        f.write(f"$ {title:s}\\n")
    layout = _Tabled1Layout.for_width(n)
    f.write(layout.first_line(tablestr, tid))
    rows = npts // layout.per_line
    r = rows * layout.per_line
    if rows:
        writer.vecwrite(f, layout.full_line(form), *layout.columns(t, d, r))
    f.write(layout.cont)
    for j in range(r, npts):
        f.write(form.format(t[j], d[j]))
    f.write("ENDT\\n")


class _Tabled1Layout(NamedTuple):
    star: str
    head: str
    cont: str
    per_line: int

    @classmethod
    def for_width(cls, n):
        if n == 32:
            return cls("*", "{:<8s}{:16d}\\n*\\n", "*       ", 2)
        return cls("", "{:<8s}{:8d}\\n", "        ", 5)

    def first_line(self, tablestr, tid):
        return self.head.format(tablestr + self.star, tid)

    def full_line(self, form):
        return self.cont + form * self.per_line + "\\n"

    def columns(self, t, d, stop):
        cols = []
        for j in range(self.per_line):
            cols.extend((t[j : stop : self.per_line], d[j : stop : self.per_line]))
        return cols
""", _T1_TITLE_BODY, ["C13-R1"], "wttabled1: the layout in a NamedTuple made by a classmethod, lines and columns from its methods", "five pairs on a small-field line")
    # bound format methods, a template put into a template
    + _pair('''                        fmt_id = "{:16d}".format
                        fmt_num = ("{:%d.%dE}" % (16, 9)).format
                        if mtype < 3:  # real
                            num_str = fmt_num(num)
                        else:  # complex
                            num_str = fmt_num(num.real) + fmt_num(num.imag)
                        if mtype & 1 == 0:  # if even
                            num_str = num_str.replace("E", "D")
                        f.write("*".ljust(8) + fmt_id(gi) + fmt_id(ci) + num_str + "\\n")
''', '''                        fmt_id = "{:16d}".format
                        fmt_num = ("{:%d.%dE}" % (16, 9)).format
                        if mtype < 3:  # real
                            num_str = fmt_num(num)
                        else:  # complex
                            num_str = fmt_num(num.real) + fmt_num(num.imag)
                        if mtype & 1 == 0:  # if even
                            num_str = num_str.replace("E", "D")
                        f.write("*".ljust(8) + fmt_id(ci) + fmt_id(gi) + num_str + "\\n")
''', _DMIG_TERM, ["C13-R3"], "wtdmig: fields through bound format methods, the spec of the numbers computed at run time (F12 keys must survive)", "row dof before row grid")
    + _pair('''    field = "{:8d}"
    blank = "{:8s}"  # for the first field of the continuation lines
    n = len(ints)
    firstline = 10 - start
    if n >= firstline:
        i = firstline
        f.write("".join([field * i, "\\n"]).format(*ints[:i]))
        full = "{}{}\\n".format(blank, field * 8)
        while n >= i + 8:
            f.write(full.format("", *ints[i : i + 8]))
            i += 8
        if n > i:
            n -= i
            f.write("{}{}\\n".format(blank, field * n).format("", *ints[i:]))
    else:
        f.write("".join([field * n, "\\n"]).format(*ints))
''', '''    field = "{:8d}"
    blank = "{:8s}"  # for the first field of the continuation lines
    n = len(ints)
    firstline = 10 - start
    if n >= firstline:
        i = firstline
        f.write("".join([field * i, "\\n"]).format(*ints[:i]))
        full = "{}{}\\n".format(blank, field * 8)
        while n >= i + 8:
            f.write(full.format("", *ints[i : i + 8]))
            i += 8
        if n > i:
            n -= i
            f.write("{}{}\\n".format(blank, field * 8).format("", *ints[i:]))
    else:
        f.write("".join([field * n, "\\n"]).format(*ints))
''', _NASINTS, ["C13-R4"], "wtnasints: the line templates assembled by putting templates into a template", "the last line always gets 8 fields")
    # a count of what is left; the number of full lines as the length of a range
    + _pair('''    n = len(ints)
    firstline = 10 - start
    if n >= firstline:
        f.write(("{:8d}" * firstline + "\\n").format(*ints[:firstline]))
        left = n - firstline  # integers that remain to be written; the next one is ints[n - left]
        while left >= 8:
            f.write(("{:8s}" + "{:8d}" * 8 + "\\n").format("", *ints[n - left : n - left + 8]))
            left -= 8
        if left > 0:
            f.write(("{:8s}" + "{:8d}" * left + "\\n").format("", *ints[n - left :]))
    else:
        f.write(("{:8d}" * n + "\\n").format(*ints))
''', '''    n = len(ints)
    firstline = 10 - start
    if n >= firstline:
        f.write(("{:8d}" * firstline + "\\n").format(*ints[:firstline]))
        left = n - firstline  # integers that remain to be written; the next one is ints[n - left]
        while left >= 8:
            f.write(("{:8s}" + "{:8d}" * 8 + "\\n").format("", *ints[n - left : n - left + 8]))
            left -= 8
        if left > 1:
            f.write(("{:8s}" + "{:8d}" * left + "\\n").format("", *ints[n - left :]))
    else:
        f.write(("{:8d}" * n + "\\n").format(*ints))
''', _NASINTS, ["C13-R4"], "wtnasints: the loop counts the integers left to write", "a single integer left is not written")
    + _pair('''    n = len(ints)
    firstline = 10 - start
    if n >= firstline:
        f.write(("{:8d}" * firstline + "\\n").format(*ints[:firstline]))
        starts = range(firstline, n - 7, 8)  # where the full continuation lines start
        for i in starts:
            f.write(("{:8s}" + "{:8d}" * 8 + "\\n").format("", *ints[i : i + 8]))
        i = firstline + 8 * len(starts)
        if n > i:
            n -= i
            f.write(("{:8s}" + "{:8d}" * n + "\\n").format("", *ints[i:]))
    else:
        f.write(("{:8d}" * n + "\\n").format(*ints))
''', '''    n = len(ints)
    firstline = 10 - start
    if n >= firstline:
        f.write(("{:8d}" * firstline + "\\n").format(*ints[:firstline]))
        starts = range(firstline, n - 6, 8)  # where the full continuation lines start
        for i in starts:
            f.write(("{:8s}" + "{:8d}" * 8 + "\\n").format("", *ints[i : i + 8]))
        i = firstline + 8 * len(starts)
        if n > i:
            n -= i
            f.write(("{:8s}" + "{:8d}" * n + "\\n").format("", *ints[i:]))
    else:
        f.write(("{:8d}" * n + "\\n").format(*ints))
''', _NASINTS, ["C13-R4"], "wtnasints: the full lines from a range object, what is left from its length", "a line of 8 fields is started when only 7 integers are left")
    + [("C13", "neutral", [], B, '''    f.write(f"CSUPER  {superid:8d}{0:8d}")
    wtnasints(f, 4, grids)
''', '''    f.write("CSUPER".ljust(8) + "".join(map("{:8d}".format, (superid, 0))))
    wtnasints(f, 4, grids)
''', "wtcsuper: the integer fields by map over a tuple")]
)

# ---- the full lines of a table written one by one instead of through writer.vecwrite
_T1_LARGE_IF_VEC = '''        if rows:
            writer.vecwrite(
                f, "*       " + form * 2 + "\\n", t[:r:2], d[:r:2], t[1:r:2], d[1:r:2]
            )
'''

RECIPES += (
    _pair('''        line = "*       " + form * 2 + "\\n"
        for k in range(0, r, 2):
            f.write(line.format(t[k], d[k], t[k + 1], d[k + 1]))
''', '''        line = "*       " + form * 2 + "\\n"
        for k in range(0, r, 2):
            f.write(line.format(t[k], d[k], d[k + 1], t[k + 1]))
''', _T1_LARGE_IF_VEC, ["C13-R1"], "tabled1 large field: the full lines written one by one in a loop", "second pair of a line with ordinate and abscissa exchanged")
    + [("C13", "break", ["C13-R1"], B, _T1_LARGE_IF_VEC, '''        line = "*       " + form * 2 + "\\n"
        for k in range(0, npts, 2):
            f.write(line.format(t[k], d[k], t[k + 1], d[k + 1]))
''', "tabled1 large field: the loop over full lines runs to npts (reads past the end for an odd number of points, and the last pair is written twice)")]
)

# ---- constructs met in the third blind round: a list filled in one loop and consumed in the next, slice objects, indices counted from the end,
# ---- match on literal values, a loop whose last pass leaves by break
RECIPES += (
    _pair('''    n = len(ints)
    firstline = 10 - start
    if n < firstline:
        f.write(("{:8d}" * n + "\\n").format(*ints))
        return
    i = firstline
    f.write(("{:8d}" * i + "\\n").format(*ints[:i]))
    while n > i:
        if n < i + 8:
            # last line is only partially filled
            f.write(("{:8s}" + "{:8d}" * (n - i) + "\\n").format("", *ints[i:]))
            break
        f.write(("{:8s}" + "{:8d}" * 8 + "\\n").format("", *ints[i : i + 8]))
        i += 8
''', '''    n = len(ints)
    firstline = 10 - start
    if n < firstline:
        f.write(("{:8d}" * n + "\\n").format(*ints))
        return
    i = firstline
    f.write(("{:8d}" * i + "\\n").format(*ints[:i]))
    while n > i:
        if n < i + 8:
            # last line is only partially filled
            f.write(("{:8s}" + "{:8d}" * (n - i) + "\\n").format("", *ints[i + 1 :]))
            break
        f.write(("{:8s}" + "{:8d}" * 8 + "\\n").format("", *ints[i : i + 8]))
        i += 8
''', _NASINTS, ["C13-R4"], "wtnasints: one loop, the partial last line written in the pass that leaves by break", "the partial line starts one integer late")
    + _pair('''        f.write("        ")
        for j in range(r - npts, 0):
            f.write(form.format(t[j], d[j]))
    f.write("ENDT\\n")
''', '''        f.write("        ")
        for j in range(r - npts, -1):
            f.write(form.format(t[j], d[j]))
    f.write("ENDT\\n")
''', _T1_LEFT_SMALL, ["C13-R1"], "tabled1 small field: the leftover pairs indexed from the end (negative indices)", "the last pair is never written")
    + _pair('''            full = slice(0, r)
            t2, d2 = t[full].reshape(rows, 2), d[full].reshape(rows, 2)
            writer.vecwrite(f, "*       " + form * 2 + "\\n", t2[:, 0], d2[:, 0], t2[:, 1], d2[:, 1])
''', '''            full = slice(0, r)
            t2, d2 = t[full].reshape(rows, 2), d[full].reshape(rows, 2)
            writer.vecwrite(f, "*       " + form * 2 + "\\n", t2[:, 0], d2[:, 1], t2[:, 1], d2[:, 0])
''', _T1_LARGE_VEC, ["C13-R1"], "tabled1 large field: a slice object for the full lines, reshaped into rows", "ordinates of the two pairs of a line exchanged")
    + _pair('''    match n:
        case 16 | 32:
            pass
        case _:
            raise ValueError(f"`form` produces a {n} length string. It must be 16 or 32.")
''', '''    match n:
        case 16 | 32 | 24:
            pass
        case _:
            raise ValueError(f"`form` produces a {n} length string. It must be 16 or 32.")
''', _T1_GUARD, ["C13-R1"], "tabled1 guard as a match statement on literal values", "24 is let through")
    + _pair('''                columns = []
                rowids = c[j][4::4]
                rowdofs = c[j][5::4]
                for k in range(len(rowids)):
                    columns.append((rowids[k], rowdofs[k], c[j][6 + 4 * k], c[j][7 + 4 * k] if mtype >= 3 else 0.0))
                for nid, dof, real, imag in columns:
                    val = real if mtype < 3 else real + 1j * imag
                    ri = np.searchsorted(r_id_dof, nid * 10 + dof)
                    mat[ri, ci] = val
                    if form == 6:
                        mat[ci, ri] = val
''', '''                columns = []
                rowids = c[j][4::4]
                rowdofs = c[j][5::4]
                for k in range(len(rowids)):
                    columns.append((rowids[k], rowdofs[k], c[j][7 + 4 * k], c[j][6 + 4 * k] if mtype >= 3 else 0.0))
                for nid, dof, real, imag in columns:
                    val = real if mtype < 3 else real + 1j * imag
                    ri = np.searchsorted(r_id_dof, nid * 10 + dof)
                    mat[ri, ci] = val
                    if form == 6:
                        mat[ci, ri] = val
''', _RDDMIG_TERMS, ["C13-R3"], "rddmig: the terms of a card collected in a list by one loop and stored by the next", "real and imaginary field exchanged")
    + [("C13", "neutral", [], B, '''        c = np.size(v, 1)
        if c < 8:
            v = np.hstack((v, np.zeros((np.size(v, 0), 8 - c))))
        return v
''', '''        pass
    missing = 0 if v is None else 8 - np.size(v, 1)
    if missing > 0:
        v = np.hstack((v, np.zeros((np.size(v, 0), missing))))
    return v
''', "rdgrids: the number of missing columns computed for both cases, one return")]
)

# ---- writer._vecwrite collecting the lines in a buffer of fixed size
_VECWRITE_BODY = '''    v = range(length)
    if so is not None:
        v = v[so]
    if postfunc:
        if pfargs is None:
            pfargs = []
        for i in v:
            curargs = getith(i, args, fncs)
            s = postfunc(string.format(*curargs), *pfargs)
            fout.write(s)
    else:
        for i in v:
            curargs = getith(i, args, fncs)
            fout.write(string.format(*curargs))
'''

_VECWRITE_BUFFERED = '''    v = range(length)
    if so is not None:
        v = v[so]
    if postfunc and pfargs is None:
        pfargs = []
    buf = [""] * 512
    n = 0
    for i in v:
        curargs = getith(i, args, fncs)
        s = string.format(*curargs)
        if postfunc:
            s = postfunc(s, *pfargs)
        buf[n] = s
        n += 1
        if n == 512:
            fout.write("".join(buf))
            n = 0
    if n > 0:
        fout.write("".join(%s))
'''

RECIPES += _pair(_VECWRITE_BUFFERED % "buf[:n]", _VECWRITE_BUFFERED % "buf", _VECWRITE_BODY, ["C13-R2"],
                 "_vecwrite: the lines collected in a buffer of 512 slots, written when full and (the filled part) at the end",
                 "the last, partial block is written with the stale rest of the buffer", file=W)


# ====================================================================================================================== third hardening pass
# constructs of the fourth blind round (N18: class patterns in `match`, the THRU loop as a `for` over the positions that skips what a run already
# covered; N19: a memo dictionary filled at run time, defaults evaluated when a nested function is defined, functions returned by a helper,
# decorators of the module, a nested function with *args) and refactorings of other kinds written in this pass (the other spellings of a memo, EAFP
# guards, io.StringIO accumulators, constants of an IntEnum, `yield from`, tail recursion, `return` inside a loop, bound-method aliases, partial of
# print, map over the format method).  Each behaviour-preserving form was run through pyyeti/tests/test_nastran.py, test_writer.py, the doctests
# of bulk.py / writer.py and a differential battery of ~5000 calls in a scratch copy of the repository.
_THRU_ALL = _THRU_LOOP + '''    if len(fields) > init_length:
        wtcard8(f, fields)
'''

_THRU_FOR = '''    length = len(seq)
    fields = init_func([], False)
    init_length = len(fields)
    end = -1
    for start in range(length):
        if start <= end:
            # already written as part of a THRU range
            continue
        end = _find_sequence(seq, start)
        if end > start:
            if len(fields) > init_length:
                fields = init_func(fields)
            fields.extend([seq[start], "THRU", seq[end]])
            fields = init_func(fields)
        else:
            fields.append(seq[start])
        if len(fields) == 9:
            fields = init_func(fields)
    if len(fields) <= init_length:
        return
    wtcard8(f, fields)
'''

RECIPES += (
    _pair(_THRU_FOR, _THRU_FOR.replace("if start <= end:", "if start < end:"), _THRU_ALL, ["C13-R4"],
          "_wt_with_thru: a `for` over the positions; those inside the run written last are skipped", "the last element of a run is written again as a single id")
    + [("C13", "break", ["C13-R4"], B, _THRU_ALL, _THRU_FOR.replace("    end = -1\n", "    end = 0\n"),
        "_wt_with_thru as a `for` over the positions -- the first element is taken for written"),
       ("C13", "break", ["C13-R4"], B, _THRU_ALL, _THRU_FOR.replace("for start in range(length):", "for start in range(length - 1):"),
        "_wt_with_thru as a `for` over the positions -- the last position is never visited"),
       ("C13", "break", ["C13-R4"], B, _THRU_ALL, _THRU_FOR.replace('"THRU", seq[end]])', '"THRU", seq[end - 1]])'),
        "_wt_with_thru as a `for` over the positions -- a run is written one element short")]
)

_VECWRITE_LOOP = '''    for i, arg in enumerate(args):
        if not isinstance(arg, str) and hasattr(arg, "__len__"):
            if np.ndim(arg) == 2:
                fncs.append(_get_matrow)
                curlen = np.size(arg, 0)
            elif len(arg) == 1:
                fncs.append(_get_scalar1)
                curlen = 1
            else:
                fncs.append(_get_itemi)
                curlen = len(arg)
            if curlen > 1:
                if length > 1:
                    if so is not None:
                        if range(curlen)[so] != range(length)[so]:
                            msg = (
                                "length mismatch with slice object:"
                                f" arg # {i + 1} is incompatible with "
                                "previous args"
                            )
                            raise ValueError(msg)
                    elif curlen != length:
                        msg = (
                            f"length mismatch: arg # {i + 1} has "
                            f"length {curlen}; expected {length} or 1."
                        )
                        raise ValueError(msg)
                length = curlen
        else:
            fncs.append(_get_scalar)
'''

RECIPES += [("C13", "neutral", [], W, _VECWRITE_LOOP, '''    for i, arg in enumerate(args):
        match arg:
            case str():
                fncs.append(_get_scalar)
                continue
            case _ if not hasattr(arg, "__len__"):
                fncs.append(_get_scalar)
                continue
        if np.ndim(arg) == 2:
            fncs.append(_get_matrow)
            curlen = np.size(arg, 0)
        elif len(arg) == 1:
            fncs.append(_get_scalar1)
            continue
        else:
            fncs.append(_get_itemi)
            curlen = len(arg)
        if curlen <= 1:
            continue
        # have a vector; it must be compatible with any previous one
        if length > 1 and so is not None and range(curlen)[so] != range(length)[so]:
            msg = (
                "length mismatch with slice object:"
                f" arg # {i + 1} is incompatible with "
                "previous args"
            )
            raise ValueError(msg)
        elif length > 1 and so is None and curlen != length:
            msg = (
                f"length mismatch: arg # {i + 1} has "
                f"length {curlen}; expected {length} or 1."
            )
            raise ValueError(msg)
        length = curlen
''', "vecwrite: strings and scalars sorted out by a match statement with a class pattern and a guarded wildcard")]

# ---- memo dictionaries
_GRIDS_MEMO = '''    def template(large_field, with_ps_seid):
        def build():
            if large_field:
                string = "GRID*   {:16d}{:16d}" + form * 2 + "\\n*       " + form + "{:16d}"
                if with_ps_seid:
                    string += "{:>16}{:>16}"
            else:
                string = "GRID    {:8d}{:8d}" + form * %d + "{:8d}"
                if with_ps_seid:
                    string += "{:>8}{:>8}"
            return string + "\\n"

        return _memo_format("grid", form, large_field%s, build=build)

    def write_cards(*trailing):
        # `trailing` is either empty or has the PS and SEID fields
        string = template(len(teststr) > 8, bool(trailing))
        writer.vecwrite(
            f, string, grids, cp, xyz[:, 0], xyz[:, 1], xyz[:, 2], cd, *trailing
        )

    if ps == seid == "":
        write_cards()
    else:
        write_cards(ps, seid)


# Format strings that only depend on a few discrete options are built once and kept here
_FORMAT_MEMO = {}


def _memo_format(*key, build):
    """
    Return the format string filed under `key`, calling ``build()``
    to create it the first time it is asked for.
    """
    try:
        return _FORMAT_MEMO[key]
    except KeyError:
        string = _FORMAT_MEMO[key] = build()
        return string
'''

RECIPES += (
    _pair(_GRIDS_MEMO % (3, ", with_ps_seid"), _GRIDS_MEMO % (4, ", with_ps_seid"), _GRIDS_BODY, ["C13-R1"],
          "wtgrids: the template from a memo dictionary filled at run time (try / except KeyError, the value built by a closure), the cards written by "
          "a nested function with *args", "a small-field card with four coordinate fields")
)

_GRIDS_ELSE_TAIL = '''        else:
            string = "GRID    {:8d}{:8d}" + form * 3 + "{:8d}{:>8}{:>8}\\n"
        writer.vecwrite(
            f, string, grids, cp, xyz[:, 0], xyz[:, 1], xyz[:, 2], cd, ps, seid
        )
'''

_GRIDS_MEMO_IN = '''        else:
            string = _grid_template(form, False)
        writer.vecwrite(
            f, string, grids, cp, xyz[:, 0], xyz[:, 1], xyz[:, 2], cd, ps, seid
        )


_GRID_TEMPLATES = {}


def _grid_template(form, large):
    key = (form, large)
    if key not in _GRID_TEMPLATES:
        if large:
            _GRID_TEMPLATES[key] = "GRID*   {:16d}{:16d}" + form * 2 + "\\n*       " + form + "{:16d}{:>16}{:>16}\\n"
        else:
            _GRID_TEMPLATES[key] = "GRID    {:8d}{:8d}" + form * %d + "{:8d}{:>8}{:>8}\\n"
    return _GRID_TEMPLATES[key]
'''

RECIPES += (
    _pair(_GRIDS_MEMO_IN % 3, _GRIDS_MEMO_IN % 4, _GRIDS_ELSE_TAIL, ["C13-R1"],
          "wtgrids: a template from a memo dictionary tested with `in`", "a small-field card with four coordinate fields")
    + [("C13", "neutral", [], B, _GRIDS_ELSE_TAIL, '''        else:
            string = _grid_template(form, False)
        writer.vecwrite(
            f, string, grids, cp, xyz[:, 0], xyz[:, 1], xyz[:, 2], cd, ps, seid
        )


import functools


@functools.lru_cache(maxsize=None)
def _grid_template(form, large):
    if large:
        return "GRID*   {:16d}{:16d}" + form * 2 + "\\n*       " + form + "{:16d}{:>16}{:>16}\\n"
    return "GRID    {:8d}{:8d}" + form * 3 + "{:8d}{:>8}{:>8}\\n"
''', "wtgrids: a template from a helper cached by functools.lru_cache")]
)

_T1_MEMO_GET = '''

_T1_LINES = {}


def _t1_line(lead, form, pairs):
    """format of one full line of a TABLED1 card"""
    line = _T1_LINES.get((lead, form, pairs))
    if line is None:
        line = _T1_LINES[(lead, form, pairs)] = lead + form * %s + "\\n"
    return line
'''


def _t1_get(pairs):
    return (_T1_BODY.replace('f, "*       " + form * 2 + "\\n", t[:r:2]', 'f, _t1_line("*       ", form, 2), t[:r:2]')
            .replace('                "        " + form * 4 + "\\n",\n', '                _t1_line("        ", form, 4),\n') + _T1_MEMO_GET % pairs)


RECIPES += _pair(_t1_get("pairs"), _t1_get("(pairs + 1)"), _T1_BODY, ["C13-R1"],
                 "tabled1: the template of a full line from a memo dictionary read with .get", "one pair too many on every full line")

# ---- a default evaluated when the nested function is defined; a function made by a helper; a decorator of the module
_T1_SMALL_STRIDED = '''        per = 4

        def strided(k, step=%s):
            # every `step`-th [time, data] pair of the full lines, starting with the k-th one
            return t[k:r:step], d[k:r:step]

        if rows:
            columns = []
            for k in range(per):
                columns.extend(strided(k))
            writer.vecwrite(f, "        " + form * per + "\\n", *columns)
'''

RECIPES += _pair(_T1_SMALL_STRIDED % "per", _T1_SMALL_STRIDED % "per + 1", _T1_SMALL_VEC, ["C13-R1"],
                 "tabled1 small field: the columns from a nested function whose default stride is evaluated where it is defined, collected in a loop "
                 "with a constant trip count", "stride 5 for four pairs per line")

_DMIG_FACTORY = '''                        num_str = number_string(num)
                        f.write(f"{'*':<8s}{gi:16d}{ci:16d}{num_str:s}\\n")


def _dmig_number_formatter(mtype):
    """
    Return function that formats one matrix element for a DMIG entry
    of type `mtype` (1 real, 2 double, 3 complex, 4 complex double).
    """
    if mtype < 3:  # real

        def single(num):
            return f"{num:16.9E}"

    else:  # complex

        def single(num):
            return f"{num.%s:16.9E}{num.%s:16.9E}"

    if mtype & 1 == 0:  # if even

        def double(num, single=single):
            return single(num).replace("E", "D")

        return double
    return single
'''

RECIPES += _pair(_DMIG_COLS.replace(_DMIG_TERM, "").replace("        for col in range(m.shape[1]):\n", "        number_string = _dmig_number_formatter(mtype)\n"
                                                                                                    "        for col in range(m.shape[1]):\n") + _DMIG_FACTORY % ("real", "imag"),
                 _DMIG_COLS.replace(_DMIG_TERM, "").replace("        for col in range(m.shape[1]):\n", "        number_string = _dmig_number_formatter(mtype)\n"
                                                                                                    "        for col in range(m.shape[1]):\n") + _DMIG_FACTORY % ("imag", "real"),
                 _DMIG_COLS, ["C13-R3"], "wtdmig: the number formatter made by a helper that returns one of the functions it defines (two `def`s of one name, "
                 "a default that captures the first)", "imaginary part written before the real part")

_CSUPER_DEF = '''@guitools.write_text_file
def wtcsuper(f, superid, grids):
    """
    Writes a Nastran CSUPER card to a file.

    Parameters
    ----------
    f : string or file_like or 1 or None
        Either a name of a file, or is a file_like object as returned
        by :func:`open` or :class:`io.StringIO`. Input as integer 1 to
        write to stdout. Can also be the name of a directory or None;
        in these cases, a GUI is opened for file selection.
    superid : integer
        Superelement ID
    grids : 1d array_like
        Vector of grid ids.

    Returns
    -------
    None

    Examples
    --------
    >>> from pyyeti import nastran
    >>> import numpy as np
    >>> nastran.wtcsuper(1, 100, np.arange(1, 10))
    CSUPER       100       0       1       2       3       4       5       6
                   7       8       9
    """
    f.write(f"CSUPER  {superid:8d}{0:8d}")
    wtnasints(f, 4, grids)
'''

_CSUPER_DECORATED = '''def _ints_card(start):
    """
    Decorator for writers of "leading fields + list of integers" cards: the decorated function returns the formatted leading fields
    and the vector of integers; the writing is done here, the first integer going to field number `start`.
    """
    import functools

    def decorator(func):
        @functools.wraps(func)
        def wrapper(f, *args, **kwargs):
            lead, ints = func(f, *args, **kwargs)
            f.write(lead)
            wtnasints(f, start, ints)

        return wrapper

    return decorator


@guitools.write_text_file
@_ints_card(start=%d)
def wtcsuper(f, superid, grids):
''' + _CSUPER_DEF.split('def wtcsuper(f, superid, grids):\n', 1)[1].replace(_CSUPER_TAIL, '''    return f"CSUPER  {superid:8d}{0:8d}", grids
''')

RECIPES += _pair(_CSUPER_DECORATED % 4, _CSUPER_DECORATED % 5, _CSUPER_DEF, ["C13-R4"],
                 "wtcsuper: the card written by a decorator of the module (decorator factory, wrapper with *args / **kwargs)", "the integers start one field late")

# ---- refactorings of other kinds written in this pass
_T1_EAFP = '''    try:
        {16: 4, 32: 2%s}[n]
    except KeyError:
        raise ValueError(
            f"`form` produces a {n} length string. It must be 16 or 32."
        ) from None
'''

_T1_SIO = '''        import io

        last = io.StringIO()
        last.write("        ")
        for j in range(%s, npts):
            last.write(form.format(t[j], d[j]))
        f.write(last.getvalue())
    f.write("ENDT\\n")
'''

_T1_ENUM = '''

import enum


class _PairWidth(enum.IntEnum):
    """rendered width of one [time, data] pair"""

    SMALL = 16
    LARGE = %d
'''

_T1_GUARD_BODY = _T1_GUARD + """    if title:
        f.write(f"$ {title:s}\\n")
""" + _T1_BODY


def _t1_enum(large):
    return (_T1_GUARD_BODY.replace("if n != 16 and n != 32:", "if n != _PairWidth.SMALL and n != _PairWidth.LARGE:")
            .replace("    if n == 32:\n", "    if n == _PairWidth.LARGE:\n") + _T1_ENUM % large)


_NASINTS_YIELD_FROM = '''    def first_line(n, firstline):
        if n >= firstline:
            yield ("{:8d}" * firstline + "\\n").format(*ints[:firstline])
        else:
            yield ("{:8d}" * n + "\\n").format(*ints)

    def rest(n, i):
        while n >= i + 8:
            yield ("{:8s}" + "{:8d}" * 8 + "\\n").format("", *ints[i : i + 8])
            i += %d
        if n > i:
            yield ("{:8s}" + "{:8d}" * (n - i) + "\\n").format("", *ints[i:])

    def lines():
        n = len(ints)
        firstline = 10 - start
        yield from first_line(n, firstline)
        if n >= firstline:
            yield from rest(n, firstline)

    for line in lines():
        f.write(line)
'''

_NASINTS_REC = '''    def rest(i):
        if len(ints) >= i + 8:
            f.write(("{:8s}" + "{:8d}" * 8 + "\\n").format("", *ints[i : i + 8]))
            rest(i + %d)
        elif len(ints) > i:
            f.write(("{:8s}" + "{:8d}" * (len(ints) - i) + "\\n").format("", *ints[i:]))

    n = len(ints)
    firstline = 10 - start
    if n >= firstline:
        f.write(("{:8d}" * firstline + "\\n").format(*ints[:firstline]))
        rest(firstline)
    else:
        f.write(("{:8d}" * n + "\\n").format(*ints))
'''

_NASINTS_RETURN = '''    n = len(ints)
    firstline = 10 - start
    if n < firstline:
        f.write(("{:8d}" * n + "\\n").format(*ints))
        return
    i = firstline
    f.write(("{:8d}" * i + "\\n").format(*ints[:i]))
    while n > i:
        if n < i + 8:
            # last line is only partially filled
%s            return
        f.write(("{:8s}" + "{:8d}" * 8 + "\\n").format("", *ints[i : i + 8]))
        i += 8
'''

_T1_ALIAS = '''        put = f.write
        put("        ")
        for j in range(%s, npts):
            put(form.format(t[j], d[j]))
    f.write("ENDT\\n")
'''

_T1_MAP = '''        f.write("        ")
        for text in map(form.format, %s):
            f.write(text)
    f.write("ENDT\\n")
'''

RECIPES += (
    _pair(_T1_EAFP % "", _T1_EAFP % ", 24: 3", _T1_GUARD, ["C13-R1"],
          "tabled1 guard: the rendered width looked up in a literal table, a KeyError turned into the ValueError", "24 is let through")
    + _pair(_T1_SIO % "r", _T1_SIO % "r + 1", _T1_LEFT_SMALL, ["C13-R1"],
            "tabled1 small field: the last line assembled in an io.StringIO and written at once", "the loop starts one pair late")
    + [("C13", "break", ["C13-R1"], B, _T1_LEFT_SMALL, (_T1_SIO % "r").replace("        f.write(last.getvalue())\n", ""),
        "tabled1 small field: the last line assembled in an io.StringIO -- and never written"),
       ("C13", "neutral", [], B, _T1_LEFT_SMALL, '''        import io

        with io.StringIO() as last:
            print("        ", end="", file=last)
            for j in range(r, npts):
                print(form.format(t[j], d[j]), end="", file=last)
            f.write(last.getvalue())
    f.write("ENDT\\n")
''', "tabled1 small field: the last line printed into an io.StringIO opened by `with`")]
    + _pair(_t1_enum(32), _t1_enum(24), _T1_GUARD_BODY, ["C13-R1"],
            "tabled1: the two pair widths as members of an IntEnum", "the large width is 24")
    + _pair(_NASINTS_YIELD_FROM % 8, _NASINTS_YIELD_FROM % 7, _NASINTS, ["C13-R4"],
            "wtnasints: the lines from generators chained by `yield from`", "continuation lines advance by 7")
    + _pair(_NASINTS_REC % 8, _NASINTS_REC % 7, _NASINTS, ["C13-R4"],
            "wtnasints: the continuation lines by a nested function that calls itself in tail position", "the next call starts 7 further on")
    + [("C13", "break", ["C13-R4"], B, _NASINTS, (_NASINTS_REC % 8).replace("        elif len(ints) > i:\n", "        elif len(ints) > i + 1:\n"),
        "wtnasints by tail recursion -- a last line of one integer is dropped")]
    + _pair(_NASINTS_RETURN % '            f.write(("{:8s}" + "{:8d}" * (n - i) + "\\n").format("", *ints[i:]))\n', _NASINTS_RETURN % "", _NASINTS, ["C13-R4"],
            "wtnasints: one loop, left by `return` in the pass that writes the partial last line", "the partial last line is not written")
    + _pair(_T1_ALIAS % "r", _T1_ALIAS % "r + 1", _T1_LEFT_SMALL, ["C13-R1"],
            "tabled1 small field: the file's write method bound to a local", "the loop starts one pair late")
    + [("C13", "neutral", [], B, _T1_LEFT_SMALL, '''        import functools

        emit = functools.partial(print, file=f, end="", sep="")
        emit("        ")
        for j in range(r, npts):
            emit(form.format(t[j], d[j]))
    f.write("ENDT\\n")
''', "tabled1 small field: output through functools.partial(print, file=f, end='')")]
    + _pair(_T1_MAP % "t[r:], d[r:]", _T1_MAP % "d[r:], t[r:]", _T1_LEFT_SMALL, ["C13-R1"],
            "tabled1 small field: the leftover pairs rendered by map(form.format, ...)", "ordinates rendered before abscissae")
)

# ---- state and effects that live outside the statement that shows them (third pass, continued): a cursor rebound through `nonlocal`, a
# ---- comprehension evaluated for its effects, `and` / `or` as a guard, any() / membership in a range as the guard, context managers of the module
_NASINTS_NONLOCAL = '''    n = len(ints)
    firstline = 10 - start
    i = 0

    def put(count, head):
        nonlocal i
        if head:
            f.write(("{:8s}" + "{:8d}" * count + "\\n").format("", *ints[i : i + count]))
        else:
            f.write(("{:8d}" * count + "\\n").format(*ints[i : i + count]))
        i += count

    if n >= firstline:
        put(firstline, False)
        while n >= i + 8:
            put(8, True)
        if n > i%s:
            put(n - i, True)
    else:
        put(n, False)
'''

_T1_COMP = '''        f.write("        ")
        [f.write(form.format(t[j], d[j])) for j in range(%s, npts)]
    f.write("ENDT\\n")
'''


def _t1_and(test):
    return _T1_SMALL_VEC.replace("        if rows:\n            writer.vecwrite(", "        if True:\n            %s writer.vecwrite(" % test)


_T1_ANY = '''    if not any(n == width for width in (16, 32%s)):
        raise ValueError(f"`form` produces a {n} length string. It must be 16 or 32.")
'''

_T1_RANGE = '''    if n not in range(16, 33, %d):
        raise ValueError(f"`form` produces a {n} length string. It must be 16 or 32.")
'''

_T1_BODY_IN_WITH = "".join(("    " + ln if ln.strip() else ln) for ln in _T1_BODY.replace('    f.write("ENDT\\n")\n', "").splitlines(True))

_T1_CTX_CLASS = '''    with _Closing(f, "%s\\n"):
''' + _T1_BODY_IN_WITH + '''

class _Closing:
    """writes `text` to `f` when the block is left"""

    def __init__(self, f, text):
        self.f = f
        self.text = text

    def __enter__(self):
        return self

    def __exit__(self, *exc):
        self.f.write(self.text)
        return False
'''

_T1_CTX_GEN = '''    with _closing(f, "%s\\n"):
''' + _T1_BODY_IN_WITH + '''

import contextlib


@contextlib.contextmanager
def _closing(f, text):
    """writes `text` to `f` when the block is left"""
    try:
        yield f
    finally:
        f.write(text)
'''

RECIPES += (
    _pair(_NASINTS_NONLOCAL % "", _NASINTS_NONLOCAL % " + 1", _NASINTS, ["C13-R4"],
          "wtnasints: the position kept by a nested function that rebinds it through `nonlocal`", "a last line of one integer is dropped")
    + _pair(_T1_COMP % "r", _T1_COMP % "r + 1", _T1_LEFT_SMALL, ["C13-R1"],
            "tabled1 small field: the leftover pairs written by a list comprehension evaluated for its effects", "the loop starts one pair late")
    + _pair(_t1_and("rows and"), _t1_and("rows >= 0 and"), _T1_SMALL_VEC, ["C13-R2"],
            "tabled1 small field: the vectorised write guarded by `rows and ...`", "the guard lets zero full lines through")
    + [("C13", "neutral", [], B, _T1_SMALL_VEC, _t1_and("rows == 0 or"), "tabled1 small field: the vectorised write guarded by `rows == 0 or ...`")]
    + _pair(_T1_ANY % "", _T1_ANY % ", 24", _T1_GUARD, ["C13-R1"], "tabled1 guard: any() over the two widths", "24 is let through")
    + _pair(_T1_RANGE % 16, _T1_RANGE % 8, _T1_GUARD, ["C13-R1"], "tabled1 guard: membership in range(16, 33, 16)", "24 is let through")
    + _pair(_T1_CTX_CLASS % "ENDT", _T1_CTX_CLASS % "END", _T1_BODY, ["C13-R1"],
            "tabled1: ENDT written by the __exit__ of a context manager class of the module", "END instead of ENDT")
    + _pair(_T1_CTX_GEN % "ENDT", _T1_CTX_GEN % "END", _T1_BODY, ["C13-R1"],
            "tabled1: ENDT written after the `yield` of a contextlib.contextmanager generator", "END instead of ENDT")
)

# ---- the last line collected in a list that already holds the head (directly, and through a closure that appends to it), joined and written at once
_T1_COLLECT = '''        pieces = ["        "]
        for j in range(%s, npts):
            pieces.append(form.format(t[j], d[j]))
        f.write("".join(pieces))
    f.write("ENDT\\n")
'''

_T1_COLLECT_CLOSURE = '''        pieces = []

        def put(text):
            pieces.append(text)

        put("%s")
        for j in range(r, npts):
            put(form.format(t[j], d[j]))
        f.write("".join(pieces))
    f.write("ENDT\\n")
'''

RECIPES += (
    _pair(_T1_COLLECT % "r", _T1_COLLECT % "r + 1", _T1_LEFT_SMALL, ["C13-R1"],
          "tabled1 small field: the last line collected in a list that starts with the head, joined and written at once", "the loop starts one pair late")
    + _pair(_T1_COLLECT_CLOSURE % "        ", _T1_COLLECT_CLOSURE % "       ", _T1_LEFT_SMALL, ["C13-R1"],
            "tabled1 small field: the pieces of the last line appended to a list of the enclosing function by a nested function", "a head of seven blanks")
)

# ---- constructs met in a fifth blind round (written while this pass was under way): templates cut with .rstrip, the newline of a line supplied by
# ---- print, nested replacement fields in a format spec, str.format_map, str.translate, `match` on the value of a call with a capture and a guard,
# ---- a helper behind a module-level functools.lru_cache wrapper
_CSUPER_RSTRIP = '''    head = ("{:<8s}" + "{:8d}" * %d + "\\n").rstrip("\\n")
    f.write(head.format("CSUPER", superid, 0))
    wtnasints(f, 4, grids)
'''

_NASINTS_PRINT = '''    blank, int8 = "{:8s}", "{:8d}"
    n = len(ints)
    firstline = 10 - start
    if n >= firstline:
        i = firstline
        print((int8 * i).format(*ints[:i]), file=f)
        # continuation lines start with a blank field
        fullline = "".join((blank, int8 * 8, "\\n")).format
        put = f.write
        while n >= i + 8:
            put(fullline("", *ints[i : i + 8]))
            i += 8
        if n > i:
            n -= i
            print("".join((blank, int8 * n)).format("", *ints[i%s:]), file=f)
    else:
        print((int8 * n).format(*ints), file=f)
'''

_T1_NESTED_HEAD = '''    first = "{:<8s}{:{}d}\\n"
''' + _T1_BODY.replace('''        f.write(f"{tablestr:<8s}{tid:16d}\\n*\\n")
''', '''        f.write(first.format(tablestr, tid, 16) + "*\\n")
''').replace('''        f.write(f"{tablestr:<8s}{tid:8d}\\n")
''', '''        f.write(first.format(tablestr, tid, %d))
''')

_GRIDS_FORMAT_MAP = '''    if len(teststr) > 8:
        pieces = {
            "name": "GRID*".ljust(8),
            "int": f"{{:{length}d}}",
            "opt": f"{{:>{length}}}",
            "xyz": form * 2 + "\\n" + "*".ljust(8) + form,
        }
    else:
        pieces = {
            "name": "GRID".ljust(8),
            "int": f"{{:{length}d}}",
            "opt": f"{{:>{length}}}",
            "xyz": form * %d,
        }
    if ps == seid == "":
        string = "{name}{int}{int}{xyz}{int}\\n".format_map(pieces)
        writer.vecwrite(f, string, grids, cp, xyz[:, 0], xyz[:, 1], xyz[:, 2], cd)
    else:
        string = "{name}{int}{int}{xyz}{int}{opt}{opt}\\n".format_map(pieces)
        writer.vecwrite(
            f, string, grids, cp, xyz[:, 0], xyz[:, 1], xyz[:, 2], cd, ps, seid
        )
'''

_DMIG_TRANSLATE = '''                        if mtype < 3:  # real
                            parts = (num,)
                        else:  # complex
                            parts = (num.real, num.imag)
                        exponent = str.maketrans("E", "D" if mtype & 1 == %d else "E")
                        num_str = "".join(format(part, "16.9E") for part in parts)
                        f.write("*".ljust(8) + "{:16d}{:16d}{}\\n".format(gi, ci, num_str.translate(exponent)))
'''

_THRU_MATCH = '''    length = len(seq)
    start = 0
    fields = init_func([], False)
    init_length = len(fields)
    while start < length:
        match _find_sequence(seq, start):
            case end if end > start:
                if len(fields) > init_length:
                    fields = init_func(fields)
                fields.extend([seq[start], "THRU", seq[end]])
                start = end + %d
                fields = init_func(fields)
            case end:
                fields.append(seq[start])
                start += 1
        if len(fields) == 9:
            fields = init_func(fields)
'''

_NASINTS_CACHED = '''    n = len(ints)
    firstline = 10 - start
    if n >= firstline:
        i = firstline
        f.write(_cached_ints_template(i, False).format(*ints[:i]))
        while n >= i + 8:
            f.write(_cached_ints_template(8, True).format("", *ints[i : i + 8]))
            i += 8
        if n > i:
            n -= i
            f.write(_cached_ints_template(n, True).format("", *ints[i:]))
    else:
        f.write(_cached_ints_template(n, False).format(*ints))


def _mk_ints_template(count, blank_first):
    """format string for a line of `count` integers (after a blank field, for a continuation line)"""
    template = "{:8d}" * %s + "\\n"
    return "{:8s}" + template if blank_first else template


import functools

_cached_ints_template = functools.lru_cache(maxsize=None)(_mk_ints_template)
'''

RECIPES += (
    _pair(_CSUPER_RSTRIP % 2, _CSUPER_RSTRIP % 3, _CSUPER_TAIL, ["C13-R4"],
          "wtcsuper: the head of the card from a line template cut with .rstrip", "one field too many before the integers")
    + _pair(_NASINTS_PRINT % "", _NASINTS_PRINT % " + 1", _NASINTS, ["C13-R4"],
            "wtnasints: templates without a newline of their own, the lines written by print(..., file=f)", "the last line starts one integer late")
    + _pair(_T1_NESTED_HEAD % 8, _T1_NESTED_HEAD % 16, _T1_BODY, ["C13-R3"],
            "tabled1: the width of the id field passed as a nested replacement field of the format spec", "a 16-column id on a small-field card")
    + _pair(_GRIDS_FORMAT_MAP % 3, _GRIDS_FORMAT_MAP % 4, _GRIDS_BODY, ["C13-R1"],
            "wtgrids: the template assembled by str.format_map from a table of pieces (field specs built by f-strings)", "four coordinate fields on a small-field card")
    + _pair(_DMIG_TRANSLATE % 0, _DMIG_TRANSLATE % 1, _DMIG_TERM, ["C13-R3"],
            "wtdmig: the exponent letter by str.translate, the parts joined from a generator expression (F12 keys must survive)", "D exponent for the odd (single precision) types")
    + _pair(_THRU_MATCH % 1, _THRU_MATCH % 2, _THRU_LOOP, ["C13-R4"],
            "_wt_with_thru: `match` on the value of the call, a capture with a guard", "the element after a run is skipped")
    + _pair(_NASINTS_CACHED % "count", _NASINTS_CACHED % "(count + 1)", _NASINTS, ["C13-R4"],
            "wtnasints: the templates from a helper behind a module-level functools.lru_cache wrapper", "one field too many in every template")
)

# ---- properties, class attributes and inheritance of small classes of the module
_CSUPER_PROPS = '''    head = _CsuperHead(superid)
    f.write(head.text)
    wtnasints(f, head.start, grids)


class _IntsHead:
    """leading fields of a card that ends in a list of integers"""

    name = ""
    values = ()
    start = 2

    @property
    def text(self):
        return self.name.ljust(8) + "".join(f"{v:8d}" for v in self.values)


class _CsuperHead(_IntsHead):
    name = "CSUPER"

    def __init__(self, superid):
        self.values = (superid, 0)

    @property
    def start(self):
        return %d + len(self.values)
'''

RECIPES += _pair(_CSUPER_PROPS % 2, _CSUPER_PROPS % 3, _CSUPER_TAIL, ["C13-R4"],
                 "wtcsuper: the head of the card from a class with properties, a class attribute and a base class of the module", "the integers start one field late")

# ---- records of module classes: a registry of module-level objects made by a dict comprehension and read with .get, a record whose methods change
# ---- its fields (in a loop), a function kept in a field
_T1_REGISTRY = _T1_GUARD_BODY.replace(_T1_GUARD, '''    fmt = _PAIR_FORMATS.get(n)
    if fmt is None:
        raise ValueError(f"`form` produces a {n} length string. It must be 16 or 32.")
''').replace("    if n == 32:\n", "    if fmt.star:\n") + '''

class _PairFormat:
    """layout of a table card for one rendered width of a [time, data] pair"""

    def __init__(self, width):
        self.width = width
        self.star = "*" if width > 16 else ""
        self.pairs = 64 // width


_PAIR_FORMATS = {fmt.width: fmt for fmt in (_PairFormat(16), _PairFormat(%d))}
'''

_VECWRITE_TAIL = "    length = 1\n    fncs = []\n" + _VECWRITE_LOOP + "    _vecwrite(f, string, length, args, fncs, postfunc, pfargs, so)\n"

_VECWRITE_TRACKER = '''    expected = _VectorLength(so)
    fncs = []
    for i, arg in enumerate(args):
        if not isinstance(arg, str) and hasattr(arg, "__len__"):
            if np.ndim(arg) == 2:
                fncs.append(_get_matrow)
                curlen = np.size(arg, 0)
            elif len(arg) == 1:
                fncs.append(_get_scalar1)
                curlen = 1
            else:
                fncs.append(_get_itemi)
                curlen = len(arg)
            expected.update(i + 1, curlen)
        else:
            fncs.append(_get_scalar)
    _vecwrite(f, string, expected.length, args, fncs, postfunc, pfargs, so)


class _VectorLength:
    """keeps track of the expected vector length for :func:`vecwrite` while going through the arguments"""

    def __init__(self, so):
        self.length = 1
        self._so = so

    def update(self, argno, curlen):
        if curlen <= 1:
            return
        if self.length > 1:
            self._check(argno, curlen)
        self.length = curlen

    def _check(self, argno, curlen):
        length, so = self.length, self._so
        if so is not None:
            if range(curlen)[so] != range(length)[so]:
                msg = (
                    "length mismatch with slice object:"
                    f" arg # {argno} is incompatible with "
                    "previous args"
                )
                raise ValueError(msg)
        elif curlen != length:
            msg = (
                f"length mismatch: arg # {argno} has "
                f"length {curlen}; expected {length} or 1."
            )
            raise ValueError(msg)
'''

_THRU_CARD = '''    length = len(seq)
    start = 0
    card = _PendingCard(init_func)
    while start < length:
        end = _find_sequence(seq, start)
        if end > start:
            if card.has_data():
                card.flush()
            card.fields.extend([seq[start], "THRU", seq[end]])
            start = end + %d
            card.flush()
        else:
            card.fields.append(seq[start])
            start += 1
        if card.is_full():
            card.flush()
    if card.has_data():
        wtcard8(f, card.fields)


class _PendingCard:
    """the fields of the card that :func:`_wt_with_thru` is filling up"""

    def __init__(self, init_func):
        self._init_func = init_func
        self.fields = init_func([], False)
        self._init_length = len(self.fields)

    def has_data(self):
        return len(self.fields) > self._init_length

    def is_full(self):
        return len(self.fields) == 9

    def flush(self):
        self.fields = self._init_func(self.fields)
'''

RECIPES += (
    _pair(_T1_REGISTRY % 32, _T1_REGISTRY % 24, _T1_GUARD_BODY, ["C13-R1"],
          "tabled1: the layouts as module-level objects in a registry made by a dict comprehension, the guard by .get(...) is None", "a layout for 24-character pairs")
    + [("C13", "neutral", [], W, _VECWRITE_TAIL, _VECWRITE_TRACKER,
        "vecwrite: the expected vector length kept by a record whose method changes its field (called in the loop over the arguments)")]
    + _pair(_THRU_CARD % 1, _THRU_CARD % 2, _THRU_ALL, ["C13-R4"],
            "_wt_with_thru: the fields of the pending card in a record with methods that rebind them, the line starter kept in a field", "the element after a run is skipped")
)


# ====================================================================================================================== last pass (round 4, seed K)
# the common length of vecwrite's arguments, decided on a finite world of argument lengths (verifier/c13_len.py): siblings of the flattened
# `if curlen > 1 and length > 1: ...; length = curlen` (a one-element list after a vector resets the row count) and correct variants of
# the same loop.  The neutral forms were run through pyyeti/tests/test_writer.py, the doctests of writer.py and a product of
# scalar / 1 / n / m argument lengths (2-3 arguments, with and without a slice object) against the unchanged function.
RECIPES += [
    ("C13", "break", ["C13-R2"], W, "            if curlen > 1:\n", "            if curlen > 1 or length > 1:\n",
     "vecwrite: the length checks are entered for every sized argument once a vector was seen -- a one-element list after a vector is a ValueError "
     "(wtgrids with several grids and cd=[7] cannot be written)"),
    ("C13", "break", ["C13-R2"], W, "                    elif curlen != length:\n", "                    elif curlen < length:\n",
     "vecwrite: the mismatch test is one-sided -- a longer second vector raises the row count and the first vector is indexed past its end"),
    ("C13", "break", ["C13-R2"], W, "    length = 1\n    fncs = []\n", "    length = 0\n    fncs = []\n",
     "vecwrite: the row count starts at 0 -- a call with scalars only (a single GRID with plain numbers and a one-row xyz) writes nothing"),
    ("C13", "neutral", [], W, "                length = curlen\n", "                length = max(length, curlen)\n",
     "vecwrite: the common length as the maximum of what was seen (after the checks the two are equal, or the old one is 1)"),
    ("C13", "neutral", [], W, "                length = curlen\n", "                if length == 1:\n                    length = curlen\n",
     "vecwrite: the first vector fixes the common length (later ones were checked to give the same rows)"),
    ("C13", "neutral", [], W, "                curlen = 1\n", "                curlen = len(arg)\n",
     "vecwrite: the length of a one-element argument taken from the argument (it is 1 on that branch)"),
]

# ---- pass 6: DMIG form 9, the NCOL header field (writer) vs the columns the expanded reader allocates from it (C13-R3, verifier/c13_ncol.py)
_NC = "            ncol = colids.max()\n"
_RD_NC = "                colindex = np.arange(1, ncol + 1)\n"
RECIPES += [
    ("C13", "break", ["C13-R3"], B, "            form = 9\n" + _NC, "            form = 9\n",
     "wtdmig form 9: the override is dropped, NCOL is the number of stored columns (round-5 seed P as a single edit): labels {1,2,5} -> label 5 outside 3 columns"),
    ("C13", "break", ["C13-R3"], B, _NC, "            ncol = len(colids)\n", "wtdmig form 9: NCOL = number of labels"),
    ("C13", "break", ["C13-R3"], B, _NC, "            ncol = colids.size\n", "wtdmig form 9: NCOL = colids.size"),
    ("C13", "break", ["C13-R3"], B, _NC, "            ncol = colids[-1]\n", "wtdmig form 9: NCOL = last label; nothing sorts the labels (witness [5, 1, 2])"),
    ("C13", "break", ["C13-R3"], B, _NC, "            ncol = colids.min()\n", "wtdmig form 9: NCOL = smallest label"),
    ("C13", "break", ["C13-R3"], B, _NC, "            ncol = colids.max() - 1\n", "wtdmig form 9: NCOL one short of the largest label"),
    ("C13", "break", ["C13-R3"], B, _RD_NC, "                colindex = np.arange(1, ncol)\n", "rddmig expanded form 9: the column index stops one short of NCOL"),
    ("C13", "break", ["C13-R3"], B, _RD_NC, "                colindex = np.arange(ncol)\n", "rddmig expanded form 9: zero-based column index: label NCOL is not in it"),
    ("C13", "break", ["C13-R3"], B, "            ncol = c[i][7] if form == 9 else None\n", "            ncol = c[i][3] if form == 9 else None\n",
     "rddmig form 9: NCOL taken from the field that holds the matrix type"),
    ("C13", "neutral", [], B, _NC, "            ncol = np.max(colids)\n", "wtdmig form 9: largest label spelled np.max"),
    ("C13", "neutral", [], B, _NC, "            ncol = int(max(colids))\n", "wtdmig form 9: largest label spelled int(max(...))"),
    ("C13", "neutral", [], B, _NC, "            largest = colids.max()\n            ncol = largest\n", "wtdmig form 9: largest label through a temporary"),
    ("C13", "neutral", [], B, _NC, "            ncol = sorted(colids)[-1]\n", "wtdmig form 9: last of the sorted labels"),
    ("C13", "neutral", [], B, _NC, "            ncol = int(np.asarray(colids).max())\n", "wtdmig form 9: largest label of the labels as an array"),
    ("C13", "neutral", [], B, _NC, "            ncol = max(len(colids), colids.max())\n", "wtdmig form 9: never fewer columns than stored (the maximum dominates)"),
    ("C13", "neutral", [], B, "        ncol = value.shape[1]\n\n        # determine form of matrix:\n        if colids.nlevels == 1:\n            form = 9\n" + _NC,
     "        ncol = colids.max() if colids.nlevels == 1 else value.shape[1]\n\n        # determine form of matrix:\n        if colids.nlevels == 1:\n            form = 9\n",
     "wtdmig: NCOL decided once by a conditional expression ahead of the form block"),
    ("C13", "neutral", [], B, _RD_NC, "                colindex = np.array(range(1, ncol + 1))\n", "rddmig expanded form 9: the column numbers 1..NCOL from a range"),
    ("C13", "neutral", [], B, _RD_NC, "                last = ncol + 1\n                colindex = np.arange(1, last)\n", "rddmig expanded form 9: end of the column numbers through a temporary"),
    ("C13", "neutral", [], B, "            ncol = c[i][7] if form == 9 else None\n",
     "            ncol = None\n            if form == 9:\n                ncol = c[i][7]\n", "rddmig: NCOL read under a statement-level test of the form"),
]
