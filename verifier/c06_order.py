"""C06-R9: cbreorder on a *finite world* of boundary vectors (helper of verifier/c06.py; the interpreter is verifier/c14_np.py).

C06-R3 decides cbreorder on terms, for a generic b; a test on the *content* of b (`b.max() < lb`, `np.all(np.diff(b) > 0)`, ...) is undecided
there (exit 2).  Here the function is executed by value on a small world: M a 4 x 4 (drm: 3 x 4) matrix of distinct symbols, b every ordered
selection of 1..4 distinct column numbers of range(4) (64 vectors: ascending and not, leading block and not, with and without a complement),
drm and last both ways.  `locate.flippv` and `np.setdiff1d` are modelled by their documented meaning (the ascending complement / set difference).  Required, cell by cell:
the result is M[ix_(pv, pv)] (drm: M[:, pv]) with pv = (b, q) or (q, b) - new row j is old DOF pv[j], in the caller's order of b.  Every
entry of the result is a symbol that names its source cell, so nothing about the spelling of the permutation is looked at.  A world the
interpreter cannot run is exit 2, never compared."""
from __future__ import annotations

import itertools

from . import c14_np as N
from . import c14_sem as G
from . import e2_formula as F
from .core import Unsupported

CB = "pyyeti/cb.py"
NDOF = 4


def _hook(name, args, kwargs, node, ip):
    short = name.split(".")[-1]
    if short == "flippv" and len(args) + len(kwargs) == 2:
        pv = args[0] if args else kwargs.get("pv")
        n = args[1] if len(args) > 1 else kwargs.get("n")
        if not isinstance(pv, N.Arr):
            raise Unsupported("flippv: index vector")
        have = {G.int_of(x) for x in pv.flat()}
        n = G.int_of(n)
        out = [F.const(i) for i in range(n) if i not in have]
        return N.Arr.new(out, (len(out),))
    if short == "setdiff1d" and len(args) == 2 and not kwargs and all(isinstance(a, N.Arr) for a in args):
        # documented: the sorted, unique values of ar1 that are not in ar2
        drop = {G.int_of(x) for x in args[1].flat()}
        out = [F.const(i) for i in sorted({G.int_of(x) for x in args[0].flat()} - drop)]
        return N.Arr.new(out, (len(out),))
    return NotImplemented


def worlds():
    for k in range(1, NDOF + 1):
        for b in itertools.permutations(range(NDOF), k):
            yield b


def run(ctx, fn, b, drm, last):
    rows = 3 if drm else NDOF
    M = N.Arr.new([F.sym(f"m{i}_{j}") for i in range(rows) for j in range(NDOF)], (rows, NDOF))
    bb = N.Arr.new([F.const(x) for x in b], (len(b),))
    runs = N.explore(ctx, CB, fn, {"M": M, "b": bb, "drm": G.TRUE if drm else G.FALSE, "last": G.TRUE if last else G.FALSE}, hook=_hook)
    if len(runs) != 1:
        raise Unsupported(f"{len(runs)} regimes for a concrete world")
    r = runs[0]
    if r.pyerror or r.raised:
        raise Unsupported(f"the run ends in an exception ({r.pyerror or 'raise'})")
    if not (isinstance(r.ret, N.Arr) and r.ret.ndim == 2):
        raise Unsupported(f"the value returned is not a matrix ({str(r.ret)[:80]})")
    res = r.ret.nested()
    if G.any_unknown(res):
        raise Unsupported("the result has entries the evaluation could not compute")
    q = [i for i in range(NDOF) if i not in b]
    pv = (q + list(b)) if last else (list(b) + q)
    if drm:
        want = [[F.sym(f"m{i}_{j}") for j in pv] for i in range(rows)]
    else:
        want = [[F.sym(f"m{i}_{j}") for j in pv] for i in pv]
    got = [[x for x in row] for row in res]
    ok = len(got) == len(want) and all(len(g) == len(w) and all(G.wrap(x).equals(y) if hasattr(G, "wrap") else x.equals(y) for x, y in zip(g, w))
                                       for g, w in zip(got, want))
    return ok, pv, got


def r9_reorder_worlds(ctx):
    from . import c06_sem as cs
    fn = cs.func(ctx, CB, "cbreorder")
    n = 0
    for drm in (False, True):
        for last in (False, True):
            bad, err = [], []
            k = 0
            for b in worlds():
                try:
                    ok, pv, got = run(ctx, fn, b, drm, last)
                except (Unsupported, N.PyError) as e:
                    err.append((b, str(e)[:200]))
                    continue
                k += 1
                if not ok:
                    bad.append({"b": list(b), "expected order (old DOF of new row j)": pv, "first row returned": [repr(x) for x in got[0]]})
            n += k
            if err:
                ctx.error(f"cbreorder (drm={drm}, last={last}): {len(err)} of 64 boundary vectors could not be run", fn, err[:3])
            ctx.check(not bad, f"cbreorder (drm={drm}, last={last}): for each of {k} boundary vectors (every ordered selection of 1..4 of 4 DOF) the result "
                               "is M taken at (b, q) / (q, b) in the caller's order of b", fn,
                      None if not bad else {"violating worlds": len(bad), "examples": bad[:3]}, key=f"C06-R9|cbreorder|drm={drm}|last={last}")
    return n
